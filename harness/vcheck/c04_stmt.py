"""C04: fail-closed STATEMENT-LEVEL translator, Python `ast` -> Gallina (continuation-passing style).

Translates the whole body of one method (Fitness.__call__, FitnessPySwarms.__call__) into an executable
Gallina definition over abstract inputs.  Target domain: coq/C04/PyStmt.v (`result`, `hists`, `for_each`).

Fragment (anything else raises TranslationError -- nothing is ever skipped except the docstring):
  x = <expr>                      let-binding                        (one Name target)
  x = <raising external call>     match .. with inl x => .. | inr e => <raise e> end
  x = []   /   x.append(e)        local list, rebinding `x := x ++ [e]` (the list must never be aliased)
  self.<history list>.append(e)   st := append_params st e / append_lls st e
  return <expr>                   (Ret e, st)
  if / elif / else                `if` over a boolean expression; the statements after it become ONE join
                                  continuation `let k := fun st <assigned locals> => .. in`
  try: .. except exc.FitException: ..   handler = join continuation; every raising call inside the body
                                  dispatches on `exc_is_FitException e`, other exceptions propagate
  for x in <list local>: ..       PyStmt.for_each over (st, every local assigned in the loop)
  if isinstance(p[0], float): p = [p]     the single-vector idiom, only as first statement on the parameter
A local that may be unbound where it is read is carried as `option` and the read raises
exc_UnboundLocalError (Python semantics), so the translation needs no liveness argument.

Expressions: locals, self.<configuration attribute>, np.nan, not/and/or, the non-raising externals
(np.isnan, copy.copy, np.asarray, self.model.log_prior_list_from_vector) and ARITHMETIC ONLY THROUGH THE LEAF
FORMULAS of pyexpr2coq (matched by source position; an arithmetic expression that is not a translated leaf is
refused).  Everything the translation does not interpret is a NAMED Section variable of the generated section.
"""
import ast

from . import pyexpr2coq as T

COQTY = {"V": "V", "Obj": "Obj", "Inst": "Inst", "listV": "(list V)", "listObj": "(list Obj)", "bool": "bool",
         "Params": "Params"}
HISTS = "(hists Obj V)"

# configuration attributes of the fitness object (read-only in the translated methods)
CONFIG = {"fom_is_log_likelihood": "bool", "convert_to_chi_squared": "bool", "store_history": "bool",
          "resample_figure_of_merit": "V"}
GLOBAL_FLAGS = {"jax_wrapper.use_jax": "bool"}

# externals: dotted callee -> (keyword names, argument types, result type, may raise)
EXTERNALS = {
    "self.model.instance_from_vector": (["vector"], ["Obj"], "Inst", True),
    "self.log_likelihood_function": (["instance"], ["Inst"], "V", True),
    "self.analysis.log_likelihood_function": (["instance"], ["Inst"], "V", True),
    "self.model.log_prior_list_from_vector": (["vector"], ["Obj"], "listV", False),
    "np.isnan": ([None], ["V"], "bool", False),
    "copy.copy": ([None], ["Obj"], "Obj", False),
    "np.asarray": ([None], ["listV"], "listV", False),
}
EXTERNAL_DOC = {
    "self.model.instance_from_vector": "AbstractPriorModel.instance_from_vector (limits, assertions, instance: C01/C03); may raise",
    "self.log_likelihood_function": "the (jax-jitted when USE_JAX) user likelihood behind the property Fitness.log_likelihood_function; may raise",
    "self.analysis.log_likelihood_function": "the user's Analysis.log_likelihood_function; may raise",
    "self.model.log_prior_list_from_vector": "AbstractPriorModel.log_prior_list_from_vector (treated as total)",
    "np.isnan": "numpy.isnan on a scalar",
    "copy.copy": "copy.copy of the proposed vector",
    "np.asarray": "numpy.asarray of the list of figures of merit (same numbers, same order)",
}
HIST_FIELDS = {"parameters_history_list": ("append_params", "Obj"), "log_likelihood_history_list": ("append_lls", "V")}
EXC_CLASSES = {"exc.FitException": "exc_is_FitException"}


def ident(dotted):
    return dotted.replace(".", "_")


class StmtTr:
    def __init__(self, name, file, qual, fn, src, param_type, leafmap):
        self.name, self.file, self.qual, self.fn, self.src = name, file, qual, fn, src
        self.param_type = param_type
        self.leafmap = leafmap
        self.vars = {}            # Section variable -> (coq type, doc)   (insertion ordered)
        self.typevars = ["V", "Obj", "Inst", "Exc"]
        self.vartypes = {}
        self.frames = []          # enclosing ('try', pred, jump) / ('loop',) frames, outermost first
        self.fresh = 0
        self.seen = []            # (line, kind, text) of every translated statement
        self.visited = set()
        self.ret_types = set()
        self.locallists = set()

    # ---- helpers ----------------------------------------------------------------------------------
    def refuse(self, node, why):
        line = getattr(node, "lineno", self.fn.lineno)
        text = " ".join((ast.get_source_segment(self.src, node) or "").split())[:90] if hasattr(node, "lineno") else ""
        raise T.TranslationError("%s:%s line %d: %s [%s]" % (self.file, self.qual, line, why, text))

    def use(self, name, ty, doc=""):
        if name in self.vars and self.vars[name][0] != ty:
            raise T.TranslationError("%s: section variable %s used at two types" % (self.qual, name))
        self.vars.setdefault(name, (ty, doc))
        return name

    def note(self, s, kind):
        text = (ast.get_source_segment(self.src, s) or "").strip().splitlines()[0][:100]
        self.seen.append((s.lineno, kind, text))
        self.visited.add(id(s))

    @staticmethod
    def pos(n):
        return (n.lineno, n.col_offset, n.end_lineno, n.end_col_offset)

    def opt(self, name, status):
        t = COQTY[self.vartypes[name]]
        return t if status == "def" else "(option %s)" % t

    def gensym(self, base):
        self.fresh += 1
        return "%s%d" % (base, self.fresh)

    # ---- static passes ----------------------------------------------------------------------------
    def assigned(self, stmts):
        out = set()
        for s in stmts:
            if isinstance(s, ast.Assign) and len(s.targets) == 1 and isinstance(s.targets[0], ast.Name):
                out.add(s.targets[0].id)
            elif isinstance(s, ast.Expr) and self.local_append(s):
                out.add(s.value.func.value.id)
            elif isinstance(s, ast.If):
                out |= self.assigned(s.body) | self.assigned(s.orelse)
            elif isinstance(s, ast.Try):
                out |= self.assigned(s.body)
                for h in s.handlers:
                    out |= self.assigned(h.body)
            elif isinstance(s, ast.For):
                if isinstance(s.target, ast.Name):
                    out.add(s.target.id)
                out |= self.assigned(s.body)
        return out

    def local_append(self, s):
        c = s.value
        return isinstance(c, ast.Call) and isinstance(c.func, ast.Attribute) and c.func.attr == "append" \
            and isinstance(c.func.value, ast.Name)

    def flow(self, stmts, D):
        """(may complete normally, locals definitely bound on normal completion)."""
        D = set(D)
        for s in stmts:
            if isinstance(s, ast.Return) or isinstance(s, ast.Raise):
                return False, D
            if isinstance(s, ast.Assign) and len(s.targets) == 1 and isinstance(s.targets[0], ast.Name):
                D.add(s.targets[0].id)
            elif isinstance(s, ast.If):
                c1, D1 = self.flow(s.body, D)
                c2, D2 = self.flow(s.orelse, D)
                if not (c1 or c2):
                    return False, D
                D = (D1 & D2) if (c1 and c2) else (D1 if c1 else D2)
            elif isinstance(s, ast.Try):
                c1, D1 = self.flow(s.body, D)
                cs = [(c1, D1)] + [self.flow(h.body, D) for h in s.handlers]
                live = [d for c, d in cs if c]
                if not live:
                    return False, D
                D = set.intersection(*live)
            # For: zero iterations possible -> nothing new is definite; other statements bind nothing
        return True, D

    def merge_status(self, names, outs):
        live = [d for c, d in outs if c]
        Dout = set.intersection(*live) if live else set()
        return {p: ("def" if p in Dout else "opt") for p in names}

    def prepass(self, stmts):
        """One type per local name (program order); refuses conflicting types."""
        for s in stmts:
            if isinstance(s, ast.Assign):
                if len(s.targets) != 1 or not isinstance(s.targets[0], ast.Name):
                    self.refuse(s, "assignment target is not a single local name")
                name = s.targets[0].id
                if isinstance(s.value, ast.List) and not s.value.elts:
                    self.locallists.add(name)
                    self.settype(s, name, "listV")
                else:
                    self.settype(s, name, self.type_of(s.value))
            elif isinstance(s, ast.If):
                self.prepass(s.body)
                self.prepass(s.orelse)
            elif isinstance(s, ast.Try):
                self.prepass(s.body)
                for h in s.handlers:
                    self.prepass(h.body)
            elif isinstance(s, ast.For):
                if not (isinstance(s.target, ast.Name) and isinstance(s.iter, ast.Name)):
                    self.refuse(s, "for loop not of the form `for <name> in <name>`")
                if self.vartypes.get(s.iter.id) != "listObj":
                    self.refuse(s, "for loop over something that is not a list of vectors")
                self.settype(s, s.target.id, "Obj")
                self.prepass(s.body)

    def settype(self, node, name, ty):
        if self.vartypes.setdefault(name, ty) != ty:
            self.refuse(node, "local %s is used at two types (%s, %s)" % (name, self.vartypes[name], ty))

    def type_of(self, n):
        if self.pos(n) in self.leafmap:
            return "V"
        if isinstance(n, ast.Name):
            if n.id not in self.vartypes:
                self.refuse(n, "local %s read before any assignment" % n.id)
            return self.vartypes[n.id]
        d = T._dotted(n)
        if d and d.startswith("self.") and d[5:] in CONFIG:
            return CONFIG[d[5:]]
        if d in GLOBAL_FLAGS:
            return GLOBAL_FLAGS[d]
        if d in ("np.nan", "numpy.nan"):
            return "V"
        if isinstance(n, ast.UnaryOp) and isinstance(n.op, ast.Not):
            return "bool"
        if isinstance(n, ast.BoolOp):
            return "bool"
        if isinstance(n, ast.Call) and T._dotted(n.func) in EXTERNALS:
            return EXTERNALS[T._dotted(n.func)][2]
        self.refuse(n, "expression outside the translated fragment (%s)" % type(n).__name__)

    # ---- expressions ------------------------------------------------------------------------------
    def local(self, node, name, env):
        if env.get(name) != "def":
            self.refuse(node, "internal: local %s is not definitely bound here" % name)
        return name

    def expr(self, n, env):
        p = self.pos(n)
        if p in self.leafmap:
            return self.leaf(n, env), "V"
        if isinstance(n, ast.Name):
            if n.id not in self.vartypes:
                self.refuse(n, "unknown name %s" % n.id)
            return self.local(n, n.id, env), self.vartypes[n.id]
        d = T._dotted(n)
        if d and d.startswith("self.") and d[5:] in CONFIG:
            ty = CONFIG[d[5:]]
            return self.use(ident(d), COQTY[ty], "attribute read %s" % d), ty
        if d in GLOBAL_FLAGS:
            return self.use(ident(d), "bool", "module flag %s" % d), "bool"
        if d in ("np.nan", "numpy.nan"):
            return self.use("np_nan", "V", "numpy.nan"), "V"
        if isinstance(n, ast.UnaryOp) and isinstance(n.op, ast.Not):
            t, ty = self.expr(n.operand, env)
            if ty != "bool":
                self.refuse(n, "`not` of a non-boolean")
            return "(negb %s)" % t, "bool"
        if isinstance(n, ast.BoolOp):
            parts = [self.expr(v, env) for v in n.values]
            if any(ty != "bool" for _, ty in parts):
                self.refuse(n, "and/or of non-booleans (Python would return an operand)")
            sym = " && " if isinstance(n.op, ast.And) else " || "
            return "(" + sym.join(t for t, _ in parts) + ")", "bool"
        if isinstance(n, ast.Call):
            f = T._dotted(n.func)
            if f in EXTERNALS:
                if EXTERNALS[f][3]:
                    self.refuse(n, "a call that may raise is only translated as the whole right-hand side of an assignment")
                return self.call(n, env), EXTERNALS[f][2]
        self.refuse(n, "expression outside the translated fragment (%s)" % type(n).__name__)

    def call(self, n, env):
        f = T._dotted(n.func)
        kws, tys, ret, raises = EXTERNALS[f]
        if n.args and n.keywords:
            self.refuse(n, "mixed positional/keyword call of %s" % f)
        if n.keywords:
            if [k.arg for k in n.keywords] != kws:
                self.refuse(n, "keywords of %s are not %s" % (f, kws))
            args = [k.value for k in n.keywords]
        else:
            args = list(n.args)
        if len(args) != len(tys) or any(isinstance(a, ast.Starred) for a in args):
            self.refuse(n, "arity of %s" % f)
        terms = []
        for a, want in zip(args, tys):
            t, ty = self.expr(a, env)
            if ty != want:
                self.refuse(n, "argument of %s has type %s, expected %s" % (f, ty, want))
            terms.append(t)
        sig = " -> ".join([COQTY[t] for t in tys] + [("(%s + Exc)" % COQTY[ret]) if raises else COQTY[ret]])
        self.use(ident(f), sig, "EXTERNAL " + EXTERNAL_DOC[f])
        return "(%s %s)" % (ident(f), " ".join(terms))

    def leaf(self, n, env):
        name, params, used = self.leafmap[self.pos(n)]
        args = []
        for pid, pty in params:
            if pty != "float":
                self.refuse(n, "leaf %s has a non-float parameter" % name)
            d = used.get(pid)
            if d is None:
                self.refuse(n, "leaf %s: parameter %s does not occur in the expression" % (name, pid))
            if d in self.vartypes and self.vartypes[d] == "V":
                args.append(self.local(n, d, env))
            elif d.startswith("sum_") and self.vartypes.get(d[4:]) == "listV":
                self.use("py_sum", "(list V) -> V", "EXTERNAL the interpreter's builtin sum() on a list of numbers")
                args.append("(py_sum %s)" % self.local(n, d[4:], env))
            elif d.startswith("self.") and CONFIG.get(d[5:]) == "V":
                args.append(self.use(ident(d), "V", "attribute read %s" % d))
            else:
                self.refuse(n, "leaf %s: cannot bind parameter %s (%s)" % (name, pid, d))
        self.use(name, " -> ".join(["V"] * (len(params) + 1)), "LEAF formula %s_F / %s_Q above" % (name, name))
        return "(%s %s)" % (name, " ".join(args))

    def names_read(self, nodes):
        out = []
        for e in nodes:
            for m in ast.walk(e):
                if isinstance(m, ast.Name) and isinstance(m.ctx, ast.Load) and m.id in self.vartypes and m.id not in out:
                    out.append(m.id)
        return out

    # ---- control -----------------------------------------------------------------------------------
    def ret(self, term):
        t = "(Ret %s, st)" % term
        for fr in self.frames:
            if fr[0] == "loop":
                t = "Done %s" % (t if t.startswith("(") else "(%s)" % t)
        return t

    def raise_(self, e, env, i=None):
        i = len(self.frames) if i is None else i
        if i == 0:
            return "(Exn %s, st)" % e
        fr = self.frames[i - 1]
        if fr[0] == "loop":
            return "Done (%s)" % self.raise_(e, env, i - 1)
        return "if %s %s then %s else %s" % (fr[1], e, fr[2](env), self.raise_(e, env, i - 1))

    def make_join(self, label, params, status, body_fn, env):
        k = self.gensym(label)
        env_in = dict(env)
        env_in.update(status)
        binder = "".join(" (%s : %s)" % (p, self.opt(p, status[p])) for p in params)
        body = body_fn(env_in)
        defn = "let %s := fun (st : %s)%s =>\n%s in\n" % (k, HISTS, binder, indent(body))

        def jump(env2):
            return "%s st%s" % (k, "".join(" " + self.pass_arg(p, status[p], env2) for p in params))
        return defn, jump

    def pass_arg(self, p, want, env):
        have = env.get(p)
        if want == "def":
            if have != "def":
                raise T.TranslationError("%s: internal: %s is not definitely bound at a jump that needs it" % (self.qual, p))
            return p
        return "(Some %s)" % p if have == "def" else (p if have == "opt" else "None")

    def block(self, stmts, env, K):
        if not stmts:
            return K(env)
        return self.stmt(stmts[0], env, lambda env2: self.block(stmts[1:], env2, K))

    def guard_reads(self, s, nodes, env, body_fn):
        """Reads of locals that may be unbound raise UnboundLocalError (Python semantics)."""
        env = dict(env)
        pre, post = "", ""
        for name in self.names_read(nodes):
            st = env.get(name)
            if st is None:
                self.refuse(s, "local %s is read where it is never bound (UnboundLocalError on every execution)" % name)
            if st == "opt":
                self.use("exc_UnboundLocalError", "Exc", "the UnboundLocalError Python raises when a local is read before it is bound")
                pre += "match %s with\n| None => %s\n| Some %s =>\n" % (name, self.raise_("exc_UnboundLocalError", env), name)
                post += "\nend"
                env[name] = "def"
        return pre + body_fn(env) + post

    def stmt(self, s, env, K):
        if isinstance(s, ast.Assign):
            return self.guard_reads(s, [s.value], env, lambda e: self.assign(s, e, K))
        if isinstance(s, ast.Return):
            if s.value is None:
                self.refuse(s, "bare return")
            return self.guard_reads(s, [s.value], env, lambda e: self.return_(s, e))
        if isinstance(s, ast.Expr):
            return self.guard_reads(s, [s.value], env, lambda e: self.expr_stmt(s, e, K))
        if isinstance(s, ast.If):
            return self.guard_reads(s, [s.test], env, lambda e: self.if_(s, e, K))
        if isinstance(s, ast.Try):
            return self.try_(s, env, K)
        if isinstance(s, ast.For):
            return self.guard_reads(s, [s.iter], env, lambda e: self.for_(s, e, K))
        if isinstance(s, ast.Pass):
            self.note(s, "pass")
            return K(env)
        self.refuse(s, "statement outside the translated fragment (%s)" % type(s).__name__)

    def assign(self, s, env, K):
        name = s.targets[0].id
        v = s.value
        env2 = dict(env)
        env2[name] = "def"
        if isinstance(v, ast.List) and not v.elts:
            self.note(s, "local list creation")
            return "let %s : (list V) := [] in\n%s" % (name, K(env2))
        if isinstance(v, ast.Name) and v.id in self.locallists:
            self.refuse(s, "a local list is aliased")
        if isinstance(v, ast.Call) and T._dotted(v.func) in EXTERNALS and EXTERNALS[T._dotted(v.func)][3]:
            self.note(s, "assignment from a call that may raise")
            call = self.call(v, env)
            return "match %s with\n| inr e => %s\n| inl %s =>\n%s\nend" % (call, self.raise_("e", env), name, K(env2))
        t, ty = self.expr(v, env)
        if ty != self.vartypes[name]:
            self.refuse(s, "internal: type of %s" % name)
        self.note(s, "assignment")
        return "let %s : %s := %s in\n%s" % (name, COQTY[ty], t, K(env2))

    def return_(self, s, env):
        t, ty = self.expr(s.value, env)
        self.ret_types.add(ty)
        self.note(s, "return")
        return self.ret(t)

    def expr_stmt(self, s, env, K):
        c = s.value
        if not (isinstance(c, ast.Call) and isinstance(c.func, ast.Attribute) and c.func.attr == "append"
                and len(c.args) == 1 and not c.keywords and not isinstance(c.args[0], ast.Starred)):
            self.refuse(s, "expression statement that is not <list>.append(<expr>)")
        recv = T._dotted(c.func.value)
        t, ty = self.expr(c.args[0], env)
        if isinstance(c.args[0], ast.Name) and c.args[0].id in self.locallists:
            self.refuse(s, "a local list is stored by reference")
        if recv and recv.startswith("self.") and recv[5:] in HIST_FIELDS:
            fn, want = HIST_FIELDS[recv[5:]]
            if ty != want:
                self.refuse(s, "%s.append of a %s" % (recv, ty))
            self.note(s, "history append")
            return "let st := %s st %s in\n%s" % (fn, t, K(env))
        if recv in self.locallists:
            if ty != "V" or env.get(recv) != "def":
                self.refuse(s, "append to a local list that is not a bound list of numbers")
            self.note(s, "local list append")
            return "let %s : (list V) := %s ++ [%s] in\n%s" % (recv, recv, t, K(env))
        self.refuse(s, "append to an unknown receiver")

    def D(self, env):
        return {n for n, st in env.items() if st == "def"}

    def if_(self, s, env, K):
        test, ty = self.expr(s.test, env)
        if ty != "bool":
            self.refuse(s, "condition is not a boolean expression of the fragment")
        self.note(s, "if")
        outs = [self.flow(s.body, self.D(env)), self.flow(s.orelse, self.D(env))]
        if not any(c for c, _ in outs):
            dead = lambda e: self.refuse(s, "internal: continuation of an if that cannot complete")
            return "if %s then\n%s\nelse\n%s" % (test, indent(self.block(s.body, env, dead)), indent(self.block(s.orelse, env, dead)))
        params = sorted(self.assigned([s]))
        status = self.merge_status(params, outs)
        defn, jump = self.make_join("k_if", params, status, K, env)
        return defn + "if %s then\n%s\nelse\n%s" % (test, indent(self.block(s.body, env, jump)), indent(self.block(s.orelse, env, jump)))

    def try_(self, s, env, K):
        if len(s.handlers) != 1 or s.orelse or s.finalbody:
            self.refuse(s, "try statement with else/finally or several handlers")
        h = s.handlers[0]
        cls = T._dotted(h.type) if h.type is not None else None
        if cls not in EXC_CLASSES or h.name is not None:
            self.refuse(s, "except clause other than `except exc.FitException:`")
        pred = self.use(EXC_CLASSES[cls], "Exc -> bool", "isinstance(e, %s) (PriorLimitException is a subclass)" % cls)
        self.note(s, "try/except %s" % cls)
        self.visited.add(id(h))
        D = self.D(env)
        outs = [self.flow(s.body, D), self.flow(h.body, D)]
        if any(c for c, _ in outs):
            params = sorted(self.assigned([s]))
            defn_after, jump_after = self.make_join("k_try", params, self.merge_status(params, outs), K, env)
        else:
            defn_after, jump_after = "", (lambda e: self.refuse(s, "internal: continuation of a try that cannot complete"))
        hparams = sorted(self.assigned(s.body))
        hstatus = {p: ("def" if p in D else "opt") for p in hparams}
        defn_h, jump_h = self.make_join("handler", hparams, hstatus, lambda e: self.block(h.body, e, jump_after), env)
        self.frames.append(("try", pred, jump_h))
        body = self.block(s.body, env, jump_after)
        self.frames.pop()
        return defn_after + defn_h + body

    def for_(self, s, env, K):
        if s.orelse:
            self.refuse(s, "for ... else")
        for m in ast.walk(s):
            if isinstance(m, (ast.Break, ast.Continue)):
                self.refuse(m, "break/continue")
        self.note(s, "for")
        it = self.local(s, s.iter.id, env)
        tgt = s.target.id
        if tgt == s.iter.id:
            self.refuse(s, "loop target shadows the iterated list")
        lv = sorted(self.assigned(s.body) | {tgt})
        if s.iter.id in lv:
            self.refuse(s, "the iterated list is assigned inside the loop")
        status = {p: ("def" if env.get(p) == "def" else "opt") for p in lv}
        sty = "(" + " * ".join([HISTS] + [self.opt(p, status[p]) for p in lv]) + ")"
        pat = "'(" + ", ".join(["st"] + lv) + ")"
        env_loop = dict(env)
        env_loop.update(status)
        item = self.gensym("item")
        env_body = dict(env_loop)
        env_body[tgt] = "def"
        self.frames.append(("loop",))
        nxt = lambda e: "Next (%s)" % ", ".join(["st"] + [self.pass_arg(p, status[p], e) for p in lv])
        body = self.block(s.body, env_body, nxt)
        self.frames.pop()
        after = K(env_loop)
        init = ", ".join(["st"] + [(p if env.get(p) in ("def", "opt") else "None") for p in lv])
        return ("for_each\n  (fun (%s : Obj) (s : %s) =>\n   let %s := s in\n   let %s : Obj := %s in\n%s)\n  %s (%s)\n  (fun (s : %s) =>\n   let %s := s in\n%s)"
                % (item, sty, pat, tgt, item, indent(body, 3), it, init, sty, pat, indent(after, 3)))

    # ---- whole function ----------------------------------------------------------------------------
    def function(self):
        fn = self.fn
        a = fn.args
        if a.posonlyargs or a.kwonlyargs or a.kwarg or a.defaults or len(a.args) != 2 or a.args[0].arg != "self":
            self.refuse(fn, "signature is not (self, <parameters>, *<ignored>)")
        param = a.args[1].arg
        ignored = a.vararg.arg if a.vararg else None
        decorators = []
        for d in fn.decorator_list:
            if isinstance(d, ast.Call) and T._dotted(d.func) == "timeout" and len(d.args) == 1 and not d.keywords \
                    and T._dotted(d.args[0]) == "timeout_seconds":
                decorators.append("decorator_timeout")
            else:
                self.refuse(d, "unknown decorator")
        body = list(fn.body)
        if body and isinstance(body[0], ast.Expr) and isinstance(body[0].value, ast.Constant) and isinstance(body[0].value.value, str):
            self.visited.add(id(body[0]))
            body = body[1:]
        for m in ast.walk(fn):
            if isinstance(m, ast.Name) and ignored and m.id == ignored:
                self.refuse(m, "the ignored *%s is used" % ignored)
            if isinstance(m, (ast.Lambda, ast.FunctionDef, ast.AsyncFunctionDef, ast.ClassDef)) and m is not fn:
                self.refuse(m, "nested function/class")
            if isinstance(m, ast.AugAssign):
                self.refuse(m, "augmented assignment (in-place on a numpy value, rebinding on a float: object identity is not modelled)")
            if isinstance(m, (ast.Global, ast.Nonlocal, ast.Yield, ast.YieldFrom, ast.Await, ast.NamedExpr, ast.With, ast.While,
                              ast.Delete, ast.AugAssign, ast.AnnAssign, ast.Raise, ast.Assert, ast.Import, ast.ImportFrom)):
                self.refuse(m, "construct outside the translated fragment (%s)" % type(m).__name__)
        prelude = ""
        self.vartypes[param] = self.param_type
        if self.param_type == "Params":
            # if isinstance(p[0], float): p = [p]    -- the single-vector idiom
            s = body[0] if body else None
            ok = isinstance(s, ast.If) and not s.orelse and len(s.body) == 1 \
                and ast.dump(s.test) == ast.dump(ast.parse("isinstance(%s[0], float)" % param, mode="eval").body) \
                and ast.dump(s.body[0]) == ast.dump(ast.parse("%s = [%s]" % (param, param)).body[0])
            if not ok:
                self.refuse(s or fn, "first statement is not `if isinstance(%s[0], float): %s = [%s]`" % (param, param, param))
            self.note(s, "single-vector idiom")
            self.visited.add(id(s.body[0]))
            self.typevars.append("Params")
            self.use("batch_of_parameters", "Params -> (list Obj)",
                     "EXTERNAL `if isinstance(p[0], float): p = [p]`: one vector becomes a batch of one, a 2-d position array its rows")
            prelude = "let %s : (list Obj) := batch_of_parameters %s in\n" % (param, param)
            self.vartypes[param] = "listObj"
            body = body[1:]
        self.prepass(body)
        env = {param: "def"}
        top = lambda e: self.refuse(fn, "control can reach the end of the function without a return")
        term = prelude + self.block(body, env, top)
        nstmts = sum(1 for m in ast.walk(fn) if isinstance(m, (ast.stmt, ast.ExceptHandler)) and m is not fn)
        if len(self.visited) != nstmts:
            self.refuse(fn, "internal: %d of %d statements translated" % (len(self.visited), nstmts))
        if len(self.ret_types) != 1:
            self.refuse(fn, "return statements of different types %s" % sorted(self.ret_types))
        rty = COQTY[self.ret_types.pop()]
        fty = "%s -> %s -> (result %s Exc * %s)" % (COQTY[self.param_type], HISTS, rty, HISTS)
        for d in decorators:
            self.use(d, "(%s) -> (%s)" % (fty, fty),
                     "ABSTRACTED decorator @timeout(timeout_seconds) (timeout_decorator; lh_timeout_seconds is empty: no limit)")
        out = ["Section %s." % self.name,
               "Variables %s : Type." % " ".join(self.typevars)]
        for v, (ty, doc) in sorted(self.vars.items()):      # sorted: the argument order of the closed definitions is stable
            out.append("(* %s *)" % doc)
            out.append("Variable %s : %s." % (v, ty))
        out.append("")
        out.append("Definition %s_body (%s : %s) (st : %s) : result %s Exc * %s :=" % (self.name, param, COQTY[self.param_type], HISTS, rty, HISTS))
        out.append(indent(term, 1) + ".")
        wrapped = "%s_body" % self.name
        for d in decorators:
            wrapped = "(%s %s)" % (d, wrapped)
        out.append("")
        out.append("Definition %s : %s := %s." % (self.name, fty, wrapped))
        out.append("End %s." % self.name)
        # every Section variable becomes an implicit argument so that Proofs instantiate them BY NAME
        names = " ".join(self.typevars + sorted(self.vars))
        out.append("Arguments %s_body {%s}." % (self.name, " ".join(self.typevars + sorted(v for v in self.vars if v not in decorators))))
        out.append("Arguments %s {%s}." % (self.name, names))
        return "\n".join(out)


def indent(text, n=1):
    pad = "  " * n
    return "\n".join(pad + l if l else l for l in text.splitlines())


def translate(repo, name, file, qual, param_type, leaf_infos, leaf_specs):
    """-> (Gallina text of one Section, report dict).  leaf_infos: output of pyexpr2coq.generate for the leaf specs
    of this function (positions of the leaf expressions)."""
    tree, src = T.parse_file(repo, file)
    fn = T.find_function(tree, qual)
    leafmap = {}
    for sp in leaf_specs:
        if sp.file != file or sp.func != qual:
            continue
        info = leaf_infos[sp.name]
        leafmap[StmtTr.pos(info["node"])] = (sp.name, sp.params, info.get("used", {}))
    tr = StmtTr(name, file, qual, fn, src, param_type, leafmap)
    text = tr.function()
    report = {
        "function": "%s:%s" % (file, qual),
        "statements": ["line %d: %s: %s" % x for x in sorted(tr.seen)],
        "section_variables": {v: {"type": ty, "what": doc} for v, (ty, doc) in tr.vars.items()},
    }
    return text, report
