"""C01 -- parameter vector <-> model instance correspondence (DESIGN.md section 5, C01)."""
import json
import os
from . import common
from . import modelgen as MG
from .common import cfloat, cnat, clist

MANIFEST = {
    "text": "Coq 8.16 theorems over a tree model of composed models (walk, id-ordered unique priors, instance construction for "
            "Model/Collection/tuple/binary-arithmetic/unary (-p, abs(p)) nodes): parameter count = number of distinct priors, advertised order strictly "
            "increasing in id, the i-th vector entry is found at the i-th advertised path (structural paths and tuple members; every advertised "
            "path is classified) and at every structural path of the i-th parameter, constants untouched, "
            "derived and tuple values (members of every kind) computed from the same assignment, a unary node contributes exactly its operand's "
            "parameters and holds op(operand value), subtraction as built (a + (-b)), % and // with Python's meaning (CPython's binary64 algorithm; "
            "over Q the remainder has the sign of the divisor), frame property, vector / unit-vector / path routes agree "
            "(any choice of paths, last entry wins), items of a collection addressed by name at whatever position (item order irrelevant; "
            "numeric names are not positions); tied to the code by a "
            "bit-exact vm_compute correspondence on generated composition programs (two-sided abstraction; second sweep: object_for_path at every "
            "advertised path and the instance accessors vs prior_at / lookup) and a direct property oracle",
    "note": "Trusted: Coq kernel + vm_compute; the harness's raw __dict__ abstraction of live model objects and instances; the "
            "composition API itself is compared with the generator's expected tree. Not modelled: AnnotationPriorModel, deferred "
            "arguments, Array models, the arithmetic forms ** // % and af.Log / af.Log10 (no exact value semantics: oracle only; "
            "-, neg, abs are ModelTree nodes since ext-tree: NUn, a - b = NBin OAdd a (NUn UNeg b)), a unary form of a float (not "
            "API-constructible; the model gives IMissing, the code raises AttributeError -- or, below a binary prior whose "
            "try/except swallows it, yields the operand object), jax pytrees; "
            "value_for of the priors enters the unit route as a table; attribute names of arithmetic priors are read from the live object.",
    "technique": "machine-checked proof in Coq (hand-written tree model) + vm_compute correspondence",
}


def unhex(s):
    return float(s) if s in ("nan", "inf", "-inf") else float.fromhex(s)


_NP = None
_NP_SRC = """
import sys, numpy as np
def h(v):
    return 'nan' if v != v else ('inf' if v == float('inf') else ('-inf' if v == float('-inf') else float(v).hex()))
for line in sys.stdin:
    op, x = line.split()
    x = float(x) if x in ('nan', 'inf', '-inf') else float.fromhex(x)
    with np.errstate(all='ignore'):
        v = np.log(x) if op == 'log' else np.log10(x)
    sys.stdout.write('= ' + h(float(v)) + chr(10)); sys.stdout.flush()
"""


def np_log(op, a):
    """numpy's log / log10 of one float (the harness interpreter has no numpy: a helper process under the drivers' python)."""
    global _NP
    import subprocess
    if _NP is None or _NP.poll() is not None:
        _NP = subprocess.Popen([common.PY, "-W", "ignore", "-c", _NP_SRC], stdin=subprocess.PIPE, stdout=subprocess.PIPE,
                               stderr=subprocess.DEVNULL, text=True, bufsize=1)
    _NP.stdin.write("%s %s\n" % (op, MG_hex(a)))
    _NP.stdin.flush()
    while True:
        line = _NP.stdout.readline()
        if not line:
            raise RuntimeError("numpy helper died")
        if line.startswith("= "):
            return line[2:].strip()


def MG_hex(v):
    return "nan" if v != v else ("inf" if v == float("inf") else ("-inf" if v == float("-inf") else v.hex()))


def vec_inside(rng, pool, mode="inside"):
    vec = []
    for s in pool:
        lo, hi = unhex(s["lo"]), unhex(s["hi"])
        r = rng.random()
        if r < 0.1:
            v = lo
        elif r < 0.2:
            v = hi
        elif r < 0.6:
            v = lo + (hi - lo) * rng.randint(0, 16) / 16.0
        else:
            v = rng.uniform(lo, hi)
        vec.append(v)
    return vec


def children(e):
    """Sub-expressions of a program node (copies resolved)."""
    t = e["t"]
    if t == "arith":
        return [e["l"], e["r"]]
    if t == "unary":
        return [e["a"]]
    if t == "tuple":
        return list(e["members"])
    if t == "model":
        return list(e["kw"].values()) + [v for _, v in e.get("extra", [])]
    if t == "coll":
        return [v for _, v in MG.resolve_copies(e)["items"]]
    if t == "array":
        return list(e["elems"])
    return []


def referenced(e, acc=None):
    """Pool indices of the priors a program's tree refers to."""
    top = acc is None
    acc = set() if acc is None else acc
    if e["t"] == "prior":
        acc.add(e["ref"])
    for ch in children(e):
        referenced(ch, acc)
    return sorted(acc) if top else acc


def any_node(e, pred):
    return pred(e) or any(any_node(ch, pred) for ch in children(e))


def model_sites(e, path=()):
    """(path to a Model node, node) for every Model reachable through Model/Collection attributes."""
    out = []
    if e["t"] == "model":
        out.append((list(path), e))
        for arg, kind, extra in MG.SIGNATURES[e["cls"]]:
            if kind in ("class", "list"):
                out += model_sites(e["kw"][arg], path + (arg,))
    elif e["t"] == "coll":
        if any(sub["t"] in ("copy", "alias") for _, sub in e["items"]):
            return out          # no edits inside collections holding copies (keeps the edit semantics simple)
        for k, sub in e["items"]:
            out += model_sites(sub, path + (k,))
    return out


def tuple_member_of(node, arg):
    """(tuple argument, index) when `arg` names a member of a tuple argument of the model node."""
    if "_" in arg:
        base, suffix = arg.rsplit("_", 1)
        if suffix.isdigit() and base in node["kw"] and node["kw"][base]["t"] == "tuple":
            return base, int(suffix)
    return None


def apply_edit(root, edit):
    import copy
    new = copy.deepcopy(root)
    node = new
    for k in edit["path"]:
        if node["t"] == "model":
            node = node["kw"][k]
        else:
            node = [sub for kk, sub in node["items"] if kk == k][0]
    arg = edit["arg"]
    tm = tuple_member_of(node, arg)
    if tm:
        node["kw"][tm[0]]["members"][tm[1]] = edit["new"]
    else:
        node["kw"][arg] = edit["new"]
    return new


def vec_for(rng, pool, refs):
    full = vec_inside(rng, pool)
    return [full[i] for i in refs]


def unit_for(rng, pool, refs):
    """Unit values: the closed interval for uniform priors, the open interval for the other families (their
    value_for raises at 0 and 1)."""
    out = []
    for i in refs:
        if pool[i]["family"] == "uniform":
            u = rng.choice([0.0, 0.25, 0.5, 1.0, rng.random()])
        else:
            u = rng.choice([0.25, 0.5, 0.75, 0.05 + 0.9 * rng.random()])
        out.append(u.hex())
    return out


def gen_cases(ctx, n):
    rng = ctx.rng
    cases = []
    for i in range(n):
        ext = rng.random() < 0.75      # a quarter of the programs stay in the original (ModelTree-only) shapes
        g = MG.Gen(rng, max_depth=2 if ctx.tier == "quick" else 4, big_tuples=True, arrays=True,
                   families=("uniform", "uniform", "uniform", "gaussian", "loguniform"),
                   tuple_member_kinds=ext, underscore_classes=ext, more_ops=ext, more_forms=ext, defaults=ext, log_ops=ext,
                   numeric_names=ext)
        prog = g.program()
        if len(prog["pool"]) > 40:
            continue
        c = {"program": prog, "pseed": rng.randrange(1 << 30)}
        sites = model_sites(prog["root"])
        if sites and rng.random() < 0.45:
            # an edit applied after a freeze / query / unfreeze cycle; may introduce a prior created
            # up front but unused so far (appended to the pool)
            path, node = rng.choice(sites)
            choices = []
            for arg, kind, extra in MG.SIGNATURES[node["cls"]]:
                if kind == "float":
                    choices.append(arg)
                elif kind == "tuple":
                    choices += ["%s_%d" % (arg, j) for j in range(extra)]
            if choices:
                arg = rng.choice(choices)
                r = rng.random()
                if r < 0.45:
                    new = {"t": "const", "v": (rng.randint(-8, 8) / 4.0).hex()}
                elif prog["pool"] and (r < 0.75 or any(sp.get("default") for sp in prog["pool"])):
                    # (a prior created up front cannot be appended behind config-default priors: they are created later)
                    new = {"t": "prior", "ref": rng.randrange(len(prog["pool"]))}
                else:
                    prog["pool"].append({"family": "uniform", "lo": (-1.0).hex(), "hi": (3.0).hex()})
                    new = {"t": "prior", "ref": len(prog["pool"]) - 1}
                c["edit"] = {"path": path, "arg": arg, "new": new}
                prog["features"] = sorted(set(prog["features"]) | {"edit-after-freeze"})
        refs = referenced(prog["root"])
        c["vec"] = [v.hex() for v in vec_for(rng, prog["pool"], refs)]
        c["unit"] = unit_for(rng, prog["pool"], refs)
        if "edit" in c:
            root2 = apply_edit(prog["root"], c["edit"])
            refs2 = referenced(root2)
            c["vec2"] = [v.hex() for v in vec_for(rng, prog["pool"], refs2)]
            c["unit2"] = unit_for(rng, prog["pool"], refs2)
        cases.append(c)
    return cases


def apply_op(op, a, b):
    if op == "+":
        return a + b
    if op == "*":
        return a * b
    if op == "/":
        return a / b
    if op == "-":
        return a - b
    if op == "**":
        return a ** b
    if op == "%":
        return a % b           # Python: the sign of the divisor
    if op == "//":
        return a // b
    raise ValueError(op)


def expected_instance(e, vec):
    """The property statement, computed directly from the program (independent of the Coq model)."""
    t = e["t"]
    if t == "prior":
        return {"t": "v", "v": float(vec[e["ref"]]).hex()}
    if t == "const":
        return {"t": "v", "v": unhex(e["v"]).hex()}
    if t == "arith":
        a = unhex(expected_instance(e["l"], vec)["v"])
        b = unhex(expected_instance(e["r"], vec)["v"])
        return {"t": "v", "v": apply_op(e["op"], a, b).hex()}
    if t == "unary":
        a = unhex(expected_instance(e["a"], vec)["v"])
        if e["op"] in ("log", "log10"):
            # the library calls numpy; np.log and math.log differ in the last bit on ~8% of inputs, so the statement
            # "the value is log of the operand's value from the same assignment" is evaluated with numpy's function
            return {"t": "v", "v": np_log(e["op"], a)}
        return {"t": "v", "v": (-a if e["op"] == "neg" else abs(a)).hex()}
    if t == "tuple":
        return {"t": "tup", "vs": [expected_instance(m, vec) for m in e["members"]]}
    if t == "model":
        fields = [[arg, expected_instance(e["kw"][arg], vec)] for arg, _, _ in MG.SIGNATURES[e["cls"]]]
        fields += [[k, expected_instance(sub, vec)] for k, sub in e.get("extra", [])]
        return {"t": "obj", "cls": e["cls"], "fields": fields}
    if t == "coll":
        return {"t": "coll", "fields": [[k, expected_instance(sub, vec)] for k, sub in MG.resolve_copies(e)["items"]]}
    if t == "array":
        return {"t": "arr", "shape": e["shape"], "vs": [expected_instance(m, vec)["v"] for m in e["elems"]]}
    raise ValueError(t)


def same_inst(a, b):
    if a["t"] != b["t"]:
        return False
    if a["t"] == "v":
        x, y = unhex(a["v"]), unhex(b["v"])
        return x == y or (x != x and y != y)
    if a["t"] == "tup":
        return len(a["vs"]) == len(b["vs"]) and all(same_inst(x, y) for x, y in zip(a["vs"], b["vs"]))
    if a["t"] == "arr":
        xs, ys = [unhex(x) for x in a["vs"]], [unhex(x) for x in b["vs"]]      # (nan = nan, as for scalars: log of a negative value)
        return a["shape"] == b["shape"] and len(xs) == len(ys) and all(x == y or (x != x and y != y) for x, y in zip(xs, ys))
    if a["t"] in ("obj", "coll"):
        if a.get("cls") != b.get("cls") or len(a["fields"]) != len(b["fields"]):
            return False
        return all(x[0] == y[0] and same_inst(x[1], y[1]) for x, y in zip(a["fields"], b["fields"]))
    return False


def navigate(inst, path):
    """Value at an advertised path of an instance; tuple members by index; None if not addressable."""
    cur = inst
    for i, k in enumerate(path):
        if cur["t"] in ("obj", "coll"):
            nxt = [v for n, v in cur["fields"] if n == k]
            if not nxt:
                return None
            cur = nxt[0]
        elif cur["t"] == "arr":
            keys = MG.array_keys(cur["shape"])
            if k not in keys:
                return None
            cur = {"t": "v", "v": cur["vs"][keys.index(k)]}
        elif cur["t"] == "tup":
            idx = MG.member_index(k)
            if idx >= len(cur["vs"]):
                return None
            cur = cur["vs"][idx]
        else:
            return None
    return cur


def has_division_by_zero(e, vec):
    if e["t"] == "arith" and e["op"] in ("/", "%", "//"):
        if has_division_by_zero(e["l"], vec) or has_division_by_zero(e["r"], vec):
            return True
        try:
            return unhex(expected_instance(e["r"], vec)["v"]) == 0.0
        except ZeroDivisionError:
            return True
    return any(has_division_by_zero(ch, vec) for ch in children(e))


def program_path_kind(root, path):
    """How an advertised path runs through the PROGRAM: 'structural' (Model / Collection attributes only),
    'tuple' (ends in a tuple member), 'array', 'arith' (enters an arithmetic prior: its operand attribute names come
    from caller frames and the instance holds only the computed value there), or None when the program has no such path."""
    cur = root
    kind = "structural"
    for k in path:
        t = cur["t"]
        if t == "model":
            nxt = cur["kw"].get(k)
            if nxt is None:
                nxt = dict((a, b) for a, b in cur.get("extra", [])).get(k)
        elif t == "coll":
            nxt = dict((str(a), b) for a, b in MG.resolve_copies(cur)["items"]).get(k)
        elif t == "tuple":
            idx = MG.member_index(k)
            nxt = cur["members"][idx] if idx < len(cur["members"]) else None
            kind = "tuple"
        elif t == "array":
            keys = MG.array_keys(cur["shape"])
            nxt = cur["elems"][keys.index(k)] if k in keys else None
            kind = "array"
        elif t in ("arith", "unary"):
            return "arith"
        else:
            nxt = None
        if nxt is None:
            return None
        cur = nxt
    return "arith" if cur["t"] in ("arith", "unary") else kind


def program_prior_at(root, path):
    """Pool index of the prior the PROGRAM has at a path (components looked up by NAME), None if there is none or the
    path enters an arithmetic prior (operand names are not the program's)."""
    cur = root
    for k in path:
        t = cur["t"]
        if t == "model":
            nxt = cur["kw"].get(k)
            if nxt is None:
                nxt = dict((a, b) for a, b in cur.get("extra", [])).get(k)
        elif t == "coll":
            nxt = dict((str(a), b) for a, b in MG.resolve_copies(cur)["items"]).get(k)
        elif t == "tuple":
            idx = MG.member_index(k)
            nxt = cur["members"][idx] if idx < len(cur["members"]) else None
        elif t == "array":
            keys = MG.array_keys(cur["shape"])
            nxt = cur["elems"][keys.index(k)] if k in keys else None
        else:
            nxt = None
        if nxt is None:
            return None
        cur = nxt
    return cur["ref"] if cur["t"] == "prior" else None


def oracle(c, r, root, vec_hex, unit_hex, stats, skip_inst=False):
    """The property, stated on the implementation's observables and the program (independent of the Coq model).
    Returns the first violated clause or None; stats (a dict) counts what was compared."""
    prog = c["program"]
    refs = referenced(root)
    n = len(refs)
    vlist = [unhex(x) for x in vec_hex]
    vec = dict(zip(refs, vlist))
    if not r["id_order_ok"]:
        return "harness: pool ids not increasing (creation order of the program's priors is not what the generator assumed)"
    if r.get("structure"):
        return "harness assumption about live objects broken: %s" % r["structure"][0]
    if r["count"] != n:
        return "prior_count %d but %d distinct free parameters" % (r["count"], n)
    if r["ids"] != refs:
        return "priors_ordered_by_id is not creation order: %s" % r["ids"]
    if len(r["upaths"]) != n:
        return "unique_prior_paths has %d entries for %d parameters" % (len(r["upaths"]), n)
    for p in r["upaths"]:
        if p not in r["paths"]:
            return "unique path %s is not among paths" % ".".join(p)
    # every advertised path names (component by component, by NAME) the parameter it is advertised for, and that is the
    # parameter a value supplied at the path is given to -- also when the path is handed back as strings
    for p, adv, got_tuple, got_str, got_item in r.get("resolve", []):
        kind = program_path_kind(root, p)
        if kind not in (None, "arith") and program_prior_at(root, p) != adv:
            return "path %s is advertised for parameter %s, the composition has parameter %s there" % (
                ".".join(p), adv, program_prior_at(root, p))
        if got_tuple != adv or got_str != adv:
            return "a value supplied at the advertised path %s of parameter %s goes to %s (path as advertised) / %s (path as strings); " \
                   "-1: not a parameter, -2: raised" % (".".join(p), adv, got_tuple, got_str)
        if got_item != adv:
            return "walking the model along the advertised path %s of parameter %s with collection[name] / getattr finds %s; " \
                   "-1: not a parameter, -2: raised" % (".".join(p), adv, got_item)
        stats["path-resolution:compared"] = stats.get("path-resolution:compared", 0) + 1
    if not r["paths_resolve"]:
        return "an advertised path does not resolve to its prior"
    if skip_inst:
        return None
    if "exc" in r["inst"]:
        return "instance_from_vector raised %s for a vector within limits" % r["inst"]["exc"]
    inst = r["inst"]["ok"]
    exp = expected_instance(root, vec)
    # i-th value at the i-th advertised path
    for i, p in enumerate(r["upaths"]):
        kind = program_path_kind(root, p)
        stats["advertised-path:" + str(kind)] = stats.get("advertised-path:" + str(kind), 0) + 1
        if kind is None:
            return "advertised path %s does not exist in the composition" % ".".join(p)
        if kind == "arith":
            continue                  # inside an arithmetic prior: the instance holds the computed value only
        got = navigate(inst, p)
        if got is None or got["t"] != "v":
            return "advertised path %s (value %d) is not addressable in the instance" % (".".join(p), i)
        if unhex(got["v"]) != vlist[i]:
            return "value %d (%r) is not at advertised path %s (found %r)" % (i, vlist[i], ".".join(p), unhex(got["v"]))
    if not same_inst(exp, inst):
        return "instance_from_vector differs from the instance the composition denotes"
    # ... also through the public accessors of the live instance (instance[name] and getattr on collections)
    for i, (p, by_item, by_attr) in enumerate(r.get("acc", [])):
        if program_path_kind(root, p) in ("structural", "tuple"):
            for how, got in (("instance[name]", by_item), ("getattr", by_attr)):
                if got is None or unhex(got) != vlist[i]:
                    return "value %d (%r) is not found at advertised path %s through %s (found %s)" % (
                        i, vlist[i], ".".join(p), how, None if got is None else unhex(got))
            stats["accessor-paths:compared"] = stats.get("accessor-paths:compared", 0) + 1
    for name in ("inst_paths", "inst_paths_any"):
        if "exc" in r[name]:
            return "%s raised %s" % (name, r[name]["exc"])
        if not same_inst(inst, r[name]["ok"]):
            return "instance_from_path_arguments (%s) differs from instance_from_vector" % (
                "unique paths" if name == "inst_paths" else "freely chosen paths %s" % r["pv"])
    stats["path-route:entries>params"] = stats.get("path-route:entries>params", 0) + (1 if len(r["pv"]) > n else 0)
    # unit route: independent expectation for uniform priors, the implementation's value_for table otherwise
    units = [unhex(x) for x in unit_hex]
    if "ok" in r["vec_from_unit"]:
        vfu = [unhex(x) for x in r["vec_from_unit"]["ok"]]
        if len(vfu) != n:
            return "vector_from_unit_vector has %d entries for %d parameters" % (len(vfu), n)
        for i, ref in enumerate(refs):
            spec = prog["pool"][ref]
            if spec["family"] == "uniform":
                lo, hi = unhex(spec["lo"]), unhex(spec["hi"])
                e = lo + units[i] * (hi - lo)
                if abs(vfu[i] - e) > 1e-12 * max(1.0, abs(e)):
                    return "vector_from_unit_vector[%d] = %r, uniform prior (%r, %r) at unit %r gives %r" % (i, vfu[i], lo, hi, units[i], e)
        if has_division_by_zero(root, dict(zip(refs, vfu))):
            stats["unit:skipped-division-by-zero"] = stats.get("unit:skipped-division-by-zero", 0) + 1
        elif "exc" in r["inst_unit"]:
            return "instance_from_unit_vector raised %s but vector_from_unit_vector succeeds" % r["inst_unit"]["exc"]
        else:
            if not same_inst(expected_instance(root, dict(zip(refs, vfu))), r["inst_unit"]["ok"]):
                return "instance_from_unit_vector differs from the composition evaluated at the priors' values"
            if "ok" not in r.get("inst_vec_of_unit", {}) or not same_inst(r["inst_unit"]["ok"], r["inst_vec_of_unit"]["ok"]):
                return "instance_from_unit_vector differs from instance_from_vector(vector_from_unit_vector)"
            stats["unit:compared"] = stats.get("unit:compared", 0) + 1
    else:
        if "ok" in r["inst_unit"]:
            return "vector_from_unit_vector raised %s but instance_from_unit_vector succeeds" % r["vec_from_unit"]["exc"]
        stats["unit:skipped-" + r["vec_from_unit"]["exc"]] = stats.get("unit:skipped-" + r["vec_from_unit"]["exc"], 0) + 1
    return None


def coq_case(r, vec_hex, cmp_inst=True, cmp_unit=True):
    tree = r["tree"]
    fl = lambda xs: clist([cfloat(unhex(x)) for x in xs])
    unit_ok = cmp_inst and cmp_unit and "ok" in r["vec_from_unit"] and "ok" in r["inst_unit"]
    return ("{| c_tree := %s; c_vec := %s; c_paths := %s; c_upaths := %s; c_count := %s; c_ids := %s; "
            "c_inst := %s; c_pv := %s; c_inst_paths := %s; c_unit_vec := %s; c_inst_unit := %s; "
            "c_cmp_inst := %s |}") % (
        MG.coq_node(tree), fl(vec_hex),
        clist([MG.coq_path(p) for p in r["paths"]]), clist([MG.coq_path(p) for p in r["upaths"]]),
        cnat(r["count"]), clist([cnat(x) for x in r["ids"]]),
        MG.coq_ival(r["inst"]["ok"]) if cmp_inst else "IMissing",
        clist(["(%s, %s)" % (MG.coq_path(p), cfloat(unhex(v))) for p, v in r["pv"]]) if cmp_inst else "[]",
        MG.coq_ival(r["inst_paths_any"]["ok"]) if cmp_inst else "IMissing",
        fl(r["vec_from_unit"]["ok"]) if unit_ok else "[]",
        ("(Some %s)" % MG.coq_ival(r["inst_unit"]["ok"])) if unit_ok else "None",
        "true" if cmp_inst else "false")


# ---------- structural class labels (computed from the case only) ----------
def structural_classes(root):
    out = set()

    def visit(e):
        if e["t"] == "tuple":
            for m in e["members"]:
                if m["t"] in ("arith", "unary"):
                    out.add("arith-member-in-tuple")
                if m["t"] == "const" and m.get("int"):
                    out.add("int-const-in-tuple")
        if e["t"] == "model":
            sig = MG.SIGNATURES[e["cls"]]
            tuple_args = [a for a, k, _ in sig if k == "tuple"]
            for a, k, _ in sig:
                if k != "tuple" and "_" in a and a.split("_")[0] in tuple_args:
                    out.add("arg-prefix-is-tuple-arg")
            if any("_" in a for a in tuple_args):
                out.add("tuple-arg-name-with-underscore")
        return False
    any_node(root, visit)
    return out


def classes_of(c):
    roots = [c["program"]["root"]]
    if "edit" in c:
        roots.append(apply_edit(c["program"]["root"], c["edit"]))
    cl = set()
    for r in roots:
        cl |= structural_classes(r)
    return sorted(cl) + ["feature:" + f for f in c["program"]["features"]]


def uses_pow(root):
    return any_node(root, lambda e: e["t"] == "arith" and e["op"] == "**")


def tree_features(t, acc=None, under=None):
    """Which of the new ModelTree features a sent tree exercises (for the distribution report)."""
    acc = set() if acc is None else acc
    k = t["t"]
    if k == "unary":
        acc.add("NUn " + t["op"])
        acc.add("NUn operand:" + t["a"]["t"])
        if under == "unary":
            acc.add("NUn under NUn")
        if under == "tuple":
            acc.add("NUn as tuple member")
        tree_features(t["a"], acc, "unary")
    elif k == "arith":
        if t["op"] == "+" and t["r"]["t"] == "unary" and t["r"]["op"] == "neg":
            acc.add("a - b (NBin OAdd a (NUn UNeg b))")
        if t["op"] == "+" and t["l"]["t"] == "unary" and t["l"]["op"] == "neg" and t["r"]["t"] == "const":
            acc.add("const - b (NBin OAdd (NUn UNeg b) const)")
        if t["op"] in ("%", "//"):
            acc.add("NBin %s (%s %s %s)" % ({"%": "OMod", "//": "OFloorDiv"}[t["op"]], t["l"]["t"], t["op"], t["r"]["t"]))
        tree_features(t["l"], acc, "arith")
        tree_features(t["r"], acc, "arith")
    elif k == "tuple":
        for _, c in t["members"]:
            tree_features(c, acc, "tuple")
    elif k in ("model", "coll"):
        for _, c in t["attrs"]:
            tree_features(c, acc, k)
    return acc


def coq_rcase(r, vec_hex, root):
    """Second correspondence record (Resolve.rcase): what object_for_path resolves at every advertised path (as
    advertised / as strings) and what the public accessors return at the structural unique paths."""
    opt = lambda x: "(Some %s)" % cnat(x) if x >= 0 else "None"
    res = []
    for p, adv, got_tuple, got_str, got_item in r.get("resolve", []):
        for g in sorted({got_tuple, got_str, got_item}):
            res.append("(%s, %s)" % (MG.coq_path(p), opt(g)))
    acc = []
    for p, by_item, by_attr in r.get("acc", []):
        if program_path_kind(root, p) == "structural":
            for g in (by_item, by_attr):
                if g is not None:
                    acc.append("(%s, %s)" % (MG.coq_path(p), cfloat(unhex(g))))
    return "{| r_tree := %s; r_vec := %s; r_resolve := %s; r_access := %s |}" % (
        MG.coq_node(r["tree"]), clist([cfloat(unhex(x)) for x in vec_hex]), clist(res), clist(acc))


def eval_codes(ctx, header, terms, shard=40, typ="case", fn=None, tag="C01", obligation="correspondence:cases"):
    """One vm_compute sweep: per case a code  1*(check_case fails) + 2*(wfb fails) + 4*(wfb2 fails)."""
    import re
    import subprocess
    fn = fn or ("(fun c => ((if check_case c then 0 else 1) + (if wfb float (c_tree c) then 0 else 2) + "
                "(if wfb2 float fbits_eqb (c_tree c) then 0 else 4))%N)")
    os.makedirs(ctx.rundir, exist_ok=True)
    shards = [terms[i:i + shard] for i in range(0, len(terms), shard)] or [[]]
    procs = []
    for si, sh_cases in enumerate(shards):
        vf = os.path.join(ctx.rundir, "cases_%s_%d.v" % (tag, si))
        with open(vf, "w") as f:
            f.write(header + "\n")
            f.write("Definition the_cases : list %s :=\n [\n  " % typ + ";\n  ".join(sh_cases) + "\n ].\n")
            f.write('Redirect "%s/cases_%s_%d" Eval vm_compute in (map %s the_cases).\n' % (ctx.rundir, tag, si, fn))
        procs.append((si, vf))
    codes, logs = [], []
    running = []
    pending = list(procs)
    results = {}
    while pending or running:
        while pending and len(running) < common.NCPU:
            si, vf = pending.pop(0)
            pr = subprocess.Popen(["bash", "-c", "ulimit -s unlimited 2>/dev/null; exec timeout 900 coqc %s %s" % (
                " ".join(common.coq_flags("C01")), vf)], stdout=subprocess.PIPE, stderr=subprocess.STDOUT, text=True)
            running.append((si, pr))
        si, pr = running.pop(0)
        out, _ = pr.communicate()
        if pr.returncode != 0:
            logs.append("shard %d: rc=%d\n%s" % (si, pr.returncode, out[-2000:]))
            continue
        txt = open(os.path.join(ctx.rundir, "cases_%s_%d.out" % (tag, si))).read()
        m = re.search(r"=\s*(.*?)\s*:\s*list N", txt, re.S)
        if not m:
            logs.append("shard %d: unparsed %s" % (si, txt[:300]))
            continue
        results[si] = [int(x) for x in re.findall(r"(\d+)%N", m.group(1))] if "%N" in m.group(1) else \
            [int(x) for x in re.findall(r"\d+", m.group(1))]
    ctx.corr["cases"] += len(terms)
    ctx.corr["shards"] += len(shards)
    if logs or any(len(results.get(si, [])) != len(sh) for si, sh in enumerate(shards)):
        ctx.obligation(obligation, "correspondence", False, ("\n".join(logs) or "case count mismatch")[-900:])
        return None
    for si in range(len(shards)):
        codes += results[si]
    bad = [i for i, x in enumerate(codes) if x & 1]
    ctx.corr["disagreements"] += len(bad)
    ctx.obligation(obligation, "correspondence", not bad,
                   "%d/%d cases disagree" % (len(bad), len(terms)) if bad else "%d cases agree" % len(terms))
    return codes


def run(ctx):
    ctx.rule = ("composition programs over importable classes (float / tuple (arity 2..13) / nested-class (depth <= 3) / list-valued arguments; "
                "argument names with '_'), keyword arguments supplied or omitted (config-default priors), whole TuplePriors with members out of "
                "index order, collections from list/dict/kwargs/append/varargs/__setitem__/raw nested lists, array models (elements assigned out "
                "of index order; oracle only), shared priors, float and int constants, arithmetic priors (+ * / - neg abs, nested, in the Coq "
                "model; ** oracle only) also as tuple members, extra attributes, copies of components with a different fixed value, edit-after-freeze "
                "histories; priors created in an order unrelated to path order; one vector within limits, one unit vector and one dictionary of "
                "freely chosen paths per program phase. Non-trivial: >= 2 priors and at least one of shared prior, nesting, tuple, arithmetic, "
                "constant. Distinct = distinct (program, vector).")
    ctx.trusted = [
        "Coq 8.16.1 kernel incl. vm_compute; primitive floats",
        "harness abstraction of live objects (impl/vbuild.py raw __dict__ walk) and generator's expected tree (modelgen.py)",
        "arithmetic-prior attribute names are read from the live object (they come from caller frames); the harness asserts that they are "
        "exactly the public keys of the object and hold the operands",
        "the priors' value_for enters the model of the unit route as a table (vector_from_unit_vector); for uniform priors the oracle "
        "recomputes it",
    ]
    ctx.assumptions = ["dict keys of one model level are distinct (Python dict)", "vectors are within prior limits (gating is C03)"]
    built = ctx.build()
    n = 220 if ctx.tier == "quick" else 1500
    cases = gen_cases(ctx, n)
    corpus = os.path.join(common.VERIF, "corpus", "C01")
    if os.path.isdir(corpus):
        for f in sorted(os.listdir(corpus)):
            if f.endswith(".json"):
                cases.insert(0, json.load(open(os.path.join(corpus, f))))
    if ctx.replay:
        rp = json.load(open(ctx.replay))
        if rp.get("case"):
            cases = [rp["case"]]
    chunks = [cases[i::common.NCPU] for i in range(common.NCPU)]
    outs = common.run_impl_parallel("c01_impl", [{"cases": ch} for ch in chunks if ch], timeout=1200)
    results = [None] * len(cases)
    k = 0
    for ci, ch in enumerate([ch for ch in chunks if ch]):
        o = outs[k]
        k += 1
        if "__error__" in o:
            ctx.obligation("impl-driver", "harness", False, o["__error__"][-800:])
            return
        for j, r in enumerate(o["results"]):
            results[ci + j * common.NCPU] = r
    coq_cases, coq_idx = [], []
    coq_rcases, coq_ridx = [], []
    stats = {}
    failed_cases = set()
    _failure = ctx.failure

    def failure(kind, what, case, **kw):
        for j_, c_ in enumerate(cases):
            if c_ is case:
                failed_cases.add(j_)
        return _failure(kind, what, case, **kw)
    ctx.failure = failure
    for i, (c, r) in enumerate(zip(cases, results)):
        prog = c["program"]
        feats = set(prog["features"])
        nrefs = len(referenced(prog["root"]))
        nontrivial = nrefs >= 2 and bool(feats & {"shared", "nested", "tuple", "arith", "const", "edit-after-freeze"})
        ctx.count_case(c, nontrivial)
        for f in feats:
            ctx.hist("feature", f)
        cls = classes_of(c)
        for f in cls:
            if not f.startswith("feature:"):
                ctx.hist("structural-class", f)
        ctx.hist("priors", min(nrefs, 20))
        ctx.oracle["cases"] += 1
        if "exc" in r:
            ctx.oracle["failures"] += 1
            ctx.failure("oracle", "model composition raised %s: %s" % (r["exc"], r.get("msg", "")[-300:]), c, classes=cls)
            continue
        r = r["ok"]
        phases = [("initial", prog["root"], c["vec"], c["unit"], r)]
        if "edit" in c and "phase2" in r:
            root2 = apply_edit(prog["root"], c["edit"])
            phases.append(("re-frozen after edit", root2, c["vec2"], c["unit2"], r["phase2"]))
            phases.append(("unfrozen after edit", root2, c["vec2"], c["unit2"], r["phase3"]))
        for phase, root, vec_hex, unit_hex, ro in phases:
            refs = referenced(root)
            vmap = dict(zip(refs, [unhex(x) for x in vec_hex]))
            dz = has_division_by_zero(root, vmap)
            if dz:
                ctx.hist("instance-comparison-skipped", "division-by-zero")
            if not MG.same_tree(MG.expected_tree(root), ro["tree"]):
                ctx.oracle["failures"] += 1
                ctx.failure("correspondence", "[%s] the composition API built a different object graph than the program denotes" % phase,
                            c, classes=cls, impl=ro["tree"], broken={"kind": "correspondence", "name": "two-sided abstraction"})
                continue
            else:
                ctx.hist("two-sided-abstraction", "compared")
            msg = oracle(c, ro, root, vec_hex, unit_hex, stats, skip_inst=dz)
            if msg:
                ctx.oracle["failures"] += 1
                ctx.failure("oracle", "[%s] %s" % (phase, msg), c, classes=cls,
                            impl={k: ro.get(k) for k in ("paths", "upaths", "count", "ids", "inst", "pv", "inst_paths", "inst_paths_any", "vec_from_unit",
                                                        "inst_unit", "resolve", "acc")})
            if not MG.tree_ok_for_model(ro["tree"]):
                ctx.hist("coq-correspondence", "not sent: array / ** / Log / Log10 / reserved attribute name")
                if any_node(root, lambda e_: e_["t"] == "unary" and e_["op"] in ("log", "log10")):
                    ctx.hist("oracle-only forms", "af.Log / af.Log10 (value = numpy log of the operand's value)")
                if uses_pow(root):
                    ctx.hist("oracle-only forms", "**")
                continue
            for f_ in sorted(tree_features(ro["tree"])):
                ctx.hist("coq-correspondence:unary-features", f_)
            coq_rcases.append(coq_rcase(ro, vec_hex, root))
            coq_ridx.append((i, phase))
            ok_inst = "ok" in ro["inst"] and "ok" in ro["inst_paths_any"]
            if dz or not ok_inst:
                coq_cases.append(coq_case(ro, vec_hex, cmp_inst=False))
                coq_idx.append((i, phase))
                ctx.hist("coq-correspondence", "advertised order / count only (no instance)")
            else:
                # a zero divisor among the values the priors return for the unit vector: the code computes with numpy floats
                # there (inf / nan instead of ZeroDivisionError) -- outside the modelled domain, as in the oracle
                dzu = "ok" in ro["vec_from_unit"] and has_division_by_zero(
                    root, dict(zip(refs, [unhex(x) for x in ro["vec_from_unit"]["ok"]])))
                if dzu:
                    ctx.hist("coq-correspondence", "unit instance not compared (division by zero on the priors' values)")
                coq_cases.append(coq_case(ro, vec_hex, cmp_unit=not dzu))
                coq_idx.append((i, phase))
                ctx.hist("coq-correspondence", "full")
        if i % 40 == 0:
            ctx.sample({"program_root": prog["root"] if len(str(prog["root"])) < 600 else "(large)", "features": prog["features"],
                        "n_priors": nrefs, "paths": r["paths"][:6], "edit": c.get("edit")})
    for k_, v_ in sorted(stats.items()):
        ctx.distribution.setdefault("oracle-coverage", {})[k_] = v_
    if os.path.exists(os.path.join(common.COQ, "C01", "Model.vo")):
        hdr = ctx.header(["Common.PyFloat", "ModelTree", "Proofs3", "Proofs4", "Model"])
        codes = eval_codes(ctx, hdr, coq_cases)
        if codes is not None:
            # how many generated models satisfy the hypotheses of the route theorems -- measured, not required
            ctx.notes["route_theorem_hypotheses"] = {"models": len(codes), "satisfy_wfb": sum(1 for x in codes if not x & 2),
                                                     "satisfy_wfb2": sum(1 for x in codes if not x & 4)}
            bad = [j for j, x in enumerate(codes) if x & 1]
            failed_cases.update(coq_idx[b][0] for b in bad)
            for b in bad[:5]:
                i, phase = coq_idx[b]
                ctx.failure("correspondence", "[%s] Coq model and implementation disagree" % phase, cases[i],
                            classes=classes_of(cases[i]), impl=results[i]["ok"],
                            broken={"kind": "correspondence", "name": "C01.check_case"}, found_input=False)
        if os.path.exists(os.path.join(common.COQ, "C01", "Resolve.vo")):
            # second sweep: object_for_path at every advertised path / accessors of the built instance vs prior_at / lookup
            rcodes = eval_codes(ctx, ctx.header(["Common.PyFloat", "ModelTree", "Model", "Resolve"]), coq_rcases, typ="rcase",
                                fn="(fun c => (if check_rcase c then 0 else 1)%N)", tag="C01r", obligation="correspondence:path-resolution")
            for b in [j for j, x in enumerate(rcodes or []) if x & 1][:5]:
                i, phase = coq_ridx[b]
                failed_cases.add(i)
                ctx.failure("correspondence", "[%s] Coq model and implementation disagree on what a path resolves to (object_for_path / "
                            "instance accessors vs prior_at / lookup)" % phase, cases[i], classes=classes_of(cases[i]), impl=results[i]["ok"],
                            broken={"kind": "correspondence", "name": "C01.check_rcase"}, found_input=False)
        else:
            ctx.obligation("correspondence:path-resolution", "correspondence", False, "Resolve.vo not built")
    else:
        ctx.obligation("correspondence:cases", "correspondence", False, "Model.vo not built")
    ctx.failure = _failure
    # regression guard: the pinned cases of repaired defects (corpus/C01, key "pinned") must pass oracle and correspondence
    pinned = [(j_, c_["pinned"]) for j_, c_ in enumerate(cases) if c_.get("pinned")]
    if pinned and not ctx.replay:
        sent = {i_ for i_, _ in coq_idx}
        broken = [name for j_, name in pinned if j_ in failed_cases or j_ not in sent]
        ctx.obligation("regression:repaired-defects", "oracle", not broken,
                       "regressed or not compared: %s" % broken if broken else "%d pinned cases of repaired defects pass (%s)" % (
                           len(pinned), ", ".join(n_ for _, n_ in pinned)))
    if os.environ.get("VERIF_C01_DUMP"):      # debugging aid: every violation / known hit of this run, summarised
        json.dump({"violations": [{"kind": v["kind"], "what": v["what"], "classes": v["classes"], "case": v["case"]} for v in ctx.violations],
                   "known": {k: h["count"] for k, h in ctx.known_hits.items()}, "distribution": ctx.distribution, "notes": ctx.notes},
                  open(os.environ["VERIF_C01_DUMP"], "w"), default=str)
