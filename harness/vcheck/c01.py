"""C01 -- parameter vector <-> model instance correspondence (DESIGN.md section 5, C01)."""
import json
import os
from . import common
from . import modelgen as MG
from .common import cfloat, cnat, clist

MANIFEST = {
    "text": "Coq 8.16 theorems over a tree model of composed models (walk, id-ordered unique priors, instance construction for "
            "Model/Collection/tuple/arithmetic nodes): parameter count = number of distinct priors, advertised order strictly "
            "increasing in id, the i-th vector entry is placed at every structural path of the i-th parameter, constants untouched, "
            "derived and tuple values computed from the same assignment, vector and path routes agree; tied to the code by a "
            "bit-exact vm_compute correspondence on generated composition programs (two-sided abstraction) and a direct property oracle",
    "note": "Trusted: Coq kernel + vm_compute; the harness's raw __dict__ abstraction of live model objects and instances; the "
            "composition API itself is compared with the generator's expected tree. Not modelled: AnnotationPriorModel, deferred "
            "arguments, Array models (oracle only), jax pytrees; attribute names of arithmetic priors are read from the live object.",
    "technique": "machine-checked proof in Coq (hand-written tree model) + vm_compute correspondence",
}


def unhex(s):
    return float(s) if s in ("nan", "inf", "-inf") else float.fromhex(s)


def vec_inside(rng, pool, mode="inside"):
    vec = []
    for s in pool:
        lo, hi = unhex(s["lo"]), unhex(s["hi"])
        r = rng.random()
        if r < 0.1:
            v = lo
        elif r < 0.2:
            v = hi
        elif r < 0.6:
            v = lo + (hi - lo) * rng.randint(0, 16) / 16.0
        else:
            v = rng.uniform(lo, hi)
        vec.append(v)
    return vec


def referenced(e, acc=None):
    """Pool indices of the priors a program's tree refers to."""
    acc = set() if acc is None else acc
    t = e["t"]
    if t == "prior":
        acc.add(e["ref"])
    elif t == "arith":
        referenced(e["l"], acc)
        referenced(e["r"], acc)
    elif t == "tuple":
        for m in e["members"]:
            referenced(m, acc)
    elif t == "model":
        for v in e["kw"].values():
            referenced(v, acc)
        for _, v in e.get("extra", []):
            referenced(v, acc)
    elif t == "coll":
        for _, v in MG.resolve_copies(e)["items"]:
            referenced(v, acc)
    elif t == "array":
        for m in e["elems"]:
            referenced(m, acc)
    return sorted(acc)


def model_sites(e, path=()):
    """(path to a Model node, node) for every Model reachable through Model/Collection attributes."""
    out = []
    if e["t"] == "model":
        out.append((list(path), e))
        for arg, kind, extra in MG.SIGNATURES[e["cls"]]:
            if kind == "class":
                out += model_sites(e["kw"][arg], path + (arg,))
    elif e["t"] == "coll":
        if any(sub["t"] == "copy" for _, sub in e["items"]):
            return out          # no edits inside collections holding copies (keeps the edit semantics simple)
        for k, sub in e["items"]:
            out += model_sites(sub, path + (k,))
    return out


def apply_edit(root, edit):
    import copy
    new = copy.deepcopy(root)
    node = new
    for k in edit["path"]:
        if node["t"] == "model":
            node = node["kw"][k]
        else:
            node = [sub for kk, sub in node["items"] if kk == k][0]
    arg = edit["arg"]
    if "_" in arg and arg.rsplit("_", 1)[0] in node["kw"] and node["kw"][arg.rsplit("_", 1)[0]]["t"] == "tuple":
        node["kw"][arg.rsplit("_", 1)[0]]["members"][int(arg.rsplit("_", 1)[1])] = edit["new"]
    else:
        node["kw"][arg] = edit["new"]
    return new


def vec_for(rng, pool, refs):
    full = vec_inside(rng, pool)
    return [full[i] for i in refs]


def gen_cases(ctx, n):
    rng = ctx.rng
    cases = []
    for i in range(n):
        g = MG.Gen(rng, max_depth=2 if ctx.tier == "quick" else 4, big_tuples=True, arrays=True,
                   families=("uniform", "uniform", "uniform", "gaussian", "loguniform"))
        prog = g.program()
        if len(prog["pool"]) > 40:
            continue
        c = {"program": prog}
        sites = model_sites(prog["root"])
        if sites and rng.random() < 0.45:
            # an edit applied after a freeze / query / unfreeze cycle; may introduce a prior created
            # up front but unused so far (appended to the pool)
            path, node = rng.choice(sites)
            choices = []
            for arg, kind, extra in MG.SIGNATURES[node["cls"]]:
                if kind == "float":
                    choices.append(arg)
                elif kind == "tuple":
                    choices += ["%s_%d" % (arg, j) for j in range(extra)]
            if choices:
                arg = rng.choice(choices)
                r = rng.random()
                if r < 0.45:
                    new = {"t": "const", "v": (rng.randint(-8, 8) / 4.0).hex()}
                elif r < 0.75 and prog["pool"]:
                    new = {"t": "prior", "ref": rng.randrange(len(prog["pool"]))}
                else:
                    prog["pool"].append({"family": "uniform", "lo": (-1.0).hex(), "hi": (3.0).hex()})
                    new = {"t": "prior", "ref": len(prog["pool"]) - 1}
                c["edit"] = {"path": path, "arg": arg, "new": new}
                prog["features"] = sorted(set(prog["features"]) | {"edit-after-freeze"})
        refs = referenced(prog["root"])
        c["vec"] = [v.hex() for v in vec_for(rng, prog["pool"], refs)]
        c["unit"] = [rng.choice([0.0, 0.25, 0.5, 1.0, rng.random()]).hex() for _ in refs]
        if "edit" in c:
            root2 = apply_edit(prog["root"], c["edit"])
            refs2 = referenced(root2)
            c["vec2"] = [v.hex() for v in vec_for(rng, prog["pool"], refs2)]
            c["unit2"] = [rng.choice([0.0, 0.25, 0.5, 1.0, rng.random()]).hex() for _ in refs2]
        cases.append(c)
    return cases


def apply_op(op, a, b):
    if op == "+":
        return a + b
    if op == "*":
        return a * b
    if op == "/":
        return a / b
    raise ValueError(op)


def expected_instance(e, vec):
    """The property statement, computed directly from the program (independent of the Coq model)."""
    t = e["t"]
    if t == "prior":
        return {"t": "v", "v": float(vec[e["ref"]]).hex()}
    if t == "const":
        return {"t": "v", "v": unhex(e["v"]).hex()}
    if t == "arith":
        a = unhex(expected_instance(e["l"], vec)["v"])
        b = unhex(expected_instance(e["r"], vec)["v"])
        return {"t": "v", "v": apply_op(e["op"], a, b).hex()}
    if t == "tuple":
        return {"t": "tup", "vs": [expected_instance(m, vec) for m in e["members"]]}
    if t == "model":
        fields = [[arg, expected_instance(e["kw"][arg], vec)] for arg, _, _ in MG.SIGNATURES[e["cls"]]]
        fields += [[k, expected_instance(sub, vec)] for k, sub in e.get("extra", [])]
        return {"t": "obj", "cls": e["cls"], "fields": fields}
    if t == "coll":
        return {"t": "coll", "fields": [[k, expected_instance(sub, vec)] for k, sub in MG.resolve_copies(e)["items"]]}
    if t == "array":
        return {"t": "arr", "shape": e["shape"], "vs": [expected_instance(m, vec)["v"] for m in e["elems"]]}
    raise ValueError(t)


def same_inst(a, b):
    if a["t"] != b["t"]:
        return False
    if a["t"] == "v":
        x, y = unhex(a["v"]), unhex(b["v"])
        return x == y or (x != x and y != y)
    if a["t"] == "tup":
        return len(a["vs"]) == len(b["vs"]) and all(same_inst(x, y) for x, y in zip(a["vs"], b["vs"]))
    if a["t"] == "arr":
        return a["shape"] == b["shape"] and [unhex(x) for x in a["vs"]] == [unhex(x) for x in b["vs"]]
    if a["t"] in ("obj", "coll"):
        if a.get("cls") != b.get("cls") or len(a["fields"]) != len(b["fields"]):
            return False
        return all(x[0] == y[0] and same_inst(x[1], y[1]) for x, y in zip(a["fields"], b["fields"]))
    return False


def navigate(inst, path):
    """Value at an advertised path of an instance; tuple members by index; None if not addressable."""
    cur = inst
    for i, k in enumerate(path):
        if cur["t"] in ("obj", "coll"):
            nxt = [v for n, v in cur["fields"] if n == k]
            if not nxt:
                return None
            cur = nxt[0]
        elif cur["t"] == "arr":
            keys = MG.array_keys(cur["shape"])
            if k not in keys:
                return None
            cur = {"t": "v", "v": cur["vs"][keys.index(k)]}
        elif cur["t"] == "tup":
            idx = MG.member_index(k)
            if idx >= len(cur["vs"]):
                return None
            cur = cur["vs"][idx]
        else:
            return None
    return cur


def has_division_by_zero(e, vec):
    t = e["t"]
    if t == "arith":
        if has_division_by_zero(e["l"], vec) or has_division_by_zero(e["r"], vec):
            return True
        if e["op"] == "/":
            try:
                return unhex(expected_instance(e["r"], vec)["v"]) == 0.0
            except ZeroDivisionError:
                return True
        return False
    if t == "tuple":
        return any(has_division_by_zero(m, vec) for m in e["members"])
    if t == "model":
        return any(has_division_by_zero(v, vec) for v in e["kw"].values()) or any(has_division_by_zero(v, vec) for _, v in e.get("extra", []))
    if t == "coll":
        return any(has_division_by_zero(v, vec) for _, v in MG.resolve_copies(e)["items"])
    return False


def oracle(c, r, root=None, vec_hex=None):
    prog = c["program"]
    root = prog["root"] if root is None else root
    refs = referenced(root)
    n = len(refs)
    vlist = [unhex(x) for x in (c["vec"] if vec_hex is None else vec_hex)]
    vec = dict(zip(refs, vlist))
    if not r["id_order_ok"]:
        return "harness: pool ids not increasing"
    if r["count"] != n:
        return "prior_count %d but %d distinct free parameters" % (r["count"], n)
    if r["ids"] != refs:
        return "priors_ordered_by_id is not creation order: %s" % r["ids"]
    if len(r["upaths"]) != n:
        return "unique_prior_paths has %d entries for %d parameters" % (len(r["upaths"]), n)
    if not r["paths_resolve"]:
        return "an advertised path does not resolve to its prior"
    if "exc" in r["inst"]:
        return "instance_from_vector raised %s for a vector within limits" % r["inst"]["exc"]
    inst = r["inst"]["ok"]
    exp = expected_instance(root, vec)
    # i-th value at the i-th advertised path
    for i, p in enumerate(r["upaths"]):
        got = navigate(inst, p)
        if got is not None and got["t"] == "v" and unhex(got["v"]) != vlist[i]:
            return "value %d (%r) is not at advertised path %s (found %r)" % (i, vlist[i], ".".join(p), unhex(got["v"]))
    if not same_inst(exp, inst):
        return "instance_from_vector differs from the instance the composition denotes"
    for name in ("inst_paths",):
        if "exc" in r[name]:
            return "%s raised %s" % (name, r[name]["exc"])
        if not same_inst(inst, r[name]["ok"]):
            return "instance_from_path_arguments differs from instance_from_vector"
    if "ok" in r["inst_unit"] and "ok" in r.get("inst_vec_of_unit", {}):
        if not same_inst(r["inst_unit"]["ok"], r["inst_vec_of_unit"]["ok"]):
            return "instance_from_unit_vector differs from instance_from_vector(vector_from_unit_vector)"
    elif "exc" in r["inst_unit"] and "ok" in r.get("inst_vec_of_unit", {}):
        return "instance_from_unit_vector raised %s but the physical route succeeds" % r["inst_unit"]["exc"]
    return None


def coq_case(c, r, vec_hex=None):
    tree = r["tree"]
    return ("{| c_tree := %s; c_vec := %s; c_paths := %s; c_upaths := %s; c_count := %s; c_ids := %s; "
            "c_inst := %s; c_inst_paths := %s |}") % (
        MG.coq_node(tree), clist([cfloat(unhex(x)) for x in (c["vec"] if vec_hex is None else vec_hex)]),
        clist([MG.coq_path(p) for p in r["paths"]]), clist([MG.coq_path(p) for p in r["upaths"]]),
        cnat(r["count"]), clist([cnat(x) for x in r["ids"]]),
        MG.coq_ival(r["inst"]["ok"]), MG.coq_ival(r["inst_paths"]["ok"]))


def classes_of(c):
    return ["feature:" + f for f in c["program"]["features"]]


def run(ctx):
    ctx.rule = ("composition programs over importable classes (float / tuple (arity 2..13) / nested-class arguments), collections from "
                "list/dict/kwargs/append, array models (elements assigned out of index order; oracle only), shared priors, constants, arithmetic priors, extra attributes, copies of components with a different fixed value, edit-after-freeze histories; priors created in an order "
                "unrelated to path order; one vector within limits and one unit vector per program. Non-trivial: >= 2 priors and at "
                "least one of shared prior, nesting, tuple, arithmetic, constant. Distinct = distinct (program, vector).")
    ctx.trusted = [
        "Coq 8.16.1 kernel incl. vm_compute; primitive floats",
        "harness abstraction of live objects (impl/vbuild.py raw __dict__ walk) and generator's expected tree (modelgen.py)",
        "arithmetic-prior attribute names are read from the live object (they come from caller frames)",
    ]
    ctx.assumptions = ["dict keys of one model level are distinct (Python dict)", "vectors are within prior limits (gating is C03)"]
    built = ctx.build()
    n = 220 if ctx.tier == "quick" else 1500
    cases = gen_cases(ctx, n)
    corpus = os.path.join(common.VERIF, "corpus", "C01")
    if os.path.isdir(corpus):
        for f in sorted(os.listdir(corpus)):
            if f.endswith(".json"):
                cases.insert(0, json.load(open(os.path.join(corpus, f))))
    if ctx.replay:
        rp = json.load(open(ctx.replay))
        if rp.get("case"):
            cases = [rp["case"]]
    chunks = [cases[i::common.NCPU] for i in range(common.NCPU)]
    outs = common.run_impl_parallel("c01_impl", [{"cases": ch} for ch in chunks if ch], timeout=1200)
    results = [None] * len(cases)
    k = 0
    for ci, ch in enumerate([ch for ch in chunks if ch]):
        o = outs[k]
        k += 1
        if "__error__" in o:
            ctx.obligation("impl-driver", "harness", False, o["__error__"][-800:])
            return
        for j, r in enumerate(o["results"]):
            results[ci + j * common.NCPU] = r
    coq_cases, coq_idx = [], []
    for i, (c, r) in enumerate(zip(cases, results)):
        prog = c["program"]
        feats = set(prog["features"])
        nrefs = len(referenced(prog["root"]))
        nontrivial = nrefs >= 2 and bool(feats & {"shared", "nested", "tuple", "arith", "const", "edit-after-freeze"})
        ctx.count_case(c, nontrivial)
        for f in feats:
            ctx.hist("feature", f)
        ctx.hist("priors", min(nrefs, 20))
        ctx.oracle["cases"] += 1
        if "exc" in r:
            ctx.oracle["failures"] += 1
            ctx.failure("oracle", "model composition raised %s: %s" % (r["exc"], r.get("msg", "")[-300:]), c, classes=classes_of(c))
            continue
        r = r["ok"]
        phases = [("initial", prog["root"], c["vec"], r)]
        if "edit" in c and "phase2" in r:
            root2 = apply_edit(prog["root"], c["edit"])
            phases.append(("re-frozen after edit", root2, c["vec2"], r["phase2"]))
            phases.append(("unfrozen after edit", root2, c["vec2"], r["phase3"]))
        for phase, root, vec_hex, ro in phases:
            refs = referenced(root)
            vmap = dict(zip(refs, [unhex(x) for x in vec_hex]))
            if has_division_by_zero(root, vmap):
                ctx.hist("skipped", "division-by-zero")
                continue
            if not MG.same_tree(MG.expected_tree(root), ro["tree"]):
                ctx.oracle["failures"] += 1
                ctx.failure("correspondence", "[%s] the composition API built a different object graph than the program denotes" % phase,
                            c, classes=classes_of(c), impl=ro["tree"], broken={"kind": "correspondence", "name": "two-sided abstraction"})
                continue
            msg = oracle(c, ro, root, vec_hex)
            if msg:
                ctx.oracle["failures"] += 1
                ctx.failure("oracle", "[%s] %s" % (phase, msg), c, classes=classes_of(c),
                            impl={k: ro[k] for k in ("paths", "upaths", "count", "ids", "inst")})
            if "ok" in ro["inst"] and "ok" in ro["inst_paths"] and MG.tree_ok_for_model(ro["tree"]):
                coq_cases.append(coq_case(c, ro, vec_hex))
                coq_idx.append((i, phase))
        if i % 40 == 0:
            ctx.sample({"program_root": prog["root"] if len(str(prog["root"])) < 600 else "(large)", "features": prog["features"],
                        "n_priors": nrefs, "paths": r["paths"][:6], "edit": c.get("edit")})
    if os.path.exists(os.path.join(common.COQ, "C01", "Model.vo")):
        hdr = ctx.header(["Common.PyFloat", "ModelTree", "Model"])
        bad, log = ctx.eval_cases(hdr, "case", "check_case", coq_cases, shard=40)
        # how many generated models satisfy the hypothesis (wfb) of the route theorem -- measured, not required
        hdr2 = ctx.header(["Common.PyFloat", "ModelTree", "Proofs3", "Model"])
        notwf, log2 = common.coq_eval_cases("C01", hdr2, "case", "(fun c => wfb float (c_tree c))", coq_cases, ctx.rundir, tag="wf", shard=40)
        if notwf is not None:
            ctx.notes["route_theorem_hypothesis_wfb"] = {"models": len(coq_cases), "satisfy_wfb": len(coq_cases) - len(notwf)}
        for b in (bad or [])[:5]:
            i, phase = coq_idx[b]
            ctx.failure("correspondence", "[%s] Coq model and implementation disagree" % phase, cases[i],
                        classes=classes_of(cases[i]), impl=results[i]["ok"],
                        broken={"kind": "correspondence", "name": "C01.check_case"}, found_input=False)
    else:
        ctx.obligation("correspondence:cases", "correspondence", False, "Model.vo not built")
