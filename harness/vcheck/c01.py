"""C01 -- parameter vector <-> model instance correspondence (DESIGN.md section 5, C01)."""
import json
import os
from . import common
from . import modelgen as MG
from .common import cfloat, cnat, clist

MANIFEST = {
    "text": "Coq 8.16 theorems over a tree model of composed models (walk, id-ordered unique priors, instance construction for "
            "Model/Collection/tuple/arithmetic nodes): parameter count = number of distinct priors, advertised order strictly "
            "increasing in id, the i-th vector entry is placed at every structural path of the i-th parameter, constants untouched, "
            "derived and tuple values computed from the same assignment, vector and path routes agree; tied to the code by a "
            "bit-exact vm_compute correspondence on generated composition programs (two-sided abstraction) and a direct property oracle",
    "note": "Trusted: Coq kernel + vm_compute; the harness's raw __dict__ abstraction of live model objects and instances; the "
            "composition API itself is compared with the generator's expected tree. Not modelled: AnnotationPriorModel, deferred "
            "arguments, Array models (oracle only), jax pytrees; attribute names of arithmetic priors are read from the live object.",
    "technique": "machine-checked proof in Coq (hand-written tree model) + vm_compute correspondence",
}


def unhex(s):
    return float(s) if s in ("nan", "inf", "-inf") else float.fromhex(s)


def vec_inside(rng, pool, mode="inside"):
    vec = []
    for s in pool:
        lo, hi = unhex(s["lo"]), unhex(s["hi"])
        r = rng.random()
        if r < 0.1:
            v = lo
        elif r < 0.2:
            v = hi
        elif r < 0.6:
            v = lo + (hi - lo) * rng.randint(0, 16) / 16.0
        else:
            v = rng.uniform(lo, hi)
        vec.append(v)
    return vec


def gen_cases(ctx, n):
    cases = []
    for i in range(n):
        g = MG.Gen(ctx.rng, max_depth=2 if ctx.tier == "quick" else 4, big_tuples=True)
        prog = g.program()
        if len(prog["pool"]) > 40:
            continue
        vec = vec_inside(ctx.rng, prog["pool"])
        unit = [ctx.rng.choice([0.0, 0.25, 0.5, 1.0, ctx.rng.random()]) for _ in prog["pool"]]
        cases.append({"program": prog, "vec": [v.hex() for v in vec], "unit": [u.hex() for u in unit]})
    return cases


def apply_op(op, a, b):
    if op == "+":
        return a + b
    if op == "*":
        return a * b
    if op == "/":
        return a / b
    raise ValueError(op)


def expected_instance(e, vec):
    """The property statement, computed directly from the program (independent of the Coq model)."""
    t = e["t"]
    if t == "prior":
        return {"t": "v", "v": vec[e["ref"]].hex()}
    if t == "const":
        return {"t": "v", "v": unhex(e["v"]).hex()}
    if t == "arith":
        a = unhex(expected_instance(e["l"], vec)["v"])
        b = unhex(expected_instance(e["r"], vec)["v"])
        return {"t": "v", "v": apply_op(e["op"], a, b).hex()}
    if t == "tuple":
        return {"t": "tup", "vs": [expected_instance(m, vec) for m in e["members"]]}
    if t == "model":
        fields = [[arg, expected_instance(e["kw"][arg], vec)] for arg, _, _ in MG.SIGNATURES[e["cls"]]]
        fields += [[k, expected_instance(sub, vec)] for k, sub in e.get("extra", [])]
        return {"t": "obj", "cls": e["cls"], "fields": fields}
    if t == "coll":
        return {"t": "coll", "fields": [[k, expected_instance(sub, vec)] for k, sub in e["items"]]}
    raise ValueError(t)


def same_inst(a, b):
    if a["t"] != b["t"]:
        return False
    if a["t"] == "v":
        x, y = unhex(a["v"]), unhex(b["v"])
        return x == y or (x != x and y != y)
    if a["t"] == "tup":
        return len(a["vs"]) == len(b["vs"]) and all(same_inst(x, y) for x, y in zip(a["vs"], b["vs"]))
    if a["t"] in ("obj", "coll"):
        if a.get("cls") != b.get("cls") or len(a["fields"]) != len(b["fields"]):
            return False
        return all(x[0] == y[0] and same_inst(x[1], y[1]) for x, y in zip(a["fields"], b["fields"]))
    return False


def navigate(inst, path):
    """Value at an advertised path of an instance; tuple members by index; None if not addressable."""
    cur = inst
    for i, k in enumerate(path):
        if cur["t"] in ("obj", "coll"):
            nxt = [v for n, v in cur["fields"] if n == k]
            if not nxt:
                return None
            cur = nxt[0]
        elif cur["t"] == "tup":
            idx = MG.member_index(k)
            if idx >= len(cur["vs"]):
                return None
            cur = cur["vs"][idx]
        else:
            return None
    return cur


def has_division_by_zero(e, vec):
    t = e["t"]
    if t == "arith":
        if has_division_by_zero(e["l"], vec) or has_division_by_zero(e["r"], vec):
            return True
        if e["op"] == "/":
            try:
                return unhex(expected_instance(e["r"], vec)["v"]) == 0.0
            except ZeroDivisionError:
                return True
        return False
    if t == "tuple":
        return any(has_division_by_zero(m, vec) for m in e["members"])
    if t == "model":
        return any(has_division_by_zero(v, vec) for v in e["kw"].values()) or any(has_division_by_zero(v, vec) for _, v in e.get("extra", []))
    if t == "coll":
        return any(has_division_by_zero(v, vec) for _, v in e["items"])
    return False


def oracle(c, r):
    prog = c["program"]
    n = len(prog["pool"])
    vec = [unhex(x) for x in c["vec"]]
    if not r["id_order_ok"]:
        return "harness: pool ids not increasing"
    if r["count"] != n:
        return "prior_count %d but %d distinct free parameters" % (r["count"], n)
    if r["ids"] != list(range(n)):
        return "priors_ordered_by_id is not creation order: %s" % r["ids"]
    if len(r["upaths"]) != n:
        return "unique_prior_paths has %d entries for %d parameters" % (len(r["upaths"]), n)
    if not r["paths_resolve"]:
        return "an advertised path does not resolve to its prior"
    if "exc" in r["inst"]:
        return "instance_from_vector raised %s for a vector within limits" % r["inst"]["exc"]
    inst = r["inst"]["ok"]
    exp = expected_instance(prog["root"], vec)
    # i-th value at the i-th advertised path
    for i, p in enumerate(r["upaths"]):
        got = navigate(inst, p)
        if got is not None and got["t"] == "v" and unhex(got["v"]) != vec[i]:
            return "value %d (%r) is not at advertised path %s (found %r)" % (i, vec[i], ".".join(p), unhex(got["v"]))
    if not same_inst(exp, inst):
        return "instance_from_vector differs from the instance the composition denotes"
    for name in ("inst_paths",):
        if "exc" in r[name]:
            return "%s raised %s" % (name, r[name]["exc"])
        if not same_inst(inst, r[name]["ok"]):
            return "instance_from_path_arguments differs from instance_from_vector"
    if "ok" in r["inst_unit"] and "ok" in r.get("inst_vec_of_unit", {}):
        if not same_inst(r["inst_unit"]["ok"], r["inst_vec_of_unit"]["ok"]):
            return "instance_from_unit_vector differs from instance_from_vector(vector_from_unit_vector)"
    elif "exc" in r["inst_unit"] and "ok" in r.get("inst_vec_of_unit", {}):
        return "instance_from_unit_vector raised %s but the physical route succeeds" % r["inst_unit"]["exc"]
    return None


def coq_case(c, r):
    tree = r["tree"]
    return ("{| c_tree := %s; c_vec := %s; c_paths := %s; c_upaths := %s; c_count := %s; c_ids := %s; "
            "c_inst := %s; c_inst_paths := %s |}") % (
        MG.coq_node(tree), clist([cfloat(unhex(x)) for x in c["vec"]]),
        clist([MG.coq_path(p) for p in r["paths"]]), clist([MG.coq_path(p) for p in r["upaths"]]),
        cnat(r["count"]), clist([cnat(x) for x in r["ids"]]),
        MG.coq_ival(r["inst"]["ok"]), MG.coq_ival(r["inst_paths"]["ok"]))


def classes_of(c):
    return ["feature:" + f for f in c["program"]["features"]]


def run(ctx):
    ctx.rule = ("composition programs over importable classes (float / tuple (arity 2..13) / nested-class arguments), collections from "
                "list/dict/kwargs/append, shared priors, constants, arithmetic priors, extra attributes; priors created in an order "
                "unrelated to path order; one vector within limits and one unit vector per program. Non-trivial: >= 2 priors and at "
                "least one of shared prior, nesting, tuple, arithmetic, constant. Distinct = distinct (program, vector).")
    ctx.trusted = [
        "Coq 8.16.1 kernel incl. vm_compute; primitive floats",
        "harness abstraction of live objects (impl/vbuild.py raw __dict__ walk) and generator's expected tree (modelgen.py)",
        "arithmetic-prior attribute names are read from the live object (they come from caller frames)",
    ]
    ctx.assumptions = ["dict keys of one model level are distinct (Python dict)", "vectors are within prior limits (gating is C03)"]
    built = ctx.build()
    n = 220 if ctx.tier == "quick" else 1500
    cases = gen_cases(ctx, n)
    corpus = os.path.join(common.VERIF, "corpus", "C01")
    if os.path.isdir(corpus):
        for f in sorted(os.listdir(corpus)):
            if f.endswith(".json"):
                cases.insert(0, json.load(open(os.path.join(corpus, f))))
    if ctx.replay:
        rp = json.load(open(ctx.replay))
        if rp.get("case"):
            cases = [rp["case"]]
    chunks = [cases[i::common.NCPU] for i in range(common.NCPU)]
    outs = common.run_impl_parallel("c01_impl", [{"cases": ch} for ch in chunks if ch], timeout=1200)
    results = [None] * len(cases)
    k = 0
    for ci, ch in enumerate([ch for ch in chunks if ch]):
        o = outs[k]
        k += 1
        if "__error__" in o:
            ctx.obligation("impl-driver", "harness", False, o["__error__"][-800:])
            return
        for j, r in enumerate(o["results"]):
            results[ci + j * common.NCPU] = r
    coq_cases, coq_idx = [], []
    for i, (c, r) in enumerate(zip(cases, results)):
        prog = c["program"]
        feats = set(prog["features"])
        nontrivial = len(prog["pool"]) >= 2 and bool(feats & {"shared", "nested", "tuple", "arith", "const"})
        ctx.count_case(c, nontrivial)
        for f in feats:
            ctx.hist("feature", f)
        ctx.hist("priors", min(len(prog["pool"]), 20))
        ctx.oracle["cases"] += 1
        if "exc" in r:
            ctx.oracle["failures"] += 1
            ctx.failure("oracle", "model composition raised %s: %s" % (r["exc"], r.get("msg", "")[-300:]), c, classes=classes_of(c))
            continue
        r = r["ok"]
        vec = [unhex(x) for x in c["vec"]]
        if has_division_by_zero(prog["root"], vec):
            ctx.hist("skipped", "division-by-zero")
            continue
        if not MG.same_tree(MG.expected_tree(prog["root"]), r["tree"]):
            ctx.oracle["failures"] += 1
            ctx.failure("correspondence", "the composition API built a different object graph than the program denotes",
                        c, classes=classes_of(c), impl=r["tree"], broken={"kind": "correspondence", "name": "two-sided abstraction"})
            continue
        msg = oracle(c, r)
        if msg:
            ctx.oracle["failures"] += 1
            ctx.failure("oracle", msg, c, classes=classes_of(c), impl={k: r[k] for k in ("paths", "upaths", "count", "ids", "inst")})
        if "ok" in r["inst"] and "ok" in r["inst_paths"] and MG.tree_ok_for_model(r["tree"]):
            coq_cases.append(coq_case(c, r))
            coq_idx.append(i)
        if i % 40 == 0:
            ctx.sample({"program_root": prog["root"] if len(str(prog["root"])) < 600 else "(large)", "features": prog["features"],
                        "n_priors": len(prog["pool"]), "paths": r["paths"][:6]})
    if os.path.exists(os.path.join(common.COQ, "C01", "Model.vo")):
        hdr = ctx.header(["Common.PyFloat", "ModelTree", "Model"])
        bad, log = ctx.eval_cases(hdr, "case", "check_case", coq_cases, shard=40)
        for b in (bad or [])[:5]:
            i = coq_idx[b]
            o = oracle(cases[i], results[i]["ok"])
            ctx.failure("correspondence", "Coq model and implementation disagree" + (": " + o if o else ""), cases[i],
                        classes=classes_of(cases[i]), impl=results[i]["ok"],
                        broken={"kind": "correspondence", "name": "C01.check_case"}, found_input=o is not None)
    else:
        ctx.obligation("correspondence:cases", "correspondence", False, "Model.vo not built")
