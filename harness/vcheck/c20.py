"""C20 -- interpolation reproduces known points and linear trends (DESIGN.md section 5, C20)."""
import ast
import json
import math
import os
import re
from fractions import Fraction

from . import common
from . import pyexpr2coq as T
from .common import cfloat, cZ, cnat, clist, cstr, cQ

ABSTRACT = "autofit/interpolator/abstract.py"
LINEAR = "autofit/interpolator/linear.py"

# ---------------------------------------------------------------------------
# translator: regenerates coq/C20/Gen.v from /repo (fail closed)
# ---------------------------------------------------------------------------
SPEC_LI = T.Spec(
    "li_eval", LINEAR, "LinearInterpolator._interpolate", lambda f: T.returns(f)[-1],
    [("slope", "float"), ("value", "float"), ("intercept", "float")], "float",
    doc="the linear interpolant evaluated at the requested value")


def final_step(repo):
    """Statement form of the last step of AbstractInterpolator.__getitem__: is the result of
    `new_instance.replacing_for_path(tuple(item.path.keys), item.value)` kept (assigned to the
    returned name / returned) or discarded (bare expression statement)?
    Returns (kept: bool, source text, line); raises TranslationError on any other form."""
    tree, src = T.parse_file(repo, ABSTRACT)
    fn = T.find_function(tree, "AbstractInterpolator.__getitem__")
    par = {}
    for n in ast.walk(fn):
        for ch in ast.iter_child_nodes(n):
            par[ch] = n
    hits = []
    for n in ast.walk(fn):
        if not (isinstance(n, ast.Call) and isinstance(n.func, ast.Attribute) and n.func.attr == "replacing_for_path"):
            continue
        if len(n.args) != 2 or n.keywords:
            continue
        if "item.path.keys" in ast.unparse(n.args[0]) and ast.unparse(n.args[1]) == "item.value":
            hits.append(n)
    if len(hits) != 1:
        raise T.TranslationError(
            "__getitem__: expected exactly one replacing_for_path(<item.path.keys>, item.value) call, found %d" % len(hits))
    stmt = par[hits[0]]
    text = " ".join(ast.get_source_segment(src, stmt).split())
    # the statement must be executed unconditionally, once, after the loop over the float paths:
    # a direct child of the function body, located after the try statement that contains the for loop
    if stmt not in fn.body:
        raise T.TranslationError("__getitem__: the final replacement is nested inside another statement: %s" % text)
    tries = [n for n in fn.body if isinstance(n, ast.Try) and any(isinstance(m, ast.For) for m in ast.walk(n))]
    if len(tries) != 1 or fn.body.index(stmt) < fn.body.index(tries[0]):
        raise T.TranslationError("__getitem__: the final replacement does not follow the try/for that interpolates the leaves")
    between = fn.body[fn.body.index(stmt) + 1:]
    if any(not isinstance(n, ast.Return) for n in between):
        raise T.TranslationError("__getitem__: statements other than `return` follow the final replacement")
    rets = T.returns(fn)
    last_ret = rets[-1] if rets else None
    if isinstance(stmt, ast.Expr):
        return False, text, stmt.lineno
    if isinstance(stmt, ast.Return):
        return True, text, stmt.lineno
    if isinstance(stmt, ast.Assign) and len(stmt.targets) == 1 and isinstance(stmt.targets[0], ast.Name):
        name = stmt.targets[0].id
        if last_ret is not None and isinstance(last_ret.value, ast.Name) and last_ret.value.id == name \
                and last_ret.lineno > stmt.lineno:
            return True, text, stmt.lineno
        raise T.TranslationError("__getitem__: the final replacement is assigned to %r, which is not what is returned" % name)
    raise T.TranslationError("__getitem__: unsupported statement form around the final replacement: %s" % text)


SPLINE = "autofit/interpolator/spline.py"


def spline_return(repo):
    """Does SplineInterpolator._interpolate return a Python float (`float(f(value))` / `f(value).item()`) or the
    0-d array that calling a scipy spline yields (`f(value)`)?  Returns (is_float, source text, line)."""
    tree, src = T.parse_file(repo, SPLINE)
    fn = T.find_function(tree, "SplineInterpolator._interpolate")
    rets = T.returns(fn)
    if len(rets) != 1:
        raise T.TranslationError("SplineInterpolator._interpolate: expected one return statement, found %d" % len(rets))
    e = rets[0].value
    text = " ".join(ast.get_source_segment(src, e).split())
    if isinstance(e, ast.Call) and isinstance(e.func, ast.Name) and e.func.id == "float" and len(e.args) == 1:
        return True, text, e.lineno
    if isinstance(e, ast.Call) and isinstance(e.func, ast.Attribute) and e.func.attr == "item" and not e.args:
        return True, text, e.lineno
    if isinstance(e, ast.Call) and isinstance(e.func, ast.Name) and len(e.args) == 1 and not e.keywords \
            and isinstance(e.args[0], ast.Name):
        return False, text, e.lineno
    raise T.TranslationError("SplineInterpolator._interpolate: unsupported return expression: %s" % text)


def dict_paths(repo):
    """Do the three path followers index into dicts?  object_for_path (mapper/model.py), replacing_for_path
    (mapper/model_object.py, two sites) and InterpolatorPath.get_value (interpolator/query.py) must agree."""
    def count(rel, qual):
        tree, src = T.parse_file(repo, rel)
        fn = T.find_function(tree, qual)
        n = 0
        for c in ast.walk(fn):
            if isinstance(c, ast.Call) and isinstance(c.func, ast.Name) and c.func.id == "isinstance" and len(c.args) == 2 \
                    and isinstance(c.args[1], ast.Name) and c.args[1].id == "dict":
                n += 1
        return n
    got = (count("autofit/mapper/model.py", "AbstractModel.object_for_path"),
           count("autofit/mapper/model_object.py", "ModelObject.replacing_for_path"),
           count("autofit/interpolator/query.py", "InterpolatorPath.get_value"))
    if got == (0, 0, 0):
        return False, "no isinstance(.., dict) in object_for_path / replacing_for_path / get_value"
    if got == (1, 2, 1):
        return True, "isinstance(.., dict) -> obj[key] in object_for_path, replacing_for_path (x2), get_value"
    raise T.TranslationError("dict handling of the path followers is inconsistent (isinstance(.., dict) counts %s, expected (0,0,0) or (1,2,1))" % (got,))


def regenerate(repo=None):
    repo = repo or common.REPO
    info = T.translate_spec(repo, SPEC_LI, {})
    if info["defs"].get("Q") is None:
        raise T.TranslationError("li_eval has no exact-rational flavour")
    kept, text, line = final_step(repo)
    spl_float, spl_text, spl_line = spline_return(repo)
    dict_ok, dict_text = dict_paths(repo)
    lines = [
        "(* GENERATED by harness/vcheck/c20.py from %s -- do not edit. *)" % repo,
        "(* C20: leaf formula of LinearInterpolator._interpolate; statement form of the last step of __getitem__ *)",
        "From Coq Require Import ZArith QArith Qabs Bool.",
        "From Coq Require Import Floats.PrimFloat.",
        "From PAFCommon Require Import PyFloat PyNum.",
        "",
        "(* %s:%s line %d\n     %s *)" % (SPEC_LI.file, SPEC_LI.func, info["line"], info["source"]),
        info["defs"]["F"],
        info["defs"]["Q"],
        "",
        "(* %s:AbstractInterpolator.__getitem__ line %d\n     %s\n   result kept: %s *)" % (
            ABSTRACT, line, text.replace("(*", "( *").replace("*)", "* )"),
            "yes" if kept else "no (bare expression statement)"),
        "Definition assigns_final : bool := %s." % ("true" if kept else "false"),
        "",
        "(* %s:SplineInterpolator._interpolate line %d\n     return %s\n   a Python float: %s *)" % (
            SPLINE, spl_line, spl_text, "yes" if spl_float else "no (the 0-d numpy array scipy returns)"),
        "Definition spline_returns_float : bool := %s." % ("true" if spl_float else "false"),
        "",
        "(* %s *)" % dict_text,
        "Definition dict_paths_followed : bool := %s." % ("true" if dict_ok else "false"),
        "",
    ]
    out = "\n".join(lines)
    outfile = os.path.join(common.COQ, "C20", "Gen.v")
    old = open(outfile).read() if os.path.exists(outfile) else None
    if old != out:
        with open(outfile, "w") as f:
            f.write(out)
    return {
        "li_eval": {"source": info["source"], "line": info["line"]},
        "assigns_final": {"source": text, "line": line, "value": kept},
        "spline_returns_float": {"source": spl_text, "line": spl_line, "value": spl_float},
        "dict_paths_followed": {"source": dict_text, "line": 0, "value": dict_ok},
    }


# ---------------------------------------------------------------------------
# abstract value trees (JSON): {"f": hex} {"i": n} {"x": tok} {"o": [[k, t]..], "cls"} {"l": [..]} {"t": [..]}
# ---------------------------------------------------------------------------
def unhex(s):
    return float(s) if s in ("nan", "inf", "-inf") else float.fromhex(s)


def F(x):
    return {"f": float(x).hex()}


def num_of(t):
    """Python number held by a leaf (float or int), else None."""
    if t is None:
        return None
    if "f" in t:
        return unhex(t["f"])
    if "a" in t:
        return unhex(t["a"])
    if "i" in t:
        return int(t["i"])
    return None


def t_get(t, path):
    for k in path:
        if t is None:
            return None
        if isinstance(k, str):
            if "o" not in t and "d" not in t:
                return None
            hit = [c for kk, c in t.get("o", t.get("d")) if kk == k]      # attribute, or key of a dict
            t = hit[0] if hit else None
        else:
            if "l" not in t or not (0 <= k < len(t["l"])):
                return None
            t = t["l"][k]
    return t


def walk(t, tuples=False, private=False, pre=()):
    """Paths of float leaves.  Default = what the code's walk reaches (lists and public attributes);
    tuples=True also looks inside tuples (every float a user would call a parameter)."""
    if "f" in t:
        return [pre]
    out = []
    if "o" in t:
        for k, c in t["o"]:
            if k.startswith("_") and not private:
                continue
            out += walk(c, tuples, private, pre + (k,))
    elif "l" in t:
        for i, c in enumerate(t["l"]):
            out += walk(c, tuples, private, pre + (i,))
    elif "d" in t:
        # path_instances_of_class walks dicts like attribute dicts (string keys, "_" names skipped)
        for k, c in t["d"]:
            if k.startswith("_") and not private:
                continue
            out += walk(c, tuples, private, pre + (k,))
    elif "t" in t and tuples:
        for i, c in enumerate(t["t"]):
            out += walk(c, tuples, private, pre + (("T", i),))
    return out


def t_get_any(t, path):
    """like t_get but also follows ("T", i) steps into tuples"""
    for k in path:
        if t is None:
            return None
        if isinstance(k, tuple):
            if "t" not in t or k[1] >= len(t["t"]):
                return None
            t = t["t"][k[1]]
        else:
            t = t_get(t, (k,))
    return t


def skeleton(t):
    """shape and leaf kinds, float values erased"""
    if "f" in t:
        return "F"
    if "a" in t:
        return "A"
    if "i" in t:
        return "I"
    if "x" in t:
        return ("X", t["x"])
    if "d" in t:
        return ("D", tuple(sorted(((k, skeleton(c)) for k, c in t["d"]), key=repr)))
    if "o" in t:
        # the order in which attributes were set is not part of the shape (two fits may set them in different orders)
        return ("O", tuple(sorted(((k, skeleton(c)) for k, c in t["o"]), key=repr)))
    if "l" in t:
        return ("L", tuple(skeleton(c) for c in t["l"]))
    return ("T", tuple(skeleton(c) for c in t["t"]))


def nonfloat_part(t):
    """the tree with float values erased but every other leaf kept"""
    if "f" in t:
        return "F"
    if "a" in t:
        return ("A", t["a"])
    if "i" in t:
        return ("I", t["i"])
    if "x" in t:
        return ("X", t["x"])
    if "d" in t:
        return ("D", tuple(sorted(((k, nonfloat_part(c)) for k, c in t["d"]), key=repr)))
    if "o" in t:
        return ("O", tuple(sorted(((k, nonfloat_part(c)) for k, c in t["o"]), key=repr)))
    if "l" in t:
        return ("L", tuple(nonfloat_part(c) for c in t["l"]))
    return ("T", tuple(nonfloat_part(c) for c in t["t"]))


def has_tuple_float(t):
    return any(isinstance(k, tuple) and k[0] == "T" for p in walk(t, tuples=True) for k in p)


def has_dict_float(t):
    def through_dict(p):
        node = t
        for k in p:
            if "d" in node:
                return True
            node = t_get_any(node, (k,))
        return False
    return any(through_dict(p) for p in walk(t, tuples=True))


def has_dict(t):
    if "d" in t:
        return True
    return any(has_dict(c) for c in ([c for _, c in t["o"]] if "o" in t else t.get("l", t.get("t", []))))


def depth(t):
    if "o" in t or "d" in t:
        return 1 + max([depth(c) for _, c in t.get("o", t.get("d"))] + [0])
    if "l" in t or "t" in t:
        return 1 + max([depth(c) for c in t.get("l", t.get("t"))] + [0])
    return 0


# ---------------------------------------------------------------------------
# reference computation of what is handed to scipy (independent of /repo)
# ---------------------------------------------------------------------------
def value_map(insts, qpath):
    """dict semantics: key order = first insertion, value = last instance with an equal key."""
    keys = []
    for t in insts:
        k = num_of(t_get(t, qpath))
        if k is None:
            return None
        keys.append(k)
    d = {}
    for i, k in enumerate(keys):
        d[k] = i
    return keys, d


def requests_for(insts, qpath, v):
    """[(path, xs, ys)] for every float leaf the code's walk finds in the first instance."""
    vm = value_map(insts, qpath)
    if vm is None:
        return []
    keys, d = vm
    if v in d:
        return []
    xs = sorted(d)
    out = []
    for p in walk(insts[0]):
        ys = [num_of(t_get(insts[d[x]], p)) for x in xs]
        if any(y is None for y in ys):
            continue
        out.append((p, [float(x) for x in xs], [float(y) for y in ys]))
    return out


def lsq_exact(xs, ys, v):
    """least-squares line through exact rationals, evaluated at v"""
    xs = [Fraction(x) for x in xs]
    ys = [Fraction(y) for y in ys]
    n = len(xs)
    sx, sy = sum(xs), sum(ys)
    sxx = sum(x * x for x in xs)
    sxy = sum(x * y for x, y in zip(xs, ys))
    den = n * sxx - sx * sx
    if den == 0:
        return None
    slope = (n * sxy - sx * sy) / den
    return slope * Fraction(v) + (sy - slope * sx) / n


# ---------------------------------------------------------------------------
# generator
# ---------------------------------------------------------------------------
OBJ_NAMES = ["gaussian", "galaxy", "lens", "source", "disk", "bulge", "halo", "profile", "light", "mass",
             "galaxy_0", "lens1", "value", "instance", "items", "model"]
F_NAMES = ["centre", "sigma", "normalization", "intensity", "radius", "slope", "ell", "angle", "flux", "scale",
           "centre_0", "sigma1", "x_", "path", "cls", "prior", "values"]
VAR_NAMES = ["t", "time", "wavelength", "z", "epoch", "t_0", "z2", "time_"]
DICT_KEYS = ["a", "b", "amp", "phi", "0", "a.b", "a_1"]
ROUTES = ["chain", "explicit", "prefix", "reuse"]


def dy(rng, lo=-40, hi=40, q=4):
    return rng.randint(lo, hi) / float(q)


def gen_slot(rng):
    r = rng.random()
    if r < 0.40:
        return {"k": "F", "mode": "lin", "a": dy(rng, -12, 12), "b": dy(rng)}
    if r < 0.60:
        return {"k": "F", "mode": "quad", "a": dy(rng, -8, 8), "b": dy(rng, -8, 8), "c": dy(rng)}
    if r < 0.85:
        return {"k": "F", "mode": "rand", "scale": 10.0 ** rng.randint(-3, 3)}
    r2 = rng.random()
    return {"k": "F", "mode": "const", "c": dy(rng) if r2 < 0.6 else rng.uniform(-5, 5) if r2 < 0.8 else rng.choice([0.0, -0.0])}


NUMBERED = [["main", "0", "1"], ["1", "0"], ["a", "0"], ["0", "1"], ["2", "0", "1"], ["x_1", "1", "0"], ["10", "9", "0"]]


def gen_numbered(rng, names=None):
    """A collection as af.Collection(main=...) followed by .append(...) yields it (and its out-of-order relatives):
    item NAMES that are digit strings and differ from the items' positions.  Names are names, never positions."""
    def comp():
        if rng.random() < 0.6:
            return {"k": "O", "cls": "gauss", "fields": [(nm, gen_slot(rng)) for nm in ("centre", "normalization", "sigma")]}
        return gen_slot(rng)
    return {"k": "O", "cls": "mi", "numbered": True, "fields": [(nm, comp()) for nm in (names or rng.choice(NUMBERED))]}


def has_numbered(shape):
    if shape.get("numbered"):
        return True
    return any(has_numbered(c) for c in ([c for _, c in shape["fields"]] if "fields" in shape else shape.get("items", [])))


def gen_shape(rng, d, opts):
    """A component: object / list / tuple / leaf slot."""
    r = rng.random()
    if d >= 1 and rng.random() < 0.06:
        return gen_numbered(rng)
    if d <= 0 or r < 0.25:
        r2 = rng.random()
        if r2 < 0.80:
            return gen_slot(rng)
        if r2 < 0.90:
            return {"k": "I", "val": rng.randint(-3, 9)}
        return {"k": "X", "tok": rng.choice([0, 1, 2, 3, 9])}     # None, strings, or (9) a class held as an attribute
    if r < 0.70:
        if rng.random() < 0.35:
            return {"k": "O", "cls": "gauss",
                    "fields": [(nm, gen_slot(rng)) for nm in ("centre", "normalization", "sigma")]}
        n = rng.randint(1, 4)
        names = rng.sample(F_NAMES + OBJ_NAMES[:4] + OBJ_NAMES[10:13], n)
        fields = [(nm, gen_shape(rng, d - 1, opts)) for nm in names]
        if opts.get("private") and rng.random() < 0.5:
            fields.insert(rng.randint(0, len(fields)), ("_cache%d" % rng.randint(0, 3), gen_slot(rng)))
        return {"k": "O", "cls": rng.choice(["obj", "obj", "mi"]), "fields": fields}
    if opts.get("dicts") and r < 0.80:
        return {"k": "D", "fields": [(nm, gen_slot(rng)) for nm in rng.sample(DICT_KEYS, rng.randint(1, 2))]}
    if r < 0.88 or not opts.get("tuples"):
        return {"k": "L", "items": [gen_shape(rng, d - 1, opts) for _ in range(rng.randint(0, 3))]}
    return {"k": "T", "items": [gen_slot(rng) for _ in range(rng.randint(1, 3))]}


def instantiate(shape, t, rng_vals, where=()):
    k = shape["k"]
    if k == "F":
        m = shape["mode"]
        tt = float(t)
        if m == "lin" and not math.isfinite(tt):
            return F(shape["a"] * tt + shape["b"])          # an infinite abscissa: float arithmetic (inf, or nan for a = 0)
        if m == "lin":
            # the exact line, rounded once (identical to a*t+b in floats for dyadic t)
            return F(float(Fraction(shape["a"]) * Fraction(tt) + Fraction(shape["b"])))
        if m == "quad":
            return F(shape["a"] * tt * tt + shape["b"] * tt + shape["c"])
        if m == "const":
            return F(shape["c"])
        if m == "var":
            return {"i": int(t)} if isinstance(t, int) else F(t)
        if m == "var2":
            return F(shape["a"] * tt + shape["b"])
        return F(rng_vals.uniform(-1, 1) * shape["scale"])
    if k == "I":
        return {"i": shape["val"]}
    if k == "X":
        return {"x": shape["tok"]}
    if k == "O":
        return {"o": [[nm, instantiate(c, t, rng_vals, where + (nm,))] for nm, c in shape["fields"]], "cls": shape["cls"]}
    if k == "D":
        return {"d": [[nm, instantiate(c, t, rng_vals, where + (nm,))] for nm, c in shape["fields"]]}
    if k == "L":
        return {"l": [instantiate(c, t, rng_vals, where + (i,)) for i, c in enumerate(shape["items"])]}
    return {"t": [instantiate(c, t, rng_vals, where + (i,)) for i, c in enumerate(shape["items"])]}


def slot_at(shape, path):
    for k in path:
        if shape["k"] == "O":
            shape = dict(shape["fields"])[k]
        elif shape["k"] == "L":
            shape = shape["items"][k]
        else:
            return None
    return shape


def gen_abscissae(rng, n, kind):
    if kind == "int":
        return rng.sample(range(-6, 12), n)
    if kind == "mixed":
        vals = rng.sample(range(-6, 12), n)
        return [v if rng.random() < 0.5 else float(v) + rng.choice([0.0, 0.5]) for v in vals]
    if kind == "arbitrary":
        out = set()
        while len(out) < n:
            out.add(rng.uniform(-10, 10) * 10 ** rng.randint(-2, 2))
        return list(out)
    if kind == "inf":
        # one or both infinities among dyadic abscissae: members of the order like any other float (C20_*_f64 need no finiteness)
        k = 1 if n == 2 or rng.random() < 0.5 else 2
        vals = rng.sample([x / 4.0 for x in range(-20, 21)], n - k) + rng.sample([math.inf, -math.inf], k)
        rng.shuffle(vals)
        return vals
    if kind == "zerospan":
        # both signs, zero is NOT sampled: 0 / 0.0 / -0.0 are ordinary off-node query values
        neg = rng.sample([x / 4.0 for x in range(-20, 0)], max(1, n // 2))
        vals = neg + rng.sample([x / 4.0 for x in range(1, 21)], n - len(neg))
        rng.shuffle(vals)
        return vals
    if kind == "zeronode":
        # zero IS sampled (as 0.0 or the int 0), and is the smallest, the largest or an inner abscissa
        side = rng.choice(["min", "max", "inner"]) if n >= 3 else rng.choice(["min", "max"])
        pos = rng.sample([x / 4.0 for x in range(1, 21)], n - 1)
        if side == "max":
            pos = [-x for x in pos]
        elif side == "inner":
            pos[0] = -pos[0]
        vals = pos + [rng.choice([0.0, 0])]
        rng.shuffle(vals)
        return vals
    if kind == "negzero":
        vals = rng.sample([x / 4.0 for x in range(-20, 21) if x != 0], n - 1) + [-0.0]
        rng.shuffle(vals)
        return vals
    vals = rng.sample([x / 4.0 for x in range(-40, 41)], n)      # dyadic, distinct
    if kind == "dup":
        j = rng.randrange(1, n)
        i = rng.randrange(0, j)
        vals[j] = vals[i]
        if float(vals[i]).is_integer() and rng.random() < 0.5:
            vals[j] = int(vals[i])
    return vals


def gen_series(rng, thorough, force=None):
    force = force or {}
    opts = {"tuples": rng.random() < 0.12, "private": rng.random() < 0.15, "dicts": rng.random() < 0.06}
    n = rng.choice([2, 2, 3, 3, 3, 4, 4, 5, 6, 7] + ([8, 9] if thorough else []))
    akind = rng.choice(["dyadic"] * 10 + ["arbitrary"] * 4 + ["int"] * 2 + ["mixed"] * 2 + ["dup"] * 1 + ["negzero"] * 1 + ["inf"] * 1 + ["zerospan"] * 1 + ["zeronode"] * 1)
    var = rng.choice(VAR_NAMES)
    nf = rng.randint(1, 4)
    names = rng.sample(OBJ_NAMES + F_NAMES[:3], nf)
    fields = [(nm, gen_shape(rng, rng.randint(1, 3), opts)) for nm in names]
    root = {"k": "O", "cls": "mi", "fields": fields}
    via_collection = rng.random() < 0.12 and not force
    if via_collection:
        # the shape a fit produces: a Collection of Gaussians (possibly one level of nested collections)
        def gauss():
            return {"k": "O", "cls": "gauss", "fields": [(nm, gen_slot(rng)) for nm in ("centre", "normalization", "sigma")]}
        fields = [(nm, gauss()) for nm in rng.sample(OBJ_NAMES, rng.randint(1, 3))]
        if rng.random() < 0.5:
            # a nested collection: named items, or a named item followed by positional ones (Collection.append names them "0", "1", ...)
            gnames = rng.sample(["a", "b", "c"], rng.randint(1, 2)) if rng.random() < 0.5 else rng.choice(NUMBERED)
            fields.append(("group", {"k": "O", "cls": "mi", "numbered": gnames[0] not in "abc", "fields": [(nm, gauss()) for nm in gnames]}))
        root = {"k": "O", "cls": "mi", "fields": fields}
        akind = rng.choice(["dyadic", "dyadic", "arbitrary"])
    qpath = [var]
    nested_var = rng.random() < 0.25
    if nested_var:
        # the interpolation variable is an attribute of a nested component
        cands = [p for p in shape_float_paths(root) if all(isinstance(k, str) and not k.startswith("_") for k in p)]
        cands = [p for p in cands if slot_at(root, p)["k"] == "F"]
        if cands:
            p = rng.choice(cands)
            slot = slot_at(root, p)
            slot.clear()
            slot.update({"k": "F", "mode": "var"})
            qpath = list(p)
        else:
            nested_var = False
    if not nested_var:
        fields.insert(rng.randint(0, len(fields)), (var, {"k": "F", "mode": "var"}))
    # a second attribute that can serve as interpolation variable (affine in the first, so also distinct):
    # the same interpolator object is asked about both, interleaved
    var2 = None
    if rng.random() < 0.6:
        var2 = rng.choice([v for v in VAR_NAMES + ["u", "phase"] if v != var and v not in dict(root["fields"])])
        root["fields"].insert(rng.randint(0, len(root["fields"])),
                              (var2, {"k": "F", "mode": "var2", "a": rng.choice([-2.0, -0.5, 0.5, 1.0, 3.0]), "b": dy(rng)}))
    if force.get("special") == "numbered":
        root["fields"].append(("profiles", gen_numbered(rng, rng.choice(NUMBERED[:3]))))
    if force.get("special") == "alias" and not via_collection:
        # a list of components at the root whose first element will also be its last (one object twice in a container)
        def comp():
            return {"k": "O", "cls": rng.choice(["obj", "gauss"]), "fields": [(nm, gen_slot(rng)) for nm in ("centre", "normalization", "sigma")]}
        root["fields"].append(("components", {"k": "L", "items": [comp() for _ in range(rng.randint(1, 2))]}))
    if force.get("akind") and not via_collection:
        akind = force["akind"]
        # a parameter that is exactly 0.0 at t = 0 (an interpolated value may legitimately be zero)
        root["fields"].append(("offset_0", {"k": "F", "mode": "lin", "a": dy(rng, 1, 12), "b": 0.0}))
    ts = gen_abscissae(rng, n, akind)
    insts = [instantiate(root, t, rng) for t in ts]
    feats = {"abscissa": akind, "n": n, "nested_var": nested_var, "second_variable": var2 is not None}
    feats["lin_slots"] = {json.dumps(list(p)): [sl["a"], sl["b"]] for p, sl in lin_slots(root)}
    if var2 is not None:
        sl = dict(root["fields"])[var2]
        feats["var2"] = [var2, sl["a"], sl["b"]]
    feats["primary"] = list(qpath)
    feats["numbered"] = has_numbered(root)
    if via_collection:
        feats["via"] = "collection"
        for t in insts:
            t["via"] = "collection"
        if rng.random() < 0.5:
            feats["frozen"] = True            # frozen instances answer the walk from their cache
    else:
        r0 = rng.random() if not force.get("special") else {"attr_order": 0.30, "alias": 0.01, "numbered": 0.5}[force["special"]]
        if 0.25 <= r0 < 0.33:
            # the instances set their attributes in different orders (root and plain nested objects)
            def reorder(t):
                if "o" in t and t.get("cls") != "gauss":
                    rng.shuffle(t["o"])
                for c in ([c for _, c in t["o"]] if "o" in t else t.get("l", [])):
                    reorder(c)
            for t in insts[1:]:
                reorder(t)
            feats["attr_order"] = True
        lists = [k for k, c in insts[0]["o"] if "l" in c and c["l"] and "o" in c["l"][0] and [k] != qpath[:1]]
        if r0 < 0.08 and lists and (force.get("special") == "alias" or rng.random() < 0.5):
            # one component object twice in a list (items[0] is items[-1])
            import copy as _copy
            src = rng.choice(lists)
            for t in insts:
                lst = dict((k, c) for k, c in t["o"])[src]["l"]
                lst.append(_copy.deepcopy(lst[0]))
            k_new = len(dict((k, c) for k, c in insts[0]["o"])[src]["l"]) - 1
            feats["alias"] = [[src, 0], [src, k_new]]
            feats["alias_in_list"] = True
            feats["lin_slots"].update({json.dumps([src, k_new] + json.loads(k)[2:]): v
                                       for k, v in list(feats["lin_slots"].items()) if json.loads(k)[:2] == [src, 0]})
        elif r0 < 0.08:
            # one component object held at two attributes of every instance (a is b)
            cands = [k for k, c in insts[0]["o"] if "o" in c and [k] != qpath[:1]]
            if cands:
                src = rng.choice(cands)
                for t in insts:
                    import copy as _copy
                    t["o"].append([src + "_again", _copy.deepcopy(dict((k, c) for k, c in t["o"])[src])])
                feats["alias"] = [[src], [src + "_again"]]
                feats["lin_slots"].update({json.dumps([src + "_again"] + json.loads(k)[1:]): v
                                           for k, v in list(feats["lin_slots"].items()) if json.loads(k)[:1] == [src]})
        elif r0 < 0.18:
            feats["npfloat"] = True            # numpy.float64 leaves and query values
        elif r0 < 0.25:
            # every parameter is a 0-d array, as in instances returned by SplineInterpolator: not floats for the walk
            keep = [tuple(qpath)] + ([(var2,)] if var2 is not None else [])
            for t in insts:
                for p in walk(t, private=True):
                    if p not in keep:
                        leaf = t_get(t, p)
                        leaf["a"] = leaf.pop("f")
            feats["array_leaves"] = True
    # rare structural irregularities
    r = rng.random() if not (via_collection or feats.get("alias") or feats.get("attr_order")) else 1.0
    if r < 0.05:
        # one instance holds an int where the others hold a float
        cands = [p for p in walk(insts[0]) if list(p) != qpath]
        if cands:
            p = rng.choice(cands)
            j = rng.randrange(n)
            leaf = t_get(insts[j], p)
            v = unhex(leaf["f"])
            leaf.clear()
            leaf.update({"i": int(round(v))})
            feats["irregular"] = "int-among-floats"
    elif r < 0.07 and not feats.get("array_leaves"):
        # one instance holds a 0-d array where the others hold a float
        cands = [p for p in walk(insts[0]) if list(p) != qpath and (var2 is None or p != (var2,))]
        if cands:
            p = rng.choice(cands)
            leaf = t_get(insts[rng.randrange(n)], p)
            leaf["a"] = leaf.pop("f")
            feats["irregular"] = "array-among-floats"
    elif r < 0.11:
        # one instance lacks an attribute the others have
        j = rng.randrange(n)
        objs = [c for _, c in insts[j]["o"] if "o" in c and len(c["o"]) > 1 and c.get("cls") != "gauss"]
        if objs:
            o = rng.choice(objs)
            idx = rng.randrange(len(o["o"]))
            removed = o["o"].pop(idx)
            if num_of(t_get(insts[j], qpath)) is None:
                o["o"].insert(idx, removed)
            else:
                feats["irregular"] = "missing-attribute"
    # orders in which the series is supplied
    perms = [list(range(n))]
    if rng.random() < 0.8:
        perms.append(list(reversed(range(n))))
    by_t = sorted(range(n), key=lambda i: (float(ts[i]), i))
    if by_t not in perms and rng.random() < 0.5:
        perms.append(by_t)
    if rng.random() < 0.6:
        p = list(range(n))
        rng.shuffle(p)
        if p not in perms:
            perms.append(p)
    perms = perms[:1] + rng.sample(perms[1:], min(len(perms) - 1, 2))     # at most three orders
    # query values, per interpolation variable
    plan = [(qpath, kind, qv) for kind, qv in gen_qvals(rng, ts, full=True, zero=akind in ("zerospan", "zeronode"))]
    if var2 is not None:
        us = [num_of(t_get(t, (var2,))) for t in insts]
        plan += [([var2], kind, qv) for kind, qv in gen_qvals(rng, us, full=False)]
    queries = []
    nroute = rng.randrange(len(ROUTES))
    for perm in perms:
        order = list(plan)
        rng.shuffle(order)                      # the two variables interleave on one interpolator
        order.append(rng.choice(order))         # and one query is asked a second time (through another route)
        for path, kind, qv in order:
            # the routes to one query: attribute chain, explicit InterpolatorPath/Equality, kept prefix path objects that
            # are also extended elsewhere, an Equality object kept by the user and asked again (also of other interpolators)
            nroute += 1
            for method in ("linear", "spline"):
                queries.append({"perm": perm, "method": method, "path": list(path), "qkind": kind, "route": ROUTES[nroute % len(ROUTES)],
                                "value": {"i": qv} if isinstance(qv, int) else F(qv)})
    # one interpolator OBJECT whose series is changed between queries (use - change - use again): `instances` assigned
    # a new list, the list it hands out edited in place, a query that raises in between, the returned instance edited
    # by the caller before the same query is asked again.  Every answer must be that of a fresh interpolator.
    if force.get("history") or rng.random() < 0.5:
        base = perms[0]
        inside = [qv for path, kind, qv in plan if path == qpath and kind == "inside"][0]
        missing = list(qpath[:-1]) + [qpath[-1] + "_missing"]
        hq = []
        if n >= 3:
            d = rng.randrange(n)
            sub = [j for j in base if j != base[d]]
            if rng.random() < 0.5:
                rng.shuffle(sub)
            dropped_t = ts[base[d]]
            hq += [(base, "hist-first", qpath, inside, {}),
                   (sub, "hist-after-assign", qpath, inside, {"how": "assign"}),
                   (sub, "hist-dropped-node", qpath, dropped_t, {}),
                   (sub, "hist-raises", missing, inside, {}),
                   (sub + [base[d]], "hist-node-back", qpath, dropped_t, {"how": "edit"}),
                   (sub + [base[d]], "hist-scribbled", qpath, inside, {"scribble": True}),
                   (sub + [base[d]], "hist-after-scribble", qpath, inside, {})]
        else:
            back = list(reversed(base))
            hq += [(base, "hist-first", qpath, inside, {"scribble": True}),
                   (base, "hist-raises", missing, inside, {}),
                   (back, "hist-after-edit", qpath, inside, {"how": "edit"}),
                   (base, "hist-after-assign", qpath, inside, {"how": "assign"})]
        for k, (perm, kind, path, qv, extra) in enumerate(hq):
            for method in ("linear", "spline"):
                queries.append(dict({"perm": list(perm), "method": method, "path": list(path), "qkind": kind, "obj": "H",
                                     "route": "reuse" if k % 2 == 0 else "chain",
                                     "value": {"i": qv} if isinstance(qv, int) else F(qv)}, **extra))
        feats["history"] = True
    return {"kind": "series", "insts": insts, "queries": queries, "feats": feats}


def gen_qvals(rng, ts, full, zero=False):
    fs = sorted(float(t) for t in ts if math.isfinite(float(t)))
    has_inf = len(fs) < len(ts)
    if len(fs) < 2:
        fs = sorted(fs + [(fs[0] if fs else 0.0) + 1.0, (fs[0] if fs else 0.0) - 1.0])
    lo, hi = fs[0], fs[-1]
    qvals = []
    # the node asked is the smallest / the largest abscissa as often as an arbitrary one
    r = rng.random()
    finite_ts = [t for t in ts if math.isfinite(float(t))] or list(ts)
    node = min(finite_ts, key=float) if r < 0.3 else max(finite_ts, key=float) if r < 0.6 else rng.choice(ts)
    qvals.append(("node-min" if r < 0.3 else "node-max" if r < 0.6 else "node", float(node) if rng.random() < 0.7 else node))
    if full and float(node).is_integer() and rng.random() < 0.3:
        qvals.append(("node-int", int(float(node))))
    for _ in range(rng.randint(1, 2) if full else 1):
        i = rng.randrange(len(fs) - 1)
        a, b = fs[i], fs[i + 1]
        if a == b:
            a, b = lo, hi
        qvals.append(("inside", (a + b) / 2 if rng.random() < 0.5 else a + (b - a) * rng.random()))
    span = (hi - lo) or 1.0
    if full or rng.random() < 0.5:
        qvals.append(("outside", hi + rng.choice([0.25, 1.0, 3.5]) * span if rng.random() < 0.5 else lo - rng.choice([0.25, 1.0, 3.5]) * span))
    if full and rng.random() < 0.4:
        qvals.append(("near-node", math.nextafter(float(node), math.inf if rng.random() < 0.5 else -math.inf)))
    if full and rng.random() < 0.2:
        qvals.append(("int-query", int(math.floor((lo + hi) / 2))))
    if full and rng.random() < (0.8 if has_inf else 0.06):
        qvals.append(("inf-query", rng.choice([math.inf, -math.inf])))
    if full and rng.random() < 0.05:
        qvals.append(("negzero-query", -0.0))
    if full and lo <= 0.0 <= hi and rng.random() < (1.0 if zero else 0.3):
        # exactly zero: a node or an ordinary value, as float, int or negative zero
        qvals.append(("zero-query", rng.choice([0.0, 0, -0.0])))
        if zero:
            qvals.append(("zero-query", rng.choice([0.0, 0])))
    if full and rng.random() < 0.04:
        qvals.append(("nan-query", math.nan))
    return qvals


def lin_slots(shape, pre=()):
    k = shape["k"]
    if k == "F":
        return [(pre, shape)] if shape["mode"] == "lin" else []
    out = []
    if k in ("O", "D"):
        for nm, c in shape["fields"]:
            out += lin_slots(c, pre + (nm,))
    elif k in ("L", "T"):
        for i, c in enumerate(shape["items"]):
            out += lin_slots(c, pre + (i,))
    return out


def shape_float_paths(shape, pre=()):
    k = shape["k"]
    if k == "F":
        return [pre]
    out = []
    if k == "O":
        for nm, c in shape["fields"]:
            out += shape_float_paths(c, pre + (nm,))
    elif k == "L":
        for i, c in enumerate(shape["items"]):
            out += shape_float_paths(c, pre + (i,))
    return out


def gen_linreg(rng):
    n = rng.choice([0, 1, 2, 2, 3, 4, 5, 7, 9])
    r = rng.random()
    xs = [dy(rng, -64, 64, 8) for _ in range(n)]
    if r < 0.15 and n >= 2:
        xs = [xs[0]] * n
    if rng.random() < 0.5:
        a, b = dy(rng, -20, 20), dy(rng)
        ys = [a * x + b for x in xs]
    else:
        ys = [dy(rng, -400, 400, 16) for _ in range(n)]
    return {"kind": "linreg", "xs": [x.hex() for x in xs], "ys": [y.hex() for y in ys], "v": dy(rng, -100, 100, 8).hex()}


def gen_cases(ctx):
    rng = ctx.rng
    thorough = ctx.tier == "thorough"
    cases = []
    cdir = os.path.join(common.VERIF, "corpus", "C20")
    if os.path.isdir(cdir):
        for f in sorted(os.listdir(cdir)):
            if f.endswith(".json"):
                cases.append(json.load(open(os.path.join(cdir, f))))
    forced = [{"akind": "zerospan", "history": True}, {"akind": "zeronode", "history": True},
              {"special": "attr_order", "history": True}, {"special": "alias", "history": True},
              {"special": "numbered", "history": True}, {"special": "numbered"}]
    # VERIF_C20_FORCED_ONLY=1 (builders' knob, not used by ./check runs that count): only the forced series of this seed,
    # which are the first draws of the seed's random stream and therefore identical to those of the full run
    only_forced = bool(os.environ.get("VERIF_C20_FORCED_ONLY"))
    for k in range(len(forced) if only_forced else 84 if not thorough else 420):
        cases.append(gen_series(rng, thorough, force=forced[k] if k < len(forced) else None))
    for _ in range(0 if only_forced else 60 if not thorough else 300):
        cases.append(gen_linreg(rng))
    return cases


# ---------------------------------------------------------------------------
# property oracle (a direct statement of C20 on what the implementation returned)
# ---------------------------------------------------------------------------
def close(a, b, scale=1.0):
    return abs(a - b) <= 1e-9 * max(1.0, abs(a), abs(b), scale)


def series_info(s, perm, qpath):
    """What the property text assumes about a series, computed from the case."""
    insts = [s["insts"][j] for j in perm]
    keys = [num_of(t_get(t, qpath)) for t in insts]
    uniform = len({json.dumps(skeleton(t), default=str) for t in insts}) == 1
    distinct = None not in keys and len(set(keys)) == len(keys)
    return insts, keys, uniform, distinct


def plain(p):
    return [k[1] if isinstance(k, tuple) else k for k in p]


def slot_line(s, p, qpath):
    """(a, b) with leaf(p) = a*x + b exactly (before the single rounding of the data), x the abscissa at qpath,
    when the generator made the leaf linear; else None"""
    feats = s.get("feats", {})
    ab = feats.get("lin_slots", {}).get(json.dumps(plain(p)))
    if ab is None:
        return None
    a, b = Fraction(ab[0]), Fraction(ab[1])
    if list(qpath) == feats.get("primary"):
        return a, b
    v2 = feats.get("var2")
    if v2 and list(qpath) == [v2[0]]:
        a2, b2 = Fraction(v2[1]), Fraction(v2[2])      # u = a2*t + b2
        return a / a2, b - a * b2 / a2
    return None


def finite(x):
    return x is not None and not (isinstance(x, float) and (math.isnan(x) or math.isinf(x)))


def in_quantifier(s, q):
    qpath = tuple(q["path"])
    insts, keys, uniform, distinct = series_info(s, q["perm"], qpath)
    return bool(uniform and distinct and len(insts) >= 2 and finite(num_of(q["value"])) and all(finite(k) for k in keys))


def theorem_hypotheses(s, q):
    """The hypotheses of the binary64 theorems (Props.C20_*_f64), computed here with Python's own == and isnan:
    every abscissa and the value are numbers, none is a NaN, the abscissae are pairwise different under ==
    (so -0.0 and 0.0, or 1 and 1.0, are the same abscissa).  Infinite values are allowed."""
    insts = [s["insts"][j] for j in q["perm"]]
    keys = [num_of(t_get(t, tuple(q["path"]))) for t in insts]
    v = num_of(q["value"])
    if v is None or None in keys:
        return False
    if any(isinstance(x, float) and math.isnan(x) for x in keys + [v]):
        return False
    return all(keys[i] != keys[j] for i in range(len(keys)) for j in range(i))


def oracle_query(s, q, r):
    """Returns a list of (message, classes).  Empty = the property holds on this query."""
    fails = []
    qpath = tuple(q["path"])
    insts, keys, uniform, distinct = series_info(s, q["perm"], qpath)
    v = num_of(q["value"])
    if not r.get("inputs_unchanged", True):
        fails.append(("input instances were modified by the query (instances %s)" % r.get("changed"), []))
    if not r.get("list_unchanged", True):
        fails.append(("the list of instances held by the interpolator was changed", []))
    if r["kind"] == "new" and r.get("shares_mutable_with_inputs"):
        fails.append(("the returned instance shares a mutable object with the input instances", []))
    if not in_quantifier(s, q):
        # outside the quantifier of the property (instances of different shape / repeated abscissa / non-finite
        # numbers): only the known-point clause for repeated abscissae is checked here
        if uniform and None not in keys and v in keys and r["kind"] == "same" and keys[r["index"]] != v:
            fails.append(("returned instance does not have the requested abscissa", []))
        return fails
    template = insts[0]
    if r["kind"] == "exc":
        cls = []
        fails.append(("query raised %s: %s" % (r["exc"], r.get("msg")), cls))
        return fails
    if v in keys:
        want = keys.index(v)
        if r["kind"] != "same":
            fails.append(("query at a known point did not return the instance itself", []))
        elif r["index"] != want:
            fails.append(("query at the abscissa of instance %d returned instance %d" % (want, r["index"]), []))
        return fails
    if r["kind"] != "new":
        fails.append(("query at an unknown point returned input instance %s" % r.get("index"), []))
        return fails
    res = r["tree"]
    # shape and every non-float leaf as in the series (all instances agree on those when they agree with each other)
    agree_nonfloat = len({json.dumps(nonfloat_part(t), default=str) for t in insts}) == 1
    # the interpolation variable
    got = num_of(t_get(res, qpath))
    if got is None or got != v:
        fails.append(("interpolation variable is %r, requested %r" % (got, v),
                      []))
    # every float parameter is the interpolant -- and a float
    order = sorted(range(len(keys)), key=lambda i: keys[i])
    xs = [float(keys[i]) for i in order]
    table = {tuple(req["path"]): o for req, o in zip(q["requests"], r["oracle"])}
    arrays = []
    for p in walk(template, tuples=True):
        if p == qpath:
            continue
        ys = [unhex(t_get_any(insts[i], p)["f"]) for i in order]
        leaf = t_get_any(res, p)
        in_tuple = any(isinstance(k, tuple) and k[0] == "T" for k in p)
        cls = ["float-inside-tuple"] if in_tuple else []
        if in_tuple and leaf != t_get_any(template, p):
            # the recorded finding is "tuples are carried over from the first instance": anything else is new
            fails.append(("tuple leaf %s of the result is %r, neither interpolated nor the first instance's %r"
                          % (plain(p), leaf, t_get_any(template, p)), []))
        if leaf is not None and "a" in leaf:
            arrays.append(plain(p))
            leaf = {"f": leaf["a"]}
        if leaf is None or "f" not in leaf:
            fails.append(("float parameter %s is missing from the result" % (plain(p),), cls))
            continue
        gotv = unhex(leaf["f"])
        scale = max(abs(y) for y in ys)
        # slope*v + intercept cancels when |slope*v| >> |result|: absolute error ~ eps*scale*(|v|+|x|)/gap
        gap = min(b_ - a_ for a_, b_ in zip(xs, xs[1:]))
        lin_scale = max(scale, 1e-8 * scale * (abs(float(v)) + max(abs(x) for x in xs)) / gap)
        if q["method"] == "linear":
            exact = lsq_exact(xs, ys, float(v))
            if exact is None or not close(gotv, float(exact), lin_scale):
                fails.append(("parameter %s = %r is not the least-squares line at %r (%r)" % (plain(p), gotv, v, float(exact) if exact is not None else None), cls))
        elif not in_tuple:
            # (no oracle request exists for leaves the walk does not reach: the linear-data clause only)
            o = table.get(tuple(p))
            want = unhex(o["spl"]) if o and o.get("spl") is not None else None
            if want is None or gotv.hex() != want.hex():
                fails.append(("parameter %s = %r is not CubicSpline(x, y)(%r) = %r" % (plain(p), gotv, v, want), cls))
        # exact on linear data: exactly linear data, or data the generator made linear and rounded once
        lin = linear_coeffs(xs, ys) or slot_line(s, p, qpath)
        if lin is not None:
            a, b = lin
            want_lin = float(a * Fraction(float(v)) + b)
            # a cubic spline evaluated far outside clustered abscissae amplifies rounding by (distance/gap)^3:
            # the tolerance of this (mathematical) clause is scaled by that condition number for the spline
            tol_scale = lin_scale
            if q["method"] == "spline":
                cond = (max(abs(float(v) - x) for x in xs) / gap) ** 3
                tol_scale = max(scale, 1e-4 * cond * max(scale, abs(want_lin), 1.0))
            if not close(gotv, want_lin, tol_scale):
                fails.append(("data of %s are linear (%s*t+%s) but the result %r is not on the line at %r" % (plain(p), a, b, gotv, v), cls))
    if arrays:
        fails.append(("interpolated parameters %s of the result are 0-d numpy arrays, not floats" % (arrays[:4],),
                      []))
    # shape and non-float attributes are those common to the series (the variable is judged above:
    # it may legitimately change between int and float)
    if agree_nonfloat and not arrays and not same_but_variable(res, template, qpath):
        fails.append(("result differs from the series in shape or in a non-float attribute", []))
    return fails


def same_but_variable(res, template, qpath):
    import copy
    a, b = copy.deepcopy(res), copy.deepcopy(template)
    for t in (a, b):
        leaf = t_get(t, qpath)
        if leaf is None:
            return False
        leaf.clear()
        leaf.update({"x": 99})
    return json.dumps(nonfloat_part(a), default=str) == json.dumps(nonfloat_part(b), default=str)


def linear_coeffs(xs, ys):
    """(a, b) exact rationals when the data are exactly linear in x, else None."""
    if len(set(xs)) < 2:
        return None
    fx = [Fraction(x) for x in xs]
    fy = [Fraction(y) for y in ys]
    a = (fy[1] - fy[0]) / (fx[1] - fx[0])
    b = fy[0] - a * fx[0]
    if all(a * x + b == y for x, y in zip(fx, fy)):
        return a, b
    return None


def oracle_order(s, qs, rs):
    """Order independence: the same query on the same series supplied in different orders."""
    fails = []
    groups = {}
    for qi, (q, r) in enumerate(zip(qs, rs)):
        groups.setdefault((q["method"], json.dumps(q["path"]), json.dumps(q["value"], sort_keys=True),
                           json.dumps(sorted(q["perm"]))), []).append(qi)
    for key, idxs in groups.items():
        base = None
        for qi in idxs:
            q, r = qs[qi], rs[qi]
            qpath = tuple(q["path"])
            insts, keys, uniform, distinct = series_info(s, q["perm"], qpath)
            if not in_quantifier(s, q):
                continue
            if r["kind"] == "same":
                obs = ("same", q["perm"][r["index"]])
            elif r["kind"] == "new":
                def val(leaf):
                    leaf = leaf or {}
                    return leaf.get("f", leaf.get("a"))
                obs = ("new", tuple(sorted(((p, val(t_get_any(r["tree"], p))) for p in walk(insts[0], tuples=True) if p != qpath),
                                           key=repr)))
            else:
                obs = ("exc",)
            if base is None:
                base = (qi, obs)
            elif obs != base[1]:
                cls = []
                if obs[0] == "new" and base[1][0] == "new":
                    diff = [p for (p, a), (_, b) in zip(obs[1], base[1][1]) if a != b]
                    if diff and all(any(isinstance(k, tuple) and k[0] == "T" for k in p) for p in diff):
                        cls = ["float-inside-tuple"]
                fails.append((qi, "result depends on the order of the series (orders %s and %s)" % (qs[base[0]]["perm"], q["perm"]), cls))
    return fails


# ---------------------------------------------------------------------------
# Coq printing
# ---------------------------------------------------------------------------
def ctree(t):
    if "f" in t:
        return "TF %s" % cfloat(unhex(t["f"]))
    if "a" in t:
        return "TA %s" % cfloat(unhex(t["a"]))
    if "i" in t:
        return "TI %s" % cZ(t["i"])
    if "x" in t:
        return "TX %s" % cZ(t["x"])
    if "o" in t:
        return "TO %s" % clist(["(%s, %s)" % (cstr(k), ctree(c)) for k, c in t["o"]])
    if "d" in t:
        return "TD %s" % clist(["(%s, %s)" % (cstr(k), ctree(c)) for k, c in t["d"]])
    if "l" in t:
        return "TL %s" % clist(["(%s)" % ctree(c) for c in t["l"]])
    return "TT %s" % clist(["(%s)" % ctree(c) for c in t["t"]])


def cfl(xs):
    return clist([cfloat(unhex(x)) for x in xs])


def coutcome(r):
    if r["kind"] == "same":
        return "(OSame %s)" % cnat(r["index"])
    if r["kind"] == "new":
        return "(ONew (%s))" % ctree(r["tree"])
    return "OErr"


def lin_result(o):
    """scipy's line evaluated at v; None when linregress raised or produced NaN (a single point)"""
    if o.get("lin") is None:
        return None
    x = unhex(o["lin"][2])
    return None if math.isnan(x) else x


def ccase(c, r):
    if c["kind"] == "series":
        lin, spl, outs, qs = {}, {}, {}, []
        for q, rq in zip(c["queries"], r["queries"]):
            for req, o in zip(q["requests"], rq["oracle"]):
                if o.get("lin") is not None:
                    lin.setdefault((tuple(req["xs"]), tuple(req["ys"])), (o["lin"][0], o["lin"][1]))
                if o.get("spl") is not None:
                    spl.setdefault((tuple(req["xs"]), tuple(req["ys"]), req["v"]), o["spl"])
            out = coutcome(rq)
            idx = outs.setdefault(out, len(outs))
            qs.append("(Query %s %s %s (%s) %s %s %s)" % (
                clist([cnat(i) for i in q["perm"]]), "Linear" if q["method"] == "linear" else "Spline",
                clist([cstr(k) for k in q["path"]]), ctree(q["value"]), cnat(idx),
                "true" if in_quantifier(c, q) else "false", "true" if theorem_hypotheses(c, q) else "false"))
        lt = clist(["(%s, %s, (%s, %s))" % (cfl(k[0]), cfl(k[1]), cfloat(unhex(v[0])), cfloat(unhex(v[1]))) for k, v in lin.items()])
        st = clist(["(%s, %s, %s, %s)" % (cfl(k[0]), cfl(k[1]), cfloat(unhex(k[2])), cfloat(unhex(v))) for k, v in spl.items()])
        return "CSeries %s\n %s\n %s\n %s\n %s" % (clist(["(%s)" % ctree(t) for t in c["insts"]]), lt, st,
                                                 clist(sorted(outs, key=outs.get)), clist(qs))
    o = r["oracle"]
    res = "None" if lin_result(o) is None else "(Some %s)" % cQ(lin_result(o))
    return "CLinreg %s %s %s %s %s" % (
        clist([cQ(unhex(x)) for x in c["xs"]]), clist([cQ(unhex(y)) for y in c["ys"]]), cQ(unhex(c["v"])), res, cQ(Fraction(1, 10 ** 9)))


# ---------------------------------------------------------------------------
# run
# ---------------------------------------------------------------------------
def history_of(c, q):
    """q preceded by the earlier queries on the same interpolator object (and the earlier uses of a kept Equality)"""
    def key(x):
        return (x.get("obj") or tuple(x["perm"]), x["method"])
    out = []
    for x in c["queries"]:
        if key(x) == key(q) or (q.get("route") == "reuse" and x.get("route") == "reuse" and x["path"] == q["path"] and x["value"] == q["value"]):
            out.append(x)
        if x is q:
            break
    return out[-12:]


def replayable(c, queries):
    """the abstract input of a failing case, as it was generated (so that --replay rebuilds the same objects)"""
    one = {k: v for k, v in c.items() if k != "gen_insts"}
    one["insts"] = c.get("gen_insts", c["insts"])
    one["queries"] = [{k: v for k, v in q.items() if k != "requests"} for q in queries]
    return one


# corpus cases of findings repaired in /repo -> signature of the finding (known_findings/C20.json, status fixed)
PINNED = {"int-variable": "final-replacement-discarded", "spline-result-float": "spline-result-is-array",
          "dict-floats": "float-inside-dict-raises"}
# the clause of the oracle each pinned case is about (other failures of the case are reported as usual)
PINNED_CLAUSE = {"int-variable": ("interpolation variable is", "query raised"),
                 "spline-result-float": ("interpolated parameters", "query raised", "float parameter"),
                 "dict-floats": ("query raised", "float parameter", "parameter ")}


def attach_requests(c):
    for q in c["queries"]:
        insts = [c["insts"][j] for j in q["perm"]]
        v = num_of(q["value"])
        q["requests"] = [{"path": list(p), "xs": [x.hex() for x in xs], "ys": [y.hex() for y in ys], "v": float(v).hex()}
                         for p, xs, ys in requests_for(insts, tuple(q["path"]), v)]


def query_nontrivial(s, q, r):
    qpath = tuple(q["path"])
    insts, keys, uniform, distinct = series_info(s, q["perm"], qpath)
    if not in_quantifier(s, q):
        return False
    fk = [float(k) for k in keys]
    if r["kind"] == "same":
        return fk != sorted(fk)
    return r["kind"] == "new" and len(q["requests"]) >= 2


def run(ctx):
    ctx.rule = ("a case is one query interpolator[path == value] (LinearInterpolator or SplineInterpolator) on a generated series of "
                "2-7 (thorough: 2-9) instances of a random nested shape (ModelInstance / plain objects / Gaussian / lists / tuples / dicts / "
                "int, str, None and private attributes; built directly, through af.Collection (optionally frozen), with one component "
                "aliased at two attributes, with numpy.float64 leaves or with 0-d array leaves; data linear, quadratic, random or constant "
                "in the variable; abscissae dyadic, arbitrary, int, mixed, repeated or containing -0.0; variable at the root or nested, "
                "often a second variable queried on the same interpolator object, interleaved, one query repeated), supplied in up to "
                "three orders, queried at nodes (smallest / largest / any), inside, outside, one ulp beside a node, at 0 / 0.0 / -0.0 (sampled or "
                "not), at +-inf and nan; every query through one of four routes (attribute chain, explicit InterpolatorPath/Equality, kept "
                "prefix path objects, a kept Equality object asked again, also of other interpolators); in half of the series (and in six "
                "forced series of every run: abscissae spanning / containing zero, attributes set in different orders, one component twice "
                "in a list, collections whose item NAMES are digits that differ from the items' positions) a history on ONE interpolator "
                "object: query, `instances` assigned a sub-series, a query that raises, the list edited in place, the returned instance "
                "edited by the caller, the same query again -- each answer judged as that of a fresh interpolator over the current series; "
                "names with digits / underscores / dots (dict keys) and names the library uses on its own objects (value, path, cls, items, "
                "model, prior ...); plus exact-least-squares cases. "
                "Non-trivial: the query is within the property's quantifier (same shape, distinct finite abscissae, finite value) and "
                "either it is off-node with >= 2 interpolated float leaves, or it is at a node of a series supplied in non-sorted order; "
                "distinct = distinct (series, order, method, path, value)")
    ctx.trusted = [
        "Coq 8.16.1 kernel incl. vm_compute; primitive floats (PrimFloat, Uint63) are kernel primitives",
        "harness/vcheck/pyexpr2coq.py + the statement-form reader in c20.py regenerating coq/C20/Gen.v from /repo on every run",
        "correspondence harness c20.py / impl/c20_impl.py (tree abstraction of live objects, checked against the generated tree)",
        "scipy.stats.linregress and scipy.interpolate.CubicSpline called directly by the driver provide the oracle tables; "
        "CPython dict/sorted/copy.deepcopy/getattr semantics are modelled, not verified; object aliasing is outside the tree model "
        "(non-mutation of inputs is checked on the implementation by snapshots of values and object identities)",
    ]
    ctx.assumptions = [
        "order theorems assume the abscissa comparison is a total preorder whose equivalence is the dict's key equality, on a carrier "
        "containing the abscissae and the query value; PROVED for Z, Q (carrier = everything) and for binary64 (carrier = non-NaN floats, "
        "from the specification axioms FloatAxioms.eqb_spec / leb_spec of the Coq standard library: coq/Common/Float64Order.v). "
        "The only remaining hypotheses of the binary64 theorems -- no NaN among the abscissae, pairwise different abscissae (hyps_F also requires a non-NaN value) -- "
        "are decided by vm_compute on every run (hyps_F) and must EQUAL the harness's own evaluation with Python's == / isnan; "
        "C20_run_hypotheses_f64 proves that hyps_F = true implies the theorems' hypotheses",
        "NaN abscissae are outside theorems and correspondence: the model's dict finds keys by == only, CPython also by object identity, "
        "and Python's sorted() (timsort with <) is modelled by an insertion sort with <=, which agree only on totally ordered keys",
        "spline exactness on linear data is a hypothesis on the external routine (C20_trend is parametric in it); least squares is proved exact over Q",
        "binary64 results of linregress/CubicSpline enter the model as oracle values; exact least squares is tied to them at relative tolerance 1e-9",
    ]
    # 1. translator
    try:
        infos = regenerate()
        ctx.translated = infos
        ctx.obligation("translator:Gen.v", "translator", True, "li_eval; assigns_final=%s" % infos["assigns_final"]["value"])
        ctx.notes["code_variant"] = (
            "final replacing_for_path result is KEPT: C20_variable (full statement) applies to the code" if infos["assigns_final"]["value"]
            else "final replacing_for_path result is DISCARDED (regression of dbd9428): C20_variable_code no longer compiles")
        ctx.notes["spline_leaf"] = ("SplineInterpolator returns a float: C20_leaf_code applies" if infos["spline_returns_float"]["value"]
                                    else "SplineInterpolator returns a 0-d array (regression of 3338de6): C20_leaf_code no longer compiles")
        ctx.notes["dict_paths"] = ("path followers index into dicts: C20_dict_code applies" if infos["dict_paths_followed"]["value"]
                                   else "path followers use getattr only (regression of e3bcee5): C20_dict_code no longer compiles")
        translated = True
    except T.TranslationError as e:
        ctx.obligation("translator:Gen.v", "translator", False, str(e))
        translated = False
    # 2. proofs
    if translated:
        ctx.build()
    # 3. cases
    cases = gen_cases(ctx)
    if ctx.replay:
        rp = json.load(open(ctx.replay))
        if rp.get("case"):
            cases = [rp["case"]]
    for c in cases:
        if c["kind"] == "series":
            attach_requests(c)
    nchunk = max(1, min(16, len(cases) // 8 or 1))     # fixed, so that case order does not depend on the machine
    chunks = [cases[i::nchunk] for i in range(nchunk)]
    outs = common.run_impl_parallel("c20_impl", [{"cases": ch} for ch in chunks], timeout=1500)
    results = [None] * len(cases)
    for k, (ch, out) in enumerate(zip(chunks, outs)):
        if "__error__" in out:
            ctx.obligation("impl-driver", "harness", False, out["__error__"][-800:])
            return
        for j, r in enumerate(out["results"]):
            results[k + j * nchunk] = r
    coq_cases, coq_idx = [], []
    pinned = {}
    for i, (c, r) in enumerate(zip(cases, results)):
        if "exc" in r:
            ctx.obligation("impl-driver", "harness", False, "driver failed on case %d: %s" % (i, r.get("msg")))
            continue
        r = r["ok"]
        if c["kind"] == "series" and c.get("feats", {}).get("via") == "collection" and all(r["abs_ok"]):
            # instances composed by af.Collection carry an extra int attribute `item_number`: model and oracle
            # see the instance as it really is (the generated tree was checked against it by the driver)
            c = dict(c, insts=r["built"], gen_insts=c["insts"])
            cases[i] = c
        if c["kind"] == "linreg":
            ctx.count_case(c, len(c["xs"]) >= 3, "linreg")
            ctx.oracle["cases"] += 1
            o = r["oracle"]
            exact = lsq_exact([unhex(x) for x in c["xs"]], [unhex(y) for y in c["ys"]], unhex(c["v"])) if c["xs"] else None
            got = lin_result(o)
            if (exact is None) != (got is None) or (exact is not None and not close(float(exact), got)):
                ctx.oracle["failures"] += 1
                ctx.failure("oracle", "scipy linregress line differs from exact least squares", c, impl=o)
            coq_cases.append(ccase(c, r))
            coq_idx.append(i)
            continue
        feats = c.get("feats", {})
        ctx.hist("abscissa", feats.get("abscissa"))
        ctx.hist("instances", len(c["insts"]))
        ctx.hist("depth", depth(c["insts"][0]))
        ctx.hist("float_leaves", min(len(walk(c["insts"][0])), 12))
        ctx.hist("irregular", feats.get("irregular", "none"))
        ctx.hist("built_via", feats.get("via", "ModelInstance(dict)"))
        ctx.hist("special", ",".join(k for k in ("alias", "npfloat", "array_leaves", "frozen", "second_variable") if feats.get(k)) or "none")
        ctx.hist("dict_floats", has_dict_float(c["insts"][0]))
        ctx.hist("tuple_floats", has_tuple_float(c["insts"][0]))
        ctx.hist("orders", len({tuple(q["perm"]) for q in c["queries"] if not q.get("obj")}))
        ctx.hist("object_history", "series changed on one object" if feats.get("history") else "none")
        ctx.hist("attr_order_differs", bool(feats.get("attr_order")))
        ctx.hist("digit_item_names", bool(feats.get("numbered")))
        ctx.hist("alias_in_list", bool(feats.get("alias_in_list")))
        for q, rq in zip(c["queries"], r["queries"]):
            ctx.hist("route", q.get("route", "chain"))
            if q.get("obj"):
                ctx.hist("history_step", "%s%s" % (q.get("qkind"), "/" + q["how"] if q.get("how") else ""))
            if q.get("qkind") in ("zero-query", "node-min", "node-max"):
                ctx.hist("boundary_query", "%s:%s:%s" % (q["qkind"], "int" if "i" in q["value"] else
                                                          ("-0.0" if q["value"]["f"].startswith("-0x0.0") else "0.0") if q["qkind"] == "zero-query" else "float",
                                                          rq["kind"]))
        if not all(r["abs_ok"]):
            ctx.obligation("abstraction", "harness", False, "abstract(build(tree)) != tree in series %d" % i)
        small = {"insts": c["insts"], "feats": feats}
        for q, rq in zip(c["queries"], r["queries"]):
            key = {"insts": c.get("gen_insts", c["insts"]), "perm": q["perm"], "method": q["method"], "value": q["value"], "path": q["path"]}
            ctx.count_case(key, query_nontrivial(c, q, rq), "%s/%s/%s" % (q["method"], q.get("qkind"), rq["kind"]))
            hyp = theorem_hypotheses(c, q)
            ctx.hist("f64_theorem_hypotheses", "%s,%s" % ("hold" if hyp else "fail", "in-quantifier" if in_quantifier(c, q) else "outside"))
            if hyp:
                ks_ = [num_of(t_get(c["insts"][j], tuple(q["path"]))) for j in q["perm"]]
                vq = num_of(q["value"])
                spec = sorted({nm for nm, test in (("inf-abscissa", any(math.isinf(float(k)) for k in ks_)),
                                                   ("negzero-abscissa", any(isinstance(k, float) and k == 0 and math.copysign(1, k) < 0 for k in ks_)),
                                                   ("inf-query", math.isinf(float(vq))),
                                                   ("signed-zero-hit", isinstance(vq, float) and vq == 0 and any(
                                                       k == 0 and math.copysign(1, float(k)) != math.copysign(1, vq) for k in ks_))) if test})
                ctx.hist("f64_carrier_features", ",".join(spec) or "finite-nonzero")
            ctx.oracle["cases"] += 1
            fails = oracle_query(c, q, rq)
            if feats.get("corpus") in PINNED:
                pinned.setdefault(feats["corpus"], []).extend(m for m, _ in fails if m.startswith(PINNED_CLAUSE[feats["corpus"]]))
                if rq["kind"] == "exc":
                    pinned[feats["corpus"]].append("query raised %s" % rq.get("exc"))
            for msg, classes in fails:
                ctx.oracle["failures"] += 1
                ctx.failure("oracle", msg + ("" if len(history_of(c, q)) == 1 else " [query %d of a history on one interpolator object: %s]" % (
                    len(history_of(c, q)), ",".join("%s/%s" % (x.get("qkind"), x.get("route")) for x in history_of(c, q)))),
                    replayable(c, history_of(c, q)), classes=classes, impl={k: v for k, v in rq.items() if k != "oracle"})
        for qi, msg, classes in oracle_order(c, c["queries"], r["queries"]):
            ctx.oracle["failures"] += 1
            ctx.failure("oracle", msg, replayable(c, c["queries"]), classes=classes, impl=None)
        if i % 23 == 0:
            ctx.sample({"insts": c["insts"][:2], "n_instances": len(c["insts"]), "feats": feats,
                        "query": {k: v for k, v in c["queries"][-1].items() if k != "requests"},
                        "returned": r["queries"][-1]["kind"]}, limit=6)
        coq_cases.append(ccase(c, r))
        coq_idx.append(i)
    # pinned corpus cases of repaired findings: they must pass now (an obligation each, so a regression is named)
    for name, sig in PINNED.items():
        if ctx.replay:
            break
        if name not in pinned:
            ctx.obligation("regression:" + sig, "regression", False, "pinned corpus case corpus/C20/%s.json did not run" % name)
        else:
            ctx.obligation("regression:" + sig, "regression", not pinned[name],
                           "corpus/C20/%s.json passes" % name if not pinned[name] else "; ".join(pinned[name][:3])[:600])
    # 4. correspondence inside Coq
    if os.path.exists(os.path.join(common.COQ, "C20", "Model.vo")):
        hdr = ctx.header(["Common.PyFloat", "Gen", "Model"])
        bad, log = ctx.eval_cases(hdr, "case", "check_case", coq_cases, shard=8)
        for b in (bad or [])[:5]:
            i = coq_idx[b]
            c, r = cases[i], results[i]["ok"]
            if c["kind"] == "series":
                detail = ctx.show(hdr, "failing_queries (%s)" % ccase(c, r), tag="failq%d" % b)
                idxs = [int(x) for x in re.findall(r"\d+", detail.split(":")[0])] if detail.lstrip().startswith("=") else []
                qs = [c["queries"][j] for j in idxs[:3]] or c["queries"][:1]
                found = any(oracle_query(c, q, r["queries"][c["queries"].index(q)]) for q in qs)
                ctx.failure("correspondence", "model and implementation disagree on %d queries of a series (first: %s)" % (
                    len(idxs), {k: v for k, v in qs[0].items() if k != "requests"}),
                    replayable(c, qs),
                    impl=[{k: v for k, v in r["queries"][c["queries"].index(q)].items() if k != "oracle"} for q in qs],
                    broken={"kind": "correspondence", "name": "C20.check_case"}, found_input=True)
            else:
                ctx.failure("correspondence", "exact least squares and scipy disagree", c, impl=r,
                            broken={"kind": "correspondence", "name": "C20.check_case"}, found_input=True)
    else:
        ctx.obligation("correspondence:cases", "correspondence", False, "Model.vo not built")


MANIFEST = {
    "text": "Coq 8.16 theorems over an executable model of AbstractInterpolator.__getitem__/_value_map, the float-path walk, "
            "object_for_path and ModelObject.replacing_for_path on value trees, parametric in the number type, its comparisons, "
            "the scipy routine and the kind of leaf it returns (float / 0-d array): a query at a known abscissa returns that very "
            "instance (and only then); otherwise every float leaf the walk finds is interp(sorted abscissae, aligned values, value), "
            "everything incomparable with those paths is unchanged, a well-formed series never raises (C20_defined), the result is "
            "independent of the order of the series (all permutations), the interpolation variable equals the requested value for "
            "the code as it is (C20_variable_code, stated with the statement form regenerated from /repo), exact-rational least "
            "squares + the code's own formula reproduces linear data, hence linear trends through the whole interpolator; plus "
            "bit-exact vm_compute correspondence of the binary64 instance (scipy values as oracle tables) with "
            "LinearInterpolator/SplineInterpolator on generated series (two interpolation variables interleaved and repeated on one "
            "interpolator object, instances built by ModelInstance or by a Collection, frozen, aliased components, numpy.float64 and "
            "0-d array leaves, inf/nan/-0.0 queries, -0.0 and infinite abscissae; histories on one interpolator object whose series is "
            "re-assigned / edited in place between queries, with a raising query and a caller-edited result in between; four routes to "
            "one query; attribute orders differing between instances; one component twice in a list; digit item names that differ from "
            "positions; zero as node / value / interpolated result); the interpolator OBJECT is a state machine with an explicit answer "
            "cache under an arbitrary policy (Machine.v): for EVERY sound policy every query of every history answers what a fresh "
            "interpolator over the current series answers (C20_history_independent, C20_last_query_fresh), the code's policy (no cache) "
            "is sound (C20_code_policy_sound), caching by value alone or ignoring a change of the series is refuted "
            "(C20_cache_by_value_refuted, C20_cache_ignoring_series_refuted); the order / known-point / per-leaf / definedness "
            "theorems are also stated and PROVED for that binary64 instance (C20_*_f64: comparisons PrimFloat.leb / PrimFloat.eqb, "
            "hypothesis on the numbers = no NaN among the abscissae -- none on the query value; C20_order_laws_f64, from the FloatAxioms "
            "specification axioms of the Coq library); that hypothesis (for the value too) and `distinct abscissae` are decided by vm_compute on every run (hyps_F, "
            "C20_run_hypotheses_f64) and must equal the harness's own evaluation with Python's == / isnan; and a direct property "
            "oracle (identity at nodes, exact least squares, "
            "leaf types, variable, non-mutation and non-sharing by value-and-identity snapshots, order independence)",
    "note": "Trusted: Coq kernel + vm_compute, primitive floats, the translator (pyexpr2coq.py + the statement/return-form readers in "
            "c20.py), the tree abstraction of live objects. The order/known-point/per-leaf theorems are generic in the number type "
            "under order laws relativised to a carrier, proved for Z and Q (carrier = everything) and for binary64 (carrier = non-NaN "
            "floats; depends on FloatAxioms.eqb_spec / leb_spec, specification axioms declared by the Coq standard library, through "
            "coq/Common/Float64Order.v); the laws are additionally re-evaluated by computation on the abscissae and query of each run "
            "(laws_F, a redundant cross-check of the theorem against the kernel's float primitives). NaN abscissae stay outside "
            "theorems and correspondence (C20_defined_f64_nan_refuted, C20_sorted_abscissae_nan_refuted show the hypothesis is "
            "needed in the model; CPython's dict also finds a NaN key by object identity and sorted() is timsort with <, neither "
            "modelled). scipy linregress/CubicSpline are oracles: exact least squares is tied to linregress at 1e-9 relative; for "
            "the spline it is the identity with scipy's default CubicSpline that is pinned bit-exactly (another spline satisfying the "
            "property text would need the oracle table changed), and exactness on linear data is a hypothesis checked at a "
            "condition-number-scaled tolerance. Non-mutation of inputs is checked on the implementation only (the tree model is "
            "functional, deepcopy and aliasing are not modelled). Dict-valued attributes are oracle-only. Still-known finding: floats "
            "inside tuples are not interpolated (no small safe repair: shared walk). Repaired in /repo and pinned by regression "
            "obligations + theorems C20_variable_code / C20_leaf_code / C20_dict_code: discarded final replacement, spline results "
            "as 0-d arrays, floats below dict-valued attributes (query raised). Not covered: "
            "an interpolation variable whose name is an attribute of the interpolator / path objects themselves (`instances`, `keys`, "
            "`get_value`: the attribute chain cannot address it, the explicit InterpolatorPath route can -- not generated), "
            "CovarianceInterpolator, NaN abscissae, int abscissae beyond 2^53 (Python compares int with float exactly, the model through Z2F).",
    "technique": "machine-checked proof in Coq (translator-regenerated model) + vm_compute correspondence",
}
