"""C11 structure translator (fail-closed): regenerates coq/C11/Gen.v from /repo.

Two facts of the anchored code are read from its AST on every run:

* the constructor signatures of every concrete search class (named parameters, **kwargs, the keywords
  each `__init__` passes explicitly to `super().__init__`, whether `**kwargs` is forwarded, keys popped from
  kwargs first) -- the data on which `Model.call_ok` decides whether `cls(**arguments)` (what
  `from_dict(search.json)` executes) raises `TypeError`;
* how `GridSearchOutput.id` is computed (the `.is_grid_search` marker text or the folder name).

Anything outside the recognised shapes raises TranslationError.
"""
import ast
import os

from .pyexpr2coq import TranslationError

SEARCH_ROOT = "autofit/non_linear/search"
SEARCH_OUTPUT = "autofit/aggregator/search_output.py"
ROOT_CLASS = "NonLinearSearch"
ROOT_BASES = {"AbstractFactorOptimiser": "autofit/graphical/expectation_propagation/factor_optimiser.py", "ABC": None}


def _cstr(s):
    if not all(32 <= ord(c) < 127 for c in s) or '"' in s:
        raise TranslationError("unsupported string %r" % s)
    return '"%s"' % s


def _clist(xs):
    return "[" + "; ".join(_cstr(x) for x in xs) + "]"


def _class_table(repo):
    table = {}
    root = os.path.join(repo, SEARCH_ROOT)
    for d, _, fs in sorted(os.walk(root)):
        for f in sorted(fs):
            if not f.endswith(".py"):
                continue
            path = os.path.join(d, f)
            tree = ast.parse(open(path).read())
            for n in tree.body:
                if isinstance(n, ast.ClassDef):
                    if n.name in table:
                        raise TranslationError("class name %s defined twice under %s" % (n.name, SEARCH_ROOT))
                    table[n.name] = (n, os.path.relpath(path, repo))
    return table


def _base_names(cls):
    out = []
    for b in cls.bases:
        if isinstance(b, ast.Name):
            out.append(b.id)
        elif isinstance(b, ast.Attribute):
            out.append(b.attr)
        else:
            raise TranslationError("unsupported base expression in class %s" % cls.name)
    return out


def _init_sig(cls, rel):
    """sig of the class's own __init__ or None when it defines none."""
    inits = [x for x in cls.body if isinstance(x, ast.FunctionDef) and x.name == "__init__"]
    if not inits:
        return None
    if len(inits) > 1:
        raise TranslationError("%s defines __init__ twice" % cls.name)
    fn = inits[0]
    a = fn.args
    if a.vararg is not None or a.posonlyargs:
        raise TranslationError("%s.__init__ uses *args / positional-only parameters" % cls.name)
    params = [x.arg for x in a.args[1:]] + [x.arg for x in a.kwonlyargs]
    varkw = a.kwarg.arg if a.kwarg is not None else None
    calls = []
    pops = []
    for stmt in fn.body:
        for c in ast.walk(stmt):
            if isinstance(c, ast.Call) and isinstance(c.func, ast.Attribute):
                if c.func.attr == "__init__":
                    calls.append((stmt, c))
                elif (c.func.attr == "pop" and isinstance(c.func.value, ast.Name) and varkw is not None
                      and c.func.value.id == varkw):
                    if not (c.args and isinstance(c.args[0], ast.Constant) and isinstance(c.args[0].value, str)):
                        raise TranslationError("%s.__init__: kwargs.pop with a non-literal key" % cls.name)
                    if calls:
                        raise TranslationError("%s.__init__: kwargs.pop after super().__init__" % cls.name)
                    if stmt is not c and not (isinstance(stmt, (ast.Expr, ast.Assign)) and stmt in fn.body):
                        raise TranslationError("%s.__init__: conditional kwargs.pop" % cls.name)
                    pops.append(c.args[0].value)
            if isinstance(c, (ast.Delete,)) or (isinstance(c, ast.Subscript) and isinstance(c.value, ast.Name)
                                               and varkw is not None and c.value.id == varkw
                                               and isinstance(getattr(c, "ctx", None), (ast.Store, ast.Del))):
                raise TranslationError("%s.__init__ mutates kwargs in an unsupported way" % cls.name)
    if len(calls) != 1:
        raise TranslationError("%s.__init__ has %d super().__init__ calls" % (cls.name, len(calls)))
    stmt, call = calls[0]
    if stmt not in fn.body or not isinstance(stmt, ast.Expr):
        raise TranslationError("%s.__init__: super().__init__ is not a top-level statement" % cls.name)
    if not (isinstance(call.func.value, ast.Call) and isinstance(call.func.value.func, ast.Name)
            and call.func.value.func.id == "super" and not call.func.value.args):
        raise TranslationError("%s.__init__: __init__ call is not super().__init__" % cls.name)
    if call.args:
        raise TranslationError("%s.__init__: positional arguments in super().__init__" % cls.name)
    kws, forwards = [], False
    for k in call.keywords:
        if k.arg is None:
            if not (isinstance(k.value, ast.Name) and k.value.id == varkw):
                raise TranslationError("%s.__init__: ** of something other than its own kwargs" % cls.name)
            forwards = True
        else:
            kws.append(k.arg)
    # kwargs must not be reassigned
    for c in ast.walk(fn):
        if isinstance(c, ast.Name) and varkw is not None and c.id == varkw and isinstance(c.ctx, ast.Store):
            raise TranslationError("%s.__init__ rebinds kwargs" % cls.name)
    return {"cls": cls.name, "params": params, "varkw": varkw is not None, "super_kw": kws,
            "forwards": forwards, "pops": pops, "file": rel, "line": fn.lineno}


def _identifier_fields(cls):
    for x in cls.body:
        if isinstance(x, ast.Assign) and len(x.targets) == 1 and isinstance(x.targets[0], ast.Name) \
                and x.targets[0].id == "__identifier_fields__":
            v = x.value
            if isinstance(v, ast.Call) and isinstance(v.func, ast.Name) and v.func.id == "tuple" and not v.args:
                return []
            if isinstance(v, (ast.Tuple, ast.List)) and all(isinstance(e, ast.Constant) and isinstance(e.value, str) for e in v.elts):
                return [e.value for e in v.elts]
            raise TranslationError("%s.__identifier_fields__ is not a literal tuple of strings" % cls.name)
    return None


def root_base_args(repo, table):
    """constructor parameters of the bases of NonLinearSearch: autoconf.dictable.get_arguments follows
    `__bases__` while the class accepts **kwargs, so they are persisted keys too"""
    root = table[ROOT_CLASS][0]
    rs = _init_sig(root, table[ROOT_CLASS][1])
    if rs is None or not rs["varkw"]:
        return []
    out = []
    for b in _base_names(root):
        if b not in ROOT_BASES:
            raise TranslationError("%s has an unexpected base class %s" % (ROOT_CLASS, b))
        rel = ROOT_BASES[b]
        if rel is None:
            continue   # abc.ABC: object.__init__, no named parameters
        tree = ast.parse(open(os.path.join(repo, rel)).read())
        cls = [n for n in tree.body if isinstance(n, ast.ClassDef) and n.name == b]
        if len(cls) != 1:
            raise TranslationError("%s not found in %s" % (b, rel))
        if any(x not in ("ABC", "object") for x in _base_names(cls[0])):
            raise TranslationError("%s has bases of its own" % b)
        inits = [x for x in cls[0].body if isinstance(x, ast.FunctionDef) and x.name == "__init__"]
        if len(inits) != 1:
            raise TranslationError("%s.__init__ not found" % b)
        a = inits[0].args
        if a.kwarg is not None or a.vararg is not None or a.posonlyargs:
            raise TranslationError("%s.__init__ takes *args/**kwargs" % b)
        out += [x.arg for x in a.args[1:]] + [x.arg for x in a.kwonlyargs]
    return out


def search_classes(repo):
    table = _class_table(repo)
    if ROOT_CLASS not in table:
        raise TranslationError("%s not found" % ROOT_CLASS)
    base_args = root_base_args(repo, table)

    def lineage(name, seen=()):
        """names from `name` up to NonLinearSearch following the first base that leads there"""
        if name == ROOT_CLASS:
            return [name]
        if name not in table or name in seen:
            return None
        for b in _base_names(table[name][0]):
            up = lineage(b, seen + (name,))
            if up:
                return [name] + up
        return None

    out = []
    for name in sorted(table):
        if name == ROOT_CLASS or name.startswith("Abstract"):
            continue
        lin = lineage(name)
        if not lin:
            continue
        chain, fields = [], None
        for n in lin:
            cls, rel = table[n]
            if fields is None:
                fields = _identifier_fields(cls)
            sg = _init_sig(cls, rel)
            if sg is not None:
                chain.append(sg)
        if not chain or chain[-1]["cls"] != ROOT_CLASS:
            raise TranslationError("chain of %s does not end in %s.__init__" % (name, ROOT_CLASS))
        if chain[-1]["super_kw"] or chain[-1]["forwards"]:
            raise TranslationError("%s.__init__ passes arguments to super().__init__" % ROOT_CLASS)
        out.append({"name": name, "fields": fields or [], "chain": chain, "base_args": base_args})
    if not out:
        raise TranslationError("no concrete search class found")
    return out


def grid_id_uses_folder(repo):
    tree = ast.parse(open(os.path.join(repo, SEARCH_OUTPUT)).read())
    cls = [n for n in tree.body if isinstance(n, ast.ClassDef) and n.name == "GridSearchOutput"]
    if len(cls) != 1:
        raise TranslationError("GridSearchOutput not found")
    fns = [x for x in cls[0].body if isinstance(x, ast.FunctionDef) and x.name == "id"]
    if len(fns) != 1:
        raise TranslationError("GridSearchOutput.id not found")
    rets = [n for n in ast.walk(fns[0]) if isinstance(n, ast.Return)]
    if len(rets) != 1 or rets[0].value is None:
        raise TranslationError("GridSearchOutput.id does not have exactly one return")
    src = ast.unparse(rets[0].value)
    if src == "self.unique_tag":
        # and unique_tag must be the marker text
        ut = [x for x in cls[0].body if isinstance(x, ast.FunctionDef) and x.name == "unique_tag"]
        if len(ut) != 1 or ".is_grid_search" not in ast.unparse(ut[0]) or "f.read()" not in ast.unparse(ut[0]):
            raise TranslationError("GridSearchOutput.unique_tag no longer reads the .is_grid_search marker")
        return False, src
    if src in ("self.directory.name", "str(self.directory.name)"):
        return True, src
    raise TranslationError("GridSearchOutput.id returns an unrecognised expression: %s" % src)


FIT_MODEL = "autofit/database/model/fit.py"


def info_variant(repo):
    """how Fit.info's setter stores a value: 'plain' (value handed to the String column as it is) or
    'containers-as-json' (dict/list/tuple values json-encoded first).  Fail closed on anything else."""
    tree = ast.parse(open(os.path.join(repo, FIT_MODEL)).read())
    cls = [n for n in tree.body if isinstance(n, ast.ClassDef) and n.name == "Fit"]
    if len(cls) != 1:
        raise TranslationError("class Fit not found in %s" % FIT_MODEL)
    setters = [x for x in cls[0].body if isinstance(x, ast.FunctionDef) and x.name == "info"
               and any(ast.unparse(d) == "info.setter" for d in x.decorator_list)]
    if len(setters) != 1:
        raise TranslationError("Fit.info setter not found")
    src = ast.unparse(setters[0])
    if "Info(key=key, value=value)" in src and "json.dumps" not in src:
        return "plain"
    if "json.dumps(value) if isinstance(value, (dict, list, tuple)) else value" in src:
        return "containers-as-json"
    raise TranslationError("Fit.info setter has an unrecognised body")


INFO_VARIANT = {"v": "plain"}


def best_fit_variant(repo):
    """which Fit.best_fit the tree has: 'as-written' (start value -inf, strict `>` on every child) or 'skips-none'
    (children whose max_log_likelihood `is None` are skipped and no -inf start value is used: the proposed repair).
    Only selects which MODEL the correspondence compares with; the oracle does not depend on it."""
    tree = ast.parse(open(os.path.join(repo, FIT_MODEL)).read())
    for cls in [n for n in tree.body if isinstance(n, ast.ClassDef) and n.name == "Fit"]:
        for fn in [n for n in cls.body if isinstance(n, ast.FunctionDef) and n.name == "best_fit"]:
            src = ast.unparse(fn)
            skips = any(isinstance(n, ast.If) and "max_log_likelihood is None" in ast.unparse(n.test)
                        and any(isinstance(b, ast.Continue) for b in n.body) for n in ast.walk(fn))
            if skips and "best_fit is None or" in src and "inf" not in src:
                return "skips-none"
    return "as-written"


BEST_FIT_VARIANT = {"v": "as-written"}


def generate(repo, outfile):
    classes = search_classes(repo)
    uf, src = grid_id_uses_folder(repo)
    lines = [
        "(* GENERATED by harness/vcheck/c11.py from /repo -- do not edit. *)",
        "(* C11: constructor signatures of the concrete search classes; how GridSearchOutput.id is computed *)",
        "From Coq Require Import List String Bool.",
        "From PAFC11 Require Import Lib.",
        "Import ListNotations.",
        "Open Scope string_scope.",
        "Open Scope list_scope.",
        "",
        "(* %s: GridSearchOutput.id returns `%s` *)" % (SEARCH_OUTPUT, src),
        "Definition gs_id_uses_folder : bool := %s." % ("true" if uf else "false"),
        "",
    ]
    names = []
    for c in classes:
        sigs = []
        for s in c["chain"]:
            lines.append("(* %s:%d %s.__init__ *)" % (s["file"], s["line"], s["cls"]))
            sigs.append("{| s_class := %s; s_params := %s; s_varkw := %s; s_super_kw := %s; s_forwards := %s; s_pops := %s |}" % (
                _cstr(s["cls"]), _clist(s["params"]), "true" if s["varkw"] else "false", _clist(s["super_kw"]),
                "true" if s["forwards"] else "false", _clist(s["pops"])))
        ident = "sc_" + c["name"]
        names.append(ident)
        lines.append("Definition %s : search_class :=\n  {| sc_name := %s; sc_fields := %s;\n     sc_chain := [\n       %s ];\n     sc_base_args := %s |}." % (
            ident, _cstr(c["name"]), _clist(c["fields"]), ";\n       ".join(sigs), _clist(c["base_args"])))
        lines.append("")
    lines.append("Definition search_classes : list search_class := [%s]." % "; ".join(names))
    text = "\n".join(lines) + "\n"
    old = open(outfile).read() if os.path.exists(outfile) else None
    if old != text:
        os.makedirs(os.path.dirname(outfile), exist_ok=True)
        with open(outfile, "w") as f:
            f.write(text)
    return {"classes": classes, "gs_id_uses_folder": uf, "gs_id_source": src}


def regenerate(repo=None):
    from . import common
    return generate(repo or common.REPO, os.path.join(common.COQ, "C11", "Gen.v"))


# ---------------------------------------------------------------------------
# check
# ---------------------------------------------------------------------------
import hashlib  # noqa: E402
import json  # noqa: E402
import struct  # noqa: E402

from . import common  # noqa: E402
from .common import cZ, cnat, cbool, clist, copt, cstr, cpair  # noqa: E402

REAL_CLASSES = ["LBFGS", "BFGS", "DynestyStatic", "PySwarmsGlobal", "PySwarmsLocal", "Drawer"]
STD_JSONS = ("info", "search", "model", "samples_summary", "samples_info")


def digest(obj):
    return hashlib.sha1(json.dumps(obj, sort_keys=True, default=str).encode()).hexdigest()[:16]


def unhex(s):
    return float(s) if s in ("nan", "inf", "-inf") else float.fromhex(s)


def fkey(x):
    """order-preserving integer key of a binary64 value (-0.0 and 0.0 share key 0)"""
    if isinstance(x, str):
        x = unhex(x)
    bits = struct.unpack(">q", struct.pack(">d", float(x)))[0]
    return bits if bits >= 0 else -(bits & 0x7FFFFFFFFFFFFFFF)


def vec_str(hexes):
    return ",".join(hexes)


def hexf(x):
    return float(x).hex()


# ----- generator -----------------------------------------------------------

def dy(rng, lo=0, hi=8, den=8):
    return rng.randint(lo, hi) / den


def gen_prior(rng):
    r = rng.random()
    if r < 0.5:
        lo = dy(rng, -8, 4)
        return ["U", lo, lo + dy(rng, 1, 16)]
    if r < 0.8:
        return ["G", dy(rng, -8, 8), dy(rng, 1, 8)]
    return ["L", dy(rng, 1, 4), 1.0 + dy(rng, 1, 16)]


def gen_model(rng, allow_arith=False, need_shared=0, plain=False):
    """Abstract model spec (see impl/c11_impl.build_model). Returns (spec, number of free parameters)."""
    shared = [["U", 0.0, 1.0] for _ in range(need_shared)]
    if rng.random() < 0.4 and not need_shared:
        shared = [gen_prior(rng) for _ in range(rng.randint(1, 2))]
    used_shared = set()
    free = [0]

    def prior(depth=0):
        r = rng.random()
        if shared and r < 0.3:
            k = rng.randrange(len(shared))
            used_shared.add(k)
            return ["S", k]
        if r < 0.42:
            return ["C", dy(rng, -8, 8)]
        free[0] += 1
        return gen_prior(rng)

    def comp(depth=0):
        c = comp0(depth)
        if comp_free(c) == 0 and (plain or rng.random() < 0.93):
            # a component without any free parameter is its own (rare) class of the stream
            ks = sorted(a for a, p in c["args"].items() if p[0] == "C")
            free[0] += 1
            if ks:
                c["args"][ks[0]] = gen_prior(rng)
            else:
                for p in c["args"].values():
                    if p[0] == "T":
                        p[1][0] = gen_prior(rng)
                        break
        return c

    def comp0(depth=0):
        cls = rng.choice(["K1", "K2", "K2", "K3", "KT", "KN"] if depth == 0 else ["K1", "K2"])
        args = {}
        if cls == "K1":
            args["u"] = prior()
        elif cls == "K2":
            args["a"], args["b"] = prior(), prior()
        elif cls == "K3":
            args["x"], args["y"], args["z"] = prior(), prior(), prior()
        elif cls == "KT":
            args["c"] = prior()
            args["pos"] = ["T", [prior(), prior()]]
        elif cls == "KN":
            args["inner"] = ["M", comp(depth + 1)]
            args["s"] = prior()
        return {"cls": cls, "args": args}

    ncomp = rng.choice([1, 1, 2, 2, 3])
    collection = ncomp > 1 or rng.random() < 0.5 or bool(need_shared)
    comps = []
    for i in range(ncomp):
        c = comp()
        c["name"] = "g%d" % i
        comps.append(c)
    if not collection and comps[0]["cls"] in ("KT", "KN") and (plain or rng.random() < 0.85):
        collection = True
    # every shared prior demanded by a grid must appear in the model
    for k in range(need_shared):
        if k not in used_shared:
            comps.append({"name": "h%d" % k, "cls": "K1", "args": {"u": ["S", k]}})
            used_shared.add(k)
    spec = {"collection": collection, "shared": shared, "comps": comps}
    arith = False
    if allow_arith and shared and used_shared:
        k = sorted(used_shared)[0]
        comps.append({"name": "ar", "cls": "K1", "args": {"u": ["A", k, 1.0]}})
        spec["collection"] = True
        arith = True
    nfree = free[0] + len(used_shared)
    if nfree == 0:
        comps.append({"name": "z", "cls": "K1", "args": {"u": ["U", 0.0, 1.0]}})
        spec["collection"] = True
        nfree = 1
    if not spec["collection"] and len(comps) > 1:
        spec["collection"] = True
    return spec, nfree, arith


def gen_script(rng, interrupt=None):
    n = rng.choice([1, 2, 3, 3, 4, 6])
    vectors = [[dy(rng, 0, 8) for _ in range(12)] for _ in range(n)]
    pool = [0.0 - dy(rng, 0, 32, 4) for _ in range(max(1, n - rng.randint(0, 2)))]  # ties are likely (never -0.0)
    logl = [rng.choice(pool) for _ in range(n)]
    # log priors chosen so that the maximum-posterior sample is often not the maximum-likelihood sample
    logp = [rng.choice([0.0, -0.5, -16.0]) for _ in range(n)]
    return {"vectors": vectors, "logl": logl, "logp": logp, "interrupt": interrupt}


def gen_fit(rng, idx, kind="single", real=None, allow_arith=False, plain=False):
    plain = plain or kind == "grid"     # grid searches use plain model shapes (their cells inherit the shape)
    tag = rng.choice([None, "t1", "t1", "t2", "data_7"])
    prefix = rng.choice([None, "pp", "pp", "pp/qq"])
    grid = None
    need_shared = 0
    if kind == "grid":
        dims = rng.choice([1, 1, 2])
        need_shared = dims
        grid = {"steps": 2, "shared": list(range(dims))}
    model, nfree, arith = gen_model(rng, allow_arith=allow_arith, need_shared=need_shared, plain=plain or real is not None)
    interrupt = None
    if kind == "single" and real is None and rng.random() < 0.3:
        interrupt = rng.choice(["before_samples", "after_samples"])
    info = rng.choice([None, {}, {"k": "v"}, {"dataset": "d%d" % idx, "note": "x y"}])
    if not plain and real is None and kind == "single" and rng.random() < 0.12:
        # values that are not strings: scalars lose their type in the info table; containers cannot be stored
        info = rng.choice([{"n": idx + 3, "x": 0.5, "flag": True}, {"exposure": -2.25, "none": None, "s": "t"},
                           {"n": 7}, {"d": {"a": 1}, "k": "v"}, {"l": [1, 2]}])
    f = {
        "type": "grid" if kind == "grid" else "single",
        "name": "%s%d" % ("g" if kind == "grid" else "s", idx),
        "tag": tag, "prefix": prefix,
        "search": {"cls": real or "Scripted", "script_id": idx, "flavour": rng.choice(["a", "b"])},
        "model": model, "info": info,
        "layout": rng.choice(["zip", "folder", "both", "both", "zip+partial", "zip+stale"]) if (kind == "single" and real is None)
                  else rng.choice(["zip", "folder", "both"]),
        "n_analyses": rng.choice([1, 1, 1, 2, 3]) if (kind == "single" and real is None) else 1,
        "scripts": [gen_script(rng, interrupt)],
        "nfree": nfree, "arith": arith,
    }
    if f["layout"] == "zip+partial":
        # what a kill during the removal of the folder (after zipping) or during restore() can leave behind
        cand = ["metadata", ".completed", ".identifier", "files/model.json", "files/search.json", "files/samples.csv",
                "files/samples_info.json", "files/samples_summary.json", "files/info.json", "files", "model.info"]
        f["delete"] = sorted(rng.sample(cand, rng.randint(1, 5)))
    if kind == "single" and real is None:
        f["latent"] = rng.random() < 0.25
        f["hdu"] = rng.random() < 0.25
    if kind == "grid":
        f["grid"] = grid
        ncell = 2 ** len(grid["shared"])
        f["scripts"] = [gen_script(rng) for _ in range(ncell)]
        if rng.random() < 0.25:
            f["scripts"][-1]["interrupt"] = "after_samples"
    return f


# ----- likelihood profiles of the cells of a grid search ------------------------------------------------
# The best fit of a grid search is "the cell with the highest likelihood": the profiles put that cell at every
# sign (exactly 0.0 above negatives, 0.0 below a positive, all positive, mixed), make cells tie (at 0.0 and
# elsewhere), use -inf (the figure of merit of a failed evaluation) in some or in all cells, and leave the last
# cell without samples (killed before its first update: its database fit has no likelihood at all).
NEG_INF = float("-inf")
GRID_PROFILES = ["zero-best", "zero-below-positive", "zero-tie", "tie", "signed", "all-positive", "minus-inf-some",
                 "zero-above-minus-inf", "minus-inf-all", "cell-without-samples", "cell-without-samples-zero-best"]


def cell_tops(rng, profile, ncell):
    """the maximum log likelihood of every cell, in the order the grid search runs them"""
    def neg():
        return 0.0 - dy(rng, 1, 32, 4)

    def pos():
        return dy(rng, 1, 32, 4)

    def signed():
        return rng.choice([neg(), neg(), pos(), pos(), 0.0])
    if profile == "zero-best":
        tops = [0.0] + [neg() for _ in range(ncell - 1)]
    elif profile == "zero-below-positive":
        tops = [0.0, pos()] + [signed() for _ in range(ncell - 2)]
    elif profile == "zero-tie":
        tops = [0.0, 0.0] + [neg() for _ in range(ncell - 2)]
    elif profile == "tie":
        v = rng.choice([neg(), pos()])
        tops = [v, v] + [v - dy(rng, 1, 16, 4) for _ in range(ncell - 2)]
    elif profile == "signed":
        tops = [signed() for _ in range(ncell)]
    elif profile == "all-positive":
        tops = [pos() for _ in range(ncell)]
    elif profile == "minus-inf-some":
        tops = [NEG_INF, signed()] + [rng.choice([NEG_INF, signed()]) for _ in range(ncell - 2)]
    elif profile == "zero-above-minus-inf":
        tops = [0.0] + [NEG_INF] * (ncell - 1)
    elif profile == "minus-inf-all":
        tops = [NEG_INF] * ncell
    elif profile == "cell-without-samples":
        tops = [signed() for _ in range(ncell)]
    elif profile == "cell-without-samples-zero-best":
        tops = [0.0] + [neg() for _ in range(ncell - 1)]
    else:
        raise ValueError(profile)
    if profile.startswith("cell-without-samples"):
        head = tops[:-1]
        rng.shuffle(head)
        return head + tops[-1:]      # the last cell is the one that never got samples
    rng.shuffle(tops)
    return tops


def cell_script(rng, top, interrupt=None):
    n = rng.choice([1, 2, 2, 3])
    logl = [top] + [top - dy(rng, 1, 32, 4) for _ in range(n - 1)]    # (-inf - x = -inf)
    rng.shuffle(logl)
    return {"vectors": [[dy(rng, 0, 8) for _ in range(12)] for _ in range(n)], "logl": logl,
            "logp": [rng.choice([0.0, -0.5]) for _ in range(n)], "interrupt": interrupt}


def gen_profile_grid(rng, idx, profile):
    """a grid search whose cells follow one likelihood profile"""
    g = gen_fit(rng, idx, kind="grid")
    if profile in ("zero-tie", "tie", "minus-inf-some", "zero-below-positive") or profile.startswith("cell-without-samples"):
        while len(g["scripts"]) < 4 and rng.random() < 0.7:
            g = gen_fit(rng, idx, kind="grid")
    tops = cell_tops(rng, profile, len(g["scripts"]))
    g["scripts"] = [cell_script(rng, t) for t in tops]
    if profile.startswith("cell-without-samples"):
        g["scripts"][-1]["interrupt"] = "before_samples"
    g["profile"] = profile
    return g


def grid_labels(f):
    """labels (from the case) of the two recorded defects of Fit.best_fit"""
    out = set()
    if f.get("type") != "grid":
        return out
    if any(sc_.get("interrupt") == "before_samples" for sc_ in f["scripts"]):
        out.add("grid:cell-without-likelihood")
    if all(sc_.get("interrupt") != "before_samples" and max(sc_["logl"]) == NEG_INF for sc_ in f["scripts"]):
        out.add("grid:all-cells-minus-inf")
    return out


PREFIT_STAGES = ["model_info", "info", "info_partial", "info_unserialisable", "search", "search_partial",
                 "model", "model_partial", "metadata"]
STAGE_COQ = {"model_info": "AtModelInfo", "info": "AtInfo", "info_partial": "AtInfoPartial", "info_unserialisable": "AtInfoPartial",
             "search": "AtSearch", "search_partial": "AtSearchPartial", "model": "AtModel", "model_partial": "AtModelPartial",
             "metadata": "AtMetadata"}
TRUNCATING = ("info_partial", "info_unserialisable", "search_partial", "model_partial")


def gen_prefit_fit(rng, idx, stage, resume=False):
    """a scripted single fit whose pre-fit output (DirectoryPaths.save_all) is interrupted at `stage`"""
    f = gen_fit(rng, idx, plain=True)   # no model shape that is itself a recorded finding
    f["scripts"][0]["interrupt"] = None
    f["n_analyses"] = 1
    f["layout"] = "folder"
    f["name"] = "p%d" % idx
    if stage in ("info", "info_partial") or (f.get("info") is not None and not f["info"]):
        f["info"] = {"dataset": "d%d" % idx}
    f["prefit"] = {"stage": stage, "resume": resume}
    return f


SETTINGS_KW = {
    "Emcee": [{"nwalkers": 6, "nsteps": 4}, {"nwalkers": 12}],
    "Zeus": [{"nwalkers": 6}, {"tune": False}],
    "DynestyStatic": [{"nlive": 20}, {"nlive": 40, "sample": "rwalk", "walks": 7}],
    "DynestyDynamic": [{"bound": "single"}, {"walks": 9, "facc": 0.25}],
    "Nautilus": [{"n_live": 123}, {"n_networks": 2, "seed": 7}],
    "UltraNest": [{"ndraw_min": 17}, {"min_num_live_points": 77}],
    "PySwarmsGlobal": [{"n_particles": 4, "iters": 3}, {"cognitive": 0.25}],
    "PySwarmsLocal": [{"n_particles": 6}, {"number_of_k_neighbors": 2, "minkowski_p_norm": 1}],
    "Drawer": [{"total_draws": 5}, {"total_draws": 9}],
    "LBFGS": [{}, {"visualize": True}],
    "BFGS": [{}, {"visualize": True}],
}


def gen_settings(rng, classes, per_class):
    cases = []
    for cls in classes:
        for k in range(per_class):
            kw = dict(rng.choice(SETTINGS_KW.get(cls, [{}]) + [{}]))
            if rng.random() < 0.4:
                kw["iterations_per_update"] = rng.choice([50, 100, 777])
            if rng.random() < 0.3 and cls not in ("Drawer",):
                kw["number_of_cores"] = rng.choice([1, 2])
            if rng.random() < 0.3 and cls not in ("PySwarmsLocal",):
                kw["initializer"] = rng.choice(["ball", "prior"])
            cases.append({"kind": "settings", "cls": cls, "kwargs": kw,
                          "name": rng.choice(["n", "fit_a", "x1"]), "tag": rng.choice([None, "t1", "data_7"]),
                          "prefix": rng.choice([None, "pp", "pp/qq"])})
    return cases


def gen_cases(ctx, classes):
    rng = ctx.rng
    thorough = ctx.tier == "thorough"
    cases = [{"kind": "classes"}]
    cases += gen_settings(rng, classes, 4 if not thorough else 14)
    nf, nd = (7, 7) if not thorough else (40, 40)
    scen = []
    # (1) scripted single fits: CFits
    for k in range(nf):
        n = rng.randint(2, 4)
        fits = [gen_fit(rng, i, allow_arith=thorough and rng.random() < 0.05) for i in range(n)]
        if thorough and rng.random() < 0.3:
            fits.append(gen_prefit_fit(rng, n, rng.choice(PREFIT_STAGES)))
        scen.append({"kind": "scenario", "flavour": "fits", "fits": fits, "completed_only": rng.random() < 0.3})
    # (1b) one scenario per model class that is a recorded finding, always present
    specials = {
        "fixed": {"collection": True, "shared": [], "comps": [{"name": "g0", "cls": "K2", "args": {"a": ["C", 0.25], "b": ["C", 1.5]}},
                                                                {"name": "g1", "cls": "K1", "args": {"u": ["U", 0.0, 1.0]}}]},
        "arith": {"collection": True, "shared": [["U", 0.0, 1.0]], "comps": [{"name": "g0", "cls": "K2", "args": {"a": ["S", 0], "b": ["A", 0, 1.0]}}]},
        "nested": {"collection": False, "shared": [], "comps": [{"name": "g0", "cls": "KT", "args": {"c": ["U", 0.0, 1.0], "pos": ["T", [["U", 0.0, 1.0], ["G", 0.0, 1.0]]]}}]},
    }
    for j, (nm, model) in enumerate(sorted(specials.items())):
        f = gen_fit(rng, 0)
        f.update({"model": model, "nfree": 3, "arith": nm == "arith", "n_analyses": 1, "name": "sp_" + nm})
        f["scripts"][0]["interrupt"] = None
        g = gen_fit(rng, 1)
        scen.append({"kind": "scenario", "flavour": "fits", "fits": [f, g], "completed_only": False})
    # (1c) fits whose pre-fit output was interrupted at every point of save_all, beside healthy fits
    stages = list(PREFIT_STAGES)
    rng.shuffle(stages)
    groups = [stages[:5], stages[5:]] if not thorough else [[st] for st in stages] + [stages[:4], stages[4:]]
    for grp in groups:
        fits = [gen_fit(rng, 0, plain=True)] + [gen_prefit_fit(rng, i + 1, st) for i, st in enumerate(grp)]
        if rng.random() < 0.7:
            fits.append(gen_fit(rng, len(fits), plain=True))
        for f in (fits[0], fits[-1]):
            if not f.get("prefit"):
                f["scripts"][0]["interrupt"] = None
        rng.shuffle(fits)
        scen.append({"kind": "scenario", "flavour": "fits", "fits": fits, "completed_only": rng.random() < 0.2})
    # (1d) the same interruption hitting a fit that is being RESUMED (metadata exists from the earlier run)
    for st in (["search", "info_unserialisable"] if not thorough else PREFIT_STAGES):
        fits = [gen_fit(rng, 0, plain=True), gen_prefit_fit(rng, 1, st, resume=True)]
        fits[0]["scripts"][0]["interrupt"] = None
        scen.append({"kind": "scenario", "flavour": "dir", "fits": fits, "completed_only": False})
    # (1g) a complete archive beside a partial / stale / identical / absent folder (and a folder without archive)
    for variant in range(2 if not thorough else 6):
        fits = []
        for i, (lay, dele) in enumerate([("zip+partial", ["files/model.json", ".completed"] if variant % 2 == 0 else ["metadata", "files/samples.csv"]),
                                         ("zip+stale", None), ("both", None), ("zip", None), ("folder", None), ("zip+partial", None)]):
            f = gen_fit(rng, i, plain=True)
            f["scripts"][0]["interrupt"] = None
            f["layout"] = lay
            if lay == "zip+partial":
                cand = ["metadata", ".completed", ".identifier", "files/model.json", "files/search.json", "files/samples.csv",
                        "files/samples_info.json", "files/info.json", "files"]
                f["delete"] = dele or sorted(rng.sample(cand, rng.randint(1, 4)))
            fits.append(f)
        rng.shuffle(fits)
        scen.append({"kind": "scenario", "flavour": "fits", "fits": fits[: (4 if variant % 2 == 0 else 6)], "completed_only": variant % 3 == 2,
                     "shape": "archive-beside-folder"})
    # (1e) info values that are not strings (recorded findings: type loss; containers abort the load)
    import copy as _copy
    for info in ([{"n": 3, "x": 0.5, "flag": True, "none": None, "s": "t"}, {"d": {"a": 1}, "l": [1, 2], "k": "v"}]
                 + ([{"exposure": -2.25}, {"l": [1, 2]}, {"flag": False, "n": -1}] if thorough else [])):
        f, g = gen_fit(rng, 0, plain=True), gen_fit(rng, 1, plain=True)
        f["info"] = info
        f["scripts"][0]["interrupt"] = None
        f["n_analyses"] = 1
        scen.append({"kind": "scenario", "flavour": "fits", "fits": [f, g], "completed_only": False, "shape": "info-values"})
    # (1f) shapes of the model's branches that random generation does not reach
    #  - a fit WITH analyses children lying in the directory twice: clean IntegrityError, nothing committed
    f = gen_fit(rng, 0, plain=True)
    f.update({"n_analyses": 2, "layout": "folder"})
    f["scripts"][0]["interrupt"] = None
    scen.append({"kind": "scenario", "flavour": "dir", "fits": [f, gen_fit(rng, 1, plain=True)], "completed_only": False,
                 "copies": [{"fit": 0, "to": "copy"}], "expect": "IntegrityError-on-copy", "shape": "copy-with-children", "direct": False})
    #  - two different fits written under ONE identifier (same search, model, tag; another name): "Fit already existed"
    f = gen_fit(rng, 0, plain=True)
    f["n_analyses"] = 1
    g = _copy.deepcopy(f)
    g["name"] = "other_name"
    g["scripts"] = [gen_script(rng)]
    g["layout"] = "folder"
    scen.append({"kind": "scenario", "flavour": "dir", "fits": [f, g, gen_fit(rng, 2, plain=True)], "completed_only": False,
                 "shape": "two-fits-one-identifier", "direct": False})
    #  - completed_only with an unfinished grid search (its last cell was interrupted)
    g = gen_fit(rng, 0, kind="grid")
    for sc_ in g["scripts"]:
        sc_["interrupt"] = None
    g["scripts"][-1]["interrupt"] = "after_samples"
    scen.append({"kind": "scenario", "flavour": "dir", "fits": [g, gen_fit(rng, 1, plain=True)], "completed_only": True,
                 "shape": "unfinished-grid-completed-only"})
    #  - two directories loaded one after the other into one database (the second finds fits already there)
    for k in range(1 if not thorough else 4):
        fa = [gen_fit(rng, i, plain=True, kind="grid" if (i == 0 and rng.random() < 0.5) else "single") for i in range(2)]
        fb = [gen_fit(rng, i + 2, plain=True) for i in range(rng.randint(1, 2))]
        for f in fa:
            f["prefix"] = "A/" + (f["prefix"] or "p")
        for f in fb:
            f["prefix"] = "B/" + (f["prefix"] or "p")
        if k % 2 == 1:
            h = _copy.deepcopy(fa[-1]) if fa[-1]["type"] == "single" and fa[-1]["n_analyses"] == 1 else None
            if h:
                h["prefix"] = "B/again"
                h["name"] = "again"
                fb.append(h)      # same identifier as a fit of A: refreshed, not duplicated
        scen.append({"kind": "scenario", "flavour": "dir", "fits": fa + fb, "completed_only": False, "two_dirs": True,
                     "shape": "two-directories", "direct": False})
    # (2) directories with grid searches / real search classes / copies: CDir
    for k in range(nd):
        fits = []
        r = rng.random()
        if k == 0:
            fits = [gen_fit(rng, i, real=c) for i, c in enumerate(["LBFGS", "DynestyStatic", "PySwarmsGlobal"])]
        elif k == 1:
            fits = [gen_fit(rng, 0, real="Drawer"), gen_fit(rng, 1)]
        elif k == 2:
            # two grid searches sharing their unique tag (the usual case: one dataset, two models)
            a, b = gen_fit(rng, 0, kind="grid"), gen_fit(rng, 1, kind="grid")
            b["tag"] = a["tag"]
            fits = [a, b]
        elif r < 0.5:
            fits = [gen_fit(rng, 0, kind="grid")] + [gen_fit(rng, i + 1) for i in range(rng.randint(0, 2))]
        elif r < 0.75:
            fits = [gen_fit(rng, 0, kind="grid"), gen_fit(rng, 1, kind="grid")] + [gen_fit(rng, 2)]
        elif r < 0.9:
            fits = [gen_fit(rng, i, real=rng.choice(REAL_CLASSES[:5])) for i in range(2)] + [gen_fit(rng, 2)]
        else:
            fits = [gen_fit(rng, i) for i in range(rng.randint(1, 3))]
        sc = {"kind": "scenario", "flavour": "dir", "fits": fits, "completed_only": rng.random() < 0.25}
        if k >= 3 and rng.random() < 0.2:
            # (a copied fit with analyses children makes add_directory raise IntegrityError on the children's ids:
            #  the model predicts it; the docstring of add_directory excludes adding the same results twice)
            singles = [i for i, f in enumerate(fits) if f["type"] == "single" and f["search"]["cls"] == "Scripted"
                       and f.get("n_analyses", 1) == 1]
            if singles:
                sc["copies"] = [{"fit": rng.choice(singles), "to": "copy"}]
        scen.append(sc)
    # (3) grid searches whose cells follow each likelihood profile (best cell exactly 0.0, positive, ties, -inf,
    #     a cell without samples): every profile in every run
    for rep in range(1 if not thorough else 4):
        for j, profile in enumerate(GRID_PROFILES):
            fits = [gen_profile_grid(rng, 0, profile)]
            if rng.random() < 0.3:
                fits.append(gen_profile_grid(rng, 1, rng.choice(GRID_PROFILES[:8])))
            elif rng.random() < 0.3:
                fits.append(gen_fit(rng, 1, plain=True))
            scen.append({"kind": "scenario", "flavour": "dir", "fits": fits, "completed_only": thorough and rng.random() < 0.15,
                         "shape": "grid-profile:" + profile})
    for sc_ in scen:
        if not sc_.get("two_dirs"):
            sc_["disk_view"] = True
    return cases + scen


# ----- classes of a case (for known findings) ---------------------------------

def comp_free(c):
    """number of prior slots (free or shared or arithmetic) of a component spec, recursively"""
    n = 0
    for p in c["args"].values():
        if p[0] in ("U", "G", "L", "S", "A"):
            n += 1
        elif p[0] == "T":
            n += sum(1 for q in p[1] if q[0] in ("U", "G", "L", "S", "A"))
        elif p[0] == "M":
            n += comp_free(p[1])
    return n


def comps_all(c):
    yield c
    for p in c["args"].values():
        if p[0] == "M":
            yield from comps_all(p[1])


def model_labels(spec):
    out = set()
    for c in spec["comps"]:
        for cc in comps_all(c):
            # a parameter-free component is written to model.json as an *instance* when its constructor can rebuild it
            # exactly (since 0b56c35: not when it holds a tuple); only then do the identifier tokens change on reload
            if comp_free(cc) == 0 and cc["cls"] != "KT":
                out.add("model:fixed-component")
            if any(p[0] == "A" for p in cc["args"].values()):
                out.add("model:arith-prior")
    if not spec.get("collection", True) and spec["comps"][0]["cls"] in ("KT", "KN"):
        out.add("model:single-model-with-nested")
    return out


def fit_labels(f):
    """labels of ONE fit spec (each label names a recorded finding class)"""
    out = set(model_labels(f["model"])) | info_labels(f.get("info")) | grid_labels(f)
    if f["search"]["cls"] != "Scripted":
        out.add("search-class:" + f["search"]["cls"])
    pf = f.get("prefit")
    if pf and pf.get("resume") and pf["stage"] in TRUNCATING:
        out.add("resumed-fit-truncated-json")
    if pf:
        out -= info_labels(f.get("info"))     # the info of an interrupted pre-fit output never reaches the database
    return out


def case_classes(c):
    if c["kind"] == "settings":
        return ["search-class:" + c["cls"]]
    if c["kind"] != "scenario":
        return []
    out = set()
    tags = []
    for f in c["fits"]:
        out |= fit_labels(f)
        if f["type"] == "grid":
            tags.append(f.get("tag"))
    if len(tags) != len(set(tags)):
        out.add("grid-searches-share-tag")
    return sorted(out)


# A failure is attributed to a finding class only when its MESSAGE is the one that class produces and,
# for per-fit messages, the fit named in the message carries the label.  Correspondence failures are
# never attributed: the model is faithful to the recorded defects too.
EXPECTED_FAILURE = {
    "model:fixed-component": (r"^fit written under ", True),
    "model:arith-prior": (r"^fit written under |^add_directory raised KeyError", True),
    "info:non-string-scalar": (r"^fit \w+: info ", True),
    # Fit.best_fit as written: a cell without likelihood makes it raise, cells all at -inf make it return None; the
    # message carries what the DATABASE shows (cells without likelihood / all cells at -inf), so nothing else matches
    "grid:cell-without-likelihood": (r"^grid search \S+ \[(directory|session) route\]: \S+ raised TypeError \([1-9]\d* of its \d+ cells hold no likelihood\)", True),
    "grid:all-cells-minus-inf": (r"^grid search \S+ \[(directory|session) route\]: \S+ returned None \(all its \d+ cells hold -inf\)", True),
    # (the classes of the findings repaired in /repo -- Drawer search.json, grid searches sharing a tag, re-run fit with a
    #  truncated json, container info values, single Model with nested paths -- explain nothing any more)
}


def attributable(c, ro, msg):
    """labels (of the case) that explain this oracle message"""
    import re
    if c["kind"] == "settings":
        return [l for l in case_classes(c) if l in EXPECTED_FAILURE and re.search(EXPECTED_FAILURE[l][0], msg)]
    out = []
    ids = {}
    for f, rec in zip(c["fits"], (ro or {}).get("fits", [])):
        for key in (rec.get("identifier"), f["name"]):
            if key:
                ids.setdefault(key, set()).update(fit_labels(f))
    m = re.match(r"^fit (?:written under )?(\w+)", msg)
    named = ids.get(m.group(1), set()) if m else None
    for l in case_classes(c):
        pat = EXPECTED_FAILURE.get(l)
        if not pat or not re.search(pat[0], msg):
            continue
        if msg.startswith("fit ") and (named is None or l not in named):
            continue
        out.append(l)
    return out


# ----- abstraction of implementation observations ----------------------------

def json_names(e):
    return sorted(e.get("json_digests", {}).keys())


def info_digest(info):
    return digest({str(k): v for k, v in info.items()}) if info else None


def held_value(v):
    """what the `info` table (a String column under SQLite's TEXT affinity) gives back for a scalar"""
    if isinstance(v, bool):
        return "1" if v else "0"
    if isinstance(v, int):
        return str(v)
    if isinstance(v, float):
        return repr(v)          # the generator uses short dyadic values only: SQLite renders them the same way
    if isinstance(v, (dict, list, tuple)):
        return json.dumps(v)    # only reached in the 'containers-as-json' variant of Fit.info
    return v                    # str, None


def info_container(info):
    """does the info dictionary hold a value the info table cannot take (code variant 'plain' only)?"""
    return (INFO_VARIANT["v"] == "plain" and isinstance(info, dict)
            and any(isinstance(v, (dict, list, tuple)) for v in info.values()))


def info_held_digest(info):
    if not info or not isinstance(info, dict) or info_container(info):
        return info_digest(info) if isinstance(info, dict) else None
    return info_digest({k: held_value(v) for k, v in info.items()})


def info_labels(info):
    out = set()
    if isinstance(info, dict) and info:
        if info_container(info):
            out.add("info:container-value")
        elif any(not isinstance(v, str) for v in info.values()):
            out.add("info:non-string-scalar")
    return out


def kv_str(kv):
    return ";".join("%s=%s" % (k, v) for k, v in sorted(kv))


def csv_kv(e, r):
    km = (e.get("recomputed") or {}).get("keymap") or {}
    return sorted([km.get(h, h), v] for h, v in r["raw"])


def samples_of(e):
    """[(vec, llkey, inst)] of an inspected folder or None"""
    if not e.get("samples"):
        return None
    insts = (e.get("recomputed") or {}).get("insts")
    rows = e["samples"]["rows"]
    return [(kv_str(csv_kv(e, r)), fkey(r["ll"]), insts[i] if insts else "") for i, r in enumerate(rows)]


def folder_of(e):
    rc = e.get("recomputed") or {}
    return {
        "path": e["rel"].split("/"),
        "metadata": e["metadata"], "completed": e["completed"], "marker": e["grid_marker"],
        "parent_file": e["parent_identifier"], "written_id": e.get("description_md5") or "",
        "cls": e.get("search_cls") or "", "keys": e.get("search_keys") or [],
        "name": e.get("search_name") if isinstance(e.get("search_name"), str) else "",
        "tag": e.get("search_tag") if isinstance(e.get("search_tag"), str) else None,
        "reload_id": rc.get("id") or "",
        "model": digest(rc["model"]) if rc.get("model") is not None else (e.get("model_digest") or ""),
        "info": info_digest(e["info"]) if isinstance(e.get("info"), dict) else None,
        "info_held": info_held_digest(e["info"]) if isinstance(e.get("info"), dict) else None,
        "samples": samples_of(e),
        "load_error": rc.get("load_error") or (rc.get("exc") if rc.get("exc") not in (None, "TypeError") else None)
                      or ("ProgrammingError" if info_container(e.get("info")) and e.get("metadata") else None),
        "jsons": json_names(e),
        "analyses": [sorted(a.get("json_digests", {}).keys()) for a in e.get("analyses", [])],
    }


def row_of(f):
    """observed database fit -> abstract row"""
    smp = None
    if isinstance(f.get("samples"), list):
        smp = [(kv_str(r["kv"]), fkey(r["ll"]), "") for r in f["samples"]]
    info = f.get("info")
    return {
        "id": f["id"], "name": f["name"], "tag": f["unique_tag"], "complete": f["is_complete"],
        "grid": bool(f["is_grid_search"]), "parent": f["parent_id"],
        "model": digest(f["model"]) if isinstance(f.get("model"), dict) else None,
        "info": info_digest(info) if isinstance(info, dict) else None,
        "samples": smp,
        "instance": f.get("instance_digest") if isinstance(f.get("instance_digest"), str) and not str(f.get("instance_digest")).startswith("exc:") else None,
        "maxll": None if f["max_log_likelihood"] is None else fkey(f["max_log_likelihood"]),
        "jsons": f["jsons"],
    }


# ----- Coq printers -----------------------------------------------------------------

def c_sample(s):
    return "{| s_vec := %s; s_ll := %s; s_inst := %s |}" % (cstr(s[0]), cZ(s[1]), cstr(s[2]))


def c_samples(l):
    return copt(l, lambda x: clist([c_sample(s) for s in x]))


def c_ostr(x):
    return copt(x, cstr)


def c_strs(l):
    return clist([cstr(x) for x in l])


def c_folder(f):
    return ("{| f_path := %s; f_metadata := %s; f_completed := %s; f_marker := %s; f_parent_file := %s; "
            "f_written_id := %s; f_class := %s; f_keys := %s; f_name := %s; f_tag := %s; f_reload_id := %s; "
            "f_model := %s; f_info := %s; f_info_held := %s; f_samples := %s; f_load_error := %s; f_jsons := %s; f_analyses := %s |}") % (
        c_strs(f["path"]), cbool(f["metadata"]), cbool(f["completed"]), c_ostr(f["marker"]), c_ostr(f["parent_file"]),
        cstr(f["written_id"]), cstr(f["cls"]), c_strs(f["keys"]), cstr(f["name"]), c_ostr(f["tag"]), cstr(f["reload_id"]),
        cstr(f["model"]), c_ostr(f["info"]), c_ostr(f.get("info_held")), c_samples(f["samples"]), c_ostr(f.get("load_error")), c_strs(f["jsons"]),
        clist([c_strs(a) for a in f["analyses"]]))


def c_row(r):
    return ("{| r_id := %s; r_name := %s; r_tag := %s; r_complete := %s; r_grid := %s; r_parent := %s; r_model := %s; "
            "r_info := %s; r_samples := %s; r_instance := %s; r_maxll := %s; r_jsons := %s |}") % (
        cstr(r["id"]), c_ostr(r["name"]), c_ostr(r["tag"]), copt(r["complete"], cbool), cbool(r["grid"]), c_ostr(r["parent"]),
        c_ostr(r["model"]), c_ostr(r["info"]), c_samples(r["samples"]), c_ostr(r["instance"]), copt(r["maxll"], cZ),
        c_strs(r["jsons"]))


def c_observed(sc):
    rows = clist([c_row(row_of(f)) for f in sc.get("fits", [])])
    if sc.get("exc"):
        return "(ObsRaised %s %s)" % (cstr(sc["exc"]), rows)
    return "(ObsLoaded %s)" % rows


DUMMY_ROW = {"id": "MISSING", "name": None, "tag": None, "complete": None, "grid": False, "parent": None, "model": None,
             "info": None, "samples": None, "instance": None, "maxll": None, "jsons": []}


def spec_of(f, rec, entry):
    """abstract fit_spec of a scripted single fit: from the CASE (what was asked), the identifier the code
    chose, and oracle values (search.json keys, recomputed identifier) read independently from the files."""
    n = rec.get("prior_count", f["nfree"])
    sc = f["scripts"][0]
    insts = rec.get("insts") or [""] * len(sc["vectors"])
    keys = rec.get("vec_keys") or ["p%d" % k for k in range(n)]
    samples = [(kv_str(list(zip(keys, [hexf(x) for x in v[:n]]))), fkey(ll), insts[i]) for i, (v, ll) in enumerate(zip(sc["vectors"], sc["logl"]))]
    if "model:arith-prior" in model_labels(f["model"]) and entry is not None and samples_of(entry) is not None:
        # the column names samples.csv gives to compound priors are not modelled (C07/C09): take them as found
        samples = samples_of(entry)
    na = f.get("n_analyses", 1)
    rc = (entry or {}).get("recomputed") or {}
    return {
        "prefix": f["prefix"].split("/") if f.get("prefix") else [],
        "tag": f.get("tag"), "name": f["name"], "id": rec.get("identifier") or "",
        "cls": (entry or {}).get("search_cls") or "ScriptedSearch", "keys": (entry or {}).get("search_keys") or [],
        "reload_id": rc.get("id") or "",
        "model": digest(rec["model"]), "info": info_digest(f.get("info")), "info_held": info_held_digest(f.get("info")),
        "stored_model": digest(rc["model"]) if rc.get("model") is not None else digest(rec["model"]),
        "load_error": rc.get("load_error") or ("ProgrammingError" if info_container(f.get("info")) else None),
        "samples": samples,
        "interrupt": ("(PreFit %s)" % STAGE_COQ[f["prefit"]["stage"]]) if f.get("prefit") else
                     {None: "NoInterrupt", "before_samples": "BeforeSamples", "after_samples": "AfterSamples"}[sc.get("interrupt")],
        "extra": (["attr_a0", "sub.deep"] + (["latent.samples_info"] if f.get("latent") and sc.get("interrupt") != "before_samples" else [])) if na == 1 else [],
        # children in the order the analyses folders are listed (the order the scraper numbers them in)
        "analyses": [["attr_a%s" % a["name"].split("_")[-1], "sub.deep"] for a in (entry or {}).get("analyses", [])] if na > 1 else [],
    }


def c_spec(s):
    return ("{| fs_prefix := %s; fs_tag := %s; fs_name := %s; fs_id := %s; fs_class := %s; fs_keys := %s; fs_reload_id := %s; "
            "fs_model := %s; fs_stored_model := %s; fs_load_error := %s; fs_info := %s; fs_info_held := %s; fs_samples := %s; fs_interrupt := %s; fs_extra_jsons := %s; fs_analyses := %s |}") % (
        c_strs(s["prefix"]), c_ostr(s["tag"]), cstr(s["name"]), cstr(s["id"]), cstr(s["cls"]), c_strs(s["keys"]), cstr(s["reload_id"]),
        cstr(s["model"]), cstr(s["stored_model"]), c_ostr(s["load_error"]), c_ostr(s["info"]), c_ostr(s["info_held"]), clist([c_sample(x) for x in s["samples"]]), s["interrupt"], c_strs(s["extra"]),
        clist([c_strs(a) for a in s["analyses"]]))


def spec_path(s):
    return s["prefix"] + ([s["tag"]] if s["tag"] is not None else []) + [s["name"], s["id"]]


def c_paths(paths):
    return clist([c_strs(p) for p in paths])


def coq_case(c, r):
    """(Coq term of type `case` or None, reason why there is none)"""
    if c["kind"] == "settings":
        if r.get("missing") or r.get("stage") in ("construct", "to_dict"):
            return None, "settings:" + str(r.get("stage") or "missing")
        return "CSettings %s %s %s" % (cstr(c["cls"]), c_strs(r.get("argument_keys", [])), cbool(r.get("stage") in ("ok", "identifier"))), None
    if c["kind"] != "scenario":
        return None, "not-a-case"
    entries = {e["rel"]: e for e in r["directory"]}
    unfaithful = []
    for f, rec in zip(c["fits"], r["fits"]):
        if model_labels(f["model"]) & {"model:fixed-component", "model:arith-prior"} and rec.get("output_path"):
            rel = rec["output_path"].split("/output/", 1)[-1].split("/")
            unfaithful.append(rel)
            unfaithful.append(["copy", rel[-1]])
    if c.get("two_dirs"):
        order = [p for p in r["scrape"]["walk_order"] if p in entries] + [p for p in entries if p not in r["scrape"]["walk_order"]]
        dir_a = [folder_of(entries[p]) for p in order if p.startswith("A/")]
        dir_b = [folder_of(entries[p]) for p in order if p.startswith("B/")]
        for fl in dir_a + dir_b:
            fl["path"] = fl["path"][1:]
        return "CDir2 %s %s %s %s %s" % (cbool(c.get("completed_only", False)), clist([c_folder(x) for x in dir_a]),
                                         clist([c_folder(x) for x in dir_b]), c_observed(r["scrape"]["first"]), c_observed(r["scrape"])), None
    if c["flavour"] == "fits" and not c.get("copies") and not any((f.get("prefit") or {}).get("resume") for f in c["fits"]):
        specs, found, direct = [], [], []
        dr = r.get("direct") or {}
        drows = {f["id"]: f for f in dr.get("fits", [])}
        druns = dr.get("fits_run", [])
        for i, (f, rec) in enumerate(zip(c["fits"], r["fits"])):
            if rec.get("exc") or not rec.get("identifier"):
                return None, "fit-not-written"
            pre = f["prefix"].split("/") if f.get("prefix") else []
            rel = "/".join(pre + ([f["tag"]] if f.get("tag") is not None else []) + [f["name"], rec["identifier"]])
            e = entries.get(rel)
            s = spec_of(f, rec, e)
            specs.append(s)
            found.append(c_folder(folder_of(e)) if e else c_folder(dict(folder_of({"rel": "MISSING", "metadata": False, "completed": False, "grid_marker": None, "parent_identifier": None}))))
            d = drows.get(rec["identifier"])
            drun = druns[i] if i < len(druns) else {"skipped": True}
            if (drun.get("skipped") or drun.get("exc") or f.get("prefit") or dr.get("exc")
                    or fit_labels(f) & {"model:arith-prior", "info:container-value"}
                    or (f.get("n_analyses", 1) > 1 and f["scripts"][0].get("interrupt"))):
                direct.append("None")
            else:
                direct.append("(Some %s)" % (c_row(row_of(d)) if d else c_row(DUMMY_ROW)))
        paths = ["/".join(spec_path(s)) for s in specs]
        walk = [paths.index(p) for p in r["scrape"]["walk_order"] if p in paths]
        walk += [i for i in range(len(paths)) if i not in walk]   # folders the aggregator did not visit (no metadata)
        return "CFits %s %s %s %s %s %s %s" % (cbool(c.get("completed_only", False)), clist([c_spec(s) for s in specs]),
                                               clist([cnat(i) for i in walk]), clist(found), c_observed(r["scrape"]), clist(direct),
                                               c_paths(unfaithful)), None
    # CDir: the directory as found by the independent inspection, in the aggregator's walk order
    order = [p for p in r["scrape"]["walk_order"] if p in entries]
    rest = [p for p in entries if p not in order]
    folders = [folder_of(entries[p]) for p in order + rest]
    best = []
    byp = r["scrape"].get("best_fits_by_parent", {})
    for f in r["scrape"].get("fits", []):
        if f["is_grid_search"]:
            bf = f.get("best_fit")
            obs = "ObsBestRaised" if (isinstance(bf, str) and bf.startswith("exc:")) else "ObsBestNone" if bf in ("none", None) else "(ObsBestId %s)" % cstr(bf)
            best.append("(%s, %s, %s)" % (cstr(f["id"]), obs, c_strs(byp.get(f["id"], []))))
    return "CDir %s %s %s %s %s %s" % (cbool(c.get("completed_only", False)), clist([c_folder(x) for x in folders]),
                                       c_observed(r["scrape"]), clist(best), c_paths(unfaithful),
                                       cbool(BEST_FIT_VARIANT["v"] == "skips-none")), None


def coq_disk_case(c, r):
    """CDisk term: archives and folders as they lay on disk before the load, each read on its own"""
    if c["kind"] != "scenario" or "directory_raw" not in r:
        return None
    raw = {e["rel"]: e for e in r["directory_raw"]}
    arch = {e["rel"]: e for e in r["directory_archives"]}
    vis = {e["rel"]: e for e in r["directory"]}
    order = [p for p in r["scrape"]["walk_order"] if p in vis] + [p for p in vis if p not in r["scrape"]["walk_order"]]
    ds = []
    for p in order:
        a, f = arch.get(p), raw.get(p)
        ds.append("{| d_archive := %s; d_folder := %s |}" % (copt(a, lambda e: c_folder(folder_of(e))), copt(f, lambda e: c_folder(folder_of(e)))))
    for p in list(arch) + list(raw):
        if p not in vis:
            return None   # (a folder without identifier, metadata or marker: invisible to the inspection of the extracted tree too)
    found = [c_folder(folder_of(vis[p])) for p in order]
    return "CDisk %s %s %s %s" % (cbool(c.get("completed_only", False)), clist(ds), clist(found), c_observed(r["scrape"]))


# ----- property oracle (independent of the Coq model) -------------------------------

def oracle_settings(c, r):
    if r.get("missing"):
        return "search class %s no longer exists" % c["cls"]
    if r.get("stage") != "ok":
        return "%s: search settings cannot be read back (%s at %s: %s)" % (c["cls"], r.get("exc"), r.get("stage"), r.get("msg", "")[:120])
    if r["reload_type"] != c["cls"]:
        return "%s reloaded as %s" % (c["cls"], r["reload_type"])
    if r["reload_tokens"] != r["live_tokens"]:
        return "%s: identifier tokens change on reload: %s -> %s" % (c["cls"], r["live_tokens"], r["reload_tokens"])
    if r["reload_id"] != r["live_id"]:
        return "%s: identifier %s recomputed as %s" % (c["cls"], r["live_id"], r["reload_id"])
    if r["reload_name"] != (c.get("name") or "") or r["reload_tag"] != c.get("tag"):
        return "%s: name/tag %r/%r reloaded as %r/%r" % (c["cls"], c.get("name"), c.get("tag"), r["reload_name"], r["reload_tag"])
    return None


def best_fit_errors(route, where, g, rows, st):
    """The best fit of grid search `g` (a database row) must be the cell with the highest likelihood, through every
    route the library offers: Fit.best_fit on the loaded fit, .best_fit on the fit the aggregator hands out, and
    aggregator.grid_searches().best_fits().  Cells without samples hold no likelihood and cannot be the best fit; as
    soon as ONE cell holds a likelihood (of whatever sign, 0.0 and -inf included) there is a highest one."""
    cells = [rows[k] for k in g["children"] if k in rows]
    held = {x["id"]: unhex(x["max_log_likelihood"]) for x in cells if x["max_log_likelihood"] is not None}
    if not held:
        return []
    top = max(held.values())
    best = sorted(k for k, v in held.items() if v == top)
    lacking = len(cells) - len(held)
    errs = []
    head = "grid search %s [%s route]: " % (where, route)
    want = "the highest likelihood %r is held by cell%s %s" % (top, "s" if len(best) > 1 else "", ",".join(best))
    outcomes = [("Fit.best_fit", g.get("best_fit"))]
    if "best_fit_via_aggregator" in st:
        outcomes.append(("grid_searches()[i].best_fit", st["best_fit_via_aggregator"].get(g["id"])))
    for name, b in outcomes:
        if isinstance(b, str) and b.startswith("exc:"):
            why = ("(%d of its %d cells hold no likelihood)" % (lacking, len(cells))) if (b == "exc:TypeError" and lacking) else "(every cell holds a likelihood)"
            errs.append(head + "%s raised %s %s; %s" % (name, b[4:], why, want))
        elif b == "none" or b is None:
            why = ("(all its %d cells hold -inf)" % len(cells)) if (top == NEG_INF and not lacking) else "(a cell holds a likelihood above -inf)"
            errs.append(head + "%s returned None %s; %s" % (name, why, want))
        elif b not in best:
            errs.append(head + "%s gives cell %s (likelihood %r); %s" % (name, b, held.get(b), want))
    if "best_fits_by_parent" in st:
        q = st["best_fits_by_parent"].get(g["id"], [])
        if not q:
            errs.append(head + "grid_searches().best_fits() lists no cell of it; " + want)
        elif not set(q) <= set(best):
            errs.append(head + "grid_searches().best_fits() lists %s; %s" % (",".join(q), want))
    return errs


def oracle_scenario(c, r):
    """Direct statement of C11 on what the implementation wrote and loaded. Returns the list of violated
    requirements (one message per fit folder / grid search / route comparison; empty = the property holds)."""
    sc = r["scrape"]
    co = bool(c.get("completed_only", False))
    errs = []
    for f, rec in zip(c["fits"], r["fits"]):
        if rec.get("exc") and f["search"]["cls"] == "Scripted":
            return ["writing fit %s failed: %s %s" % (f["name"], rec["exc"], rec.get("msg"))]
        if f.get("prefit") and not rec.get("interrupted"):
            return ["harness: the pre-fit fault of fit %s was not injected" % f["name"]]
    if c.get("expect") == "IntegrityError-on-copy":
        # a fit WITH analyses children lies in the directory twice: add_directory's docstring excludes loading the
        # same results twice; what is required is a clean failure -- the exception, and nothing committed
        if sc.get("exc") != "IntegrityError":
            return ["copied fit with analyses children: expected IntegrityError, got %s" % (sc.get("exc") or "a loaded database")]
        if sc.get("fits"):
            return ["add_directory raised but left %d fits committed" % len(sc["fits"])]
        return []
    if c.get("two_dirs") and (sc.get("first") or {}).get("exc"):
        return ["add_directory (first directory) raised %s: %s" % (sc["first"]["exc"], sc["first"].get("msg", "")[:160])]
    if sc.get("exc"):
        if sc.get("fits") and not c.get("two_dirs"):
            errs.append("add_directory raised but left %d fits committed" % len(sc["fits"]))
        return errs + ["add_directory raised %s: %s" % (sc["exc"], sc.get("msg", "")[:160])]
    rows = {f["id"]: f for f in sc["fits"]}
    unfaithful = {"model:fixed-component", "model:arith-prior"}
    # the fits the CASE says are healthy must be there, whatever else lies in the directory; a fit whose
    # pre-fit output never completed is not a search fit and must not appear
    for f, rec in zip(c["fits"], r["fits"]):
        if f["type"] != "single" or f["search"]["cls"] != "Scripted" or not rec.get("identifier"):
            continue
        pf = f.get("prefit")
        complete = f["scripts"][0].get("interrupt") is None and not pf
        if not pf and (complete or not co) and not (model_labels(f["model"]) & unfaithful):
            if rec["identifier"] not in rows:
                errs.append("healthy fit %s (%s) is missing from the database" % (f["name"], rec["identifier"]))
        if pf and not pf.get("resume") and rec["identifier"] in rows:
            errs.append("fit %s, whose pre-fit output was interrupted at %s, appears in the database" % (f["name"], pf["stage"]))
    if len(rows) != len(sc["fits"]):
        errs.append("duplicate ids in the database")
    outs = [e for e in r["directory"] if e["metadata"] and (not co or e["completed"])]
    gss = [e for e in r["directory"] if e["grid_marker"] is not None and (not co or e["completed"])]
    seen = set()
    written = {}
    for e in outs:
        written.setdefault(e.get("description_md5"), []).append(e)

    def check_folder(e):
        wid = e.get("description_md5")
        is_cell = e["parent_identifier"] is not None
        if not is_cell and e["folder"] != wid:
            return "folder %s holds identifier %s" % (e["rel"], wid)
        f = rows.get(wid)
        if f is None:
            rid = (e.get("recomputed") or {}).get("id")
            return "fit written under %s has no database fit with that id (recomputed id %s)" % (wid, rid)
        seen.add(wid)
        if len(written[wid]) > 1:
            return None  # several folders written under one identifier: one row (contents of either)
        if f["name"] != e.get("search_name") or f["unique_tag"] != e.get("search_tag"):
            return "fit %s: name/tag %r/%r but search.json has %r/%r" % (wid, f["name"], f["unique_tag"], e.get("search_name"), e.get("search_tag"))
        if bool(f["is_complete"]) != e["completed"]:
            return "fit %s: is_complete %r but .completed %s" % (wid, f["is_complete"], e["completed"])
        want_info = {str(k): v for k, v in e["info"].items()} if isinstance(e.get("info"), dict) else {}
        if f["info"] != want_info:
            return "fit %s: info %r but info.json holds %r" % (wid, f["info"], want_info)
        rc = e.get("recomputed") or {}
        if rc.get("model") is not None and f["model"] != rc["model"]:
            return "fit %s: stored model differs from model.json" % wid
        for nm, dg in e.get("json_digests", {}).items():
            if f["json_digest"].get(nm) != dg:
                return "fit %s: json %s missing or different in the database" % (wid, nm)
        for kind, dk, fk in (("pickle", "pickle_digests", "pickle_digest"), ("array", "array_digests", "array_digest"),
                             ("fits file", "hdu_digests", "hdus")):
            for nm, dg in e.get(dk, {}).items():
                if not isinstance(f.get(fk), dict) or f[fk].get(nm) != dg:
                    return "fit %s: %s %s missing or different in the database" % (wid, kind, nm)
        if e.get("latent") is not None:
            def _num(rows_):
                return [([(k, unhex(v)) for k, v in kv], unhex(ll)) for kv, ll in rows_]
            got = f.get("latent")
            if not isinstance(got, list) or not got or any(x not in _num(e["latent"]) for x in _num(got)):
                return "fit %s: latent samples of the directory are not in the database" % wid
            top = max(unhex(x[1]) for x in e["latent"])
            if not any(unhex(x[1]) == top for x in got):
                return "fit %s: the maximum-likelihood latent sample is not in the database" % wid
        if e.get("samples"):
            want = [(csv_kv(e, q), q["ll"], q["lp"], q["w"]) for q in e["samples"]["rows"]]
            got = [(q["kv"], q["ll"], q["lp"], q["w"]) for q in f["samples"]] if isinstance(f["samples"], list) else f["samples"]
            if got != want:
                return "fit %s: samples differ from samples.csv (%s rows vs %s)" % (wid, len(got) if isinstance(got, list) else got, len(want))
            if want:
                lls = [unhex(q[1]) for q in want]
                if f["max_log_likelihood"] is None or unhex(f["max_log_likelihood"]) != max(lls):
                    return "fit %s: max_log_likelihood %s is not the maximum %r of its samples" % (wid, f["max_log_likelihood"], max(lls))
                insts = rc.get("insts")
                if insts:
                    ok = {insts[i] for i, v in enumerate(lls) if v == max(lls)}
                    if f.get("instance_digest") not in ok:
                        return "fit %s: instance is not the instance of a maximum-likelihood sample" % wid
        else:
            if f["samples"] is not None or f["instance"] is not None:
                return "fit %s: database holds samples/instance the directory does not hold" % wid
        # multi-analysis children: one child per analyses folder, each holding that folder's files
        kids = [rows[k] for k in f["children"] if k in rows]
        if len(e["analyses"]) != len(kids):
            return "fit %s: %d analyses folders but %d child fits" % (wid, len(e["analyses"]), len(kids))
        if sorted(digest(a["json_digests"]) for a in e["analyses"]) != sorted(digest(k["json_digest"]) for k in kids):
            return "fit %s: child fits do not hold the analyses' files" % wid
        return None

    for e in outs:
        m = check_folder(e)
        if m:
            errs.append(m)
    # nothing else that claims to be a search fit
    for f in sc["fits"]:
        if not f["is_grid_search"] and f["name"] is not None and f["id"] not in seen:
            src = [e for e in outs if (e.get("recomputed") or {}).get("id") == f["id"]]
            if not (src and src[0].get("description_md5") != f["id"]):   # (the other half of an id mismatch already reported)
                errs.append("database fit %s corresponds to no search fit of the directory" % f["id"])
    # grid searches
    grows = [f for f in sc["fits"] if f["is_grid_search"]]
    if len(grows) != len(gss):
        errs.append("%d grid-search folders but %d grid-search fits" % (len(gss), len(grows)))
    if sorted(sc.get("grid_searches", [])) != sorted(f["id"] for f in grows) and not c.get("two_dirs"):
        errs.append("aggregator.grid_searches() does not list the grid-search fits")
    used = set()
    for e in gss:
        cells = sorted(o.get("description_md5") for o in outs if (o["rel"] + "/").startswith(e["rel"] + "/"))
        cand = [g for g in grows if sorted(g["children"]) == cells and g["id"] not in used]
        if not cand:
            errs.append("grid search %s: no parent fit linked to exactly its %d cell fits" % (e["rel"], len(cells)))
            continue
        g = cand[0]
        used.add(g["id"])
        if g["id"] != e["folder"]:
            errs.append("grid search %s: parent fit id %s is not its folder name" % (e["rel"], g["id"]))
        if bool(g["is_complete"]) != e["completed"]:
            errs.append("grid search %s: is_complete %r but .completed %s" % (e["rel"], g["is_complete"], e["completed"]))
        errs += best_fit_errors("directory", e["rel"], g, rows, sc)
    # agreement with the direct (session) route, scripted fits only
    dr = r.get("direct")
    if dr:
        drows = {f["id"]: f for f in dr.get("fits", [])}
        if dr.get("query_exc"):
            errs.append("session route: the grid-search queries raised %s" % dr["query_exc"])
        for g in dr.get("fits", []):
            if g["is_grid_search"] and not dr.get("exc"):
                errs += best_fit_errors("session", g["id"], g, drows, dr)
        for f, rec, drec in zip(c["fits"], r["fits"], dr.get("fits_run", [])):
            if f["search"]["cls"] != "Scripted" or drec.get("exc") or drec.get("skipped") or dr.get("exc"):
                continue
            if fit_labels(f) & (unfaithful | {"info:container-value"}):
                continue        # reported per folder above
            if f["type"] == "single":
                if rec.get("identifier") != drec.get("identifier"):
                    errs.append("fit %s: identifier differs between routes" % f["name"])
                    continue
                a, b = rows.get(rec["identifier"]), drows.get(rec["identifier"])
                if (co and a is None) or len(written.get(rec["identifier"], [])) > 1:
                    continue
                if a is None or b is None:
                    errs.append("fit %s: present in only one of the two databases" % f["name"])
                    continue
                keys = ["name", "unique_tag", "is_complete", "info", "model", "max_log_likelihood", "samples"]
                if f.get("n_analyses", 1) == 1:
                    keys.append("instance")
                for k in keys:
                    if a[k] != b[k]:
                        errs.append("fit %s: %s differs between the scraped and the directly written database (%r vs %r)" % (f["name"], k, str(a[k])[:80], str(b[k])[:80]))
                        break
                else:
                    if f.get("n_analyses", 1) > 1 and a["samples"] is not None and a["instance"] != b["instance"]:
                        errs.append("fit %s: instance differs between the scraped and the directly written database" % f["name"])
            else:
                ca = {x["identifier"] for x in rec.get("cells", [])}
                cb = {x["identifier"] for x in drec.get("cells", [])}
                if ca != cb:
                    errs.append("grid search %s: cell identifiers differ between routes" % f["name"])
                    continue
                pb = drows.get(drec.get("identifier"))
                if pb is not None and not co:
                    ga = [g for g in grows if set(g["children"]) == set(pb["children"])]
                    if not ga:
                        errs.append("grid search %s: scraped parent and directly written parent link different cells" % f["name"])
                        continue
                    if ga[0]["id"] != pb["id"]:
                        errs.append("grid search %s: parent id differs between routes (%s vs %s)" % (f["name"], ga[0]["id"], pb["id"]))
                    for k in ca:
                        a, b = rows.get(k), drows.get(k)
                        if a is None or b is None:
                            errs.append("grid cell %s present in only one database" % k)
                            continue
                        for kk in ("name", "unique_tag", "is_complete", "info", "model", "instance", "max_log_likelihood"):
                            if a[kk] != b[kk]:
                                errs.append("grid cell %s: %s differs between routes" % (k, kk))
                                break
                    qa = sc.get("best_fits_by_parent", {}).get(ga[0]["id"], [])
                    qb = dr.get("best_fits_by_parent", {}).get(pb["id"], [])
                    if "best_fits_by_parent" in dr and qa != qb:
                        errs.append("grid search %s: best_fits() differs between routes (%s vs %s)" % (f["name"], qa, qb))
    return errs


def nontrivial(c, r):
    if c["kind"] == "settings":
        return bool(c.get("kwargs")) or c.get("tag") is not None
    if c["kind"] == "scenario":
        return len(r.get("directory", [])) >= 2
    return False


def slim(c):
    """case without the bulky parts (for samples / replay)"""
    if c["kind"] != "scenario":
        return c
    return c


def run(ctx):
    ctx.rule = ("cases are (a) search-settings round trips: one concrete search class with generated constructor keywords, name, tag, prefix; "
                "(b) scenarios: 2-4 fits (scripted single fits with generated model shape / samples / interruption point / info / layout "
                "zip|folder|both / 1-3 combined analyses, fits whose pre-fit output (save_all) is interrupted at each of its 9 points -- first run "
                "and re-run, harness-side fault injection incl. a kill inside json.dump and an unserialisable info value -- beside healthy fits, "
                "grid searches with 2 or 4 cells, real search classes, copied folders; one grid search per likelihood profile of its cells in every run: "
                "best cell exactly 0.0 above negatives / above -inf, 0.0 below a positive, all positive, mixed signs, ties at 0.0 and elsewhere, "
                "-inf in some / all cells, last cell without samples) written by the "
                "real code into one output directory that is then loaded with add_directory(completed_only in {False,True}) and also written "
                "through a database session. A settings case is non-trivial when it has keywords or a tag; a scenario when its directory holds "
                ">= 2 fit / grid-search folders. distinct = distinct abstract input")
    ctx.trusted = [
        "Coq 8.16.1 kernel incl. vm_compute",
        "the structure translator in harness/vcheck/c11.py (AST of every search class __init__ and of GridSearchOutput.id -> coq/C11/Gen.v, fail-closed)",
        "correspondence harness c11.py / impl/c11_impl.py / impl/c11_search.py (scripted search: only _fit/samples_from are test code); "
        "os.walk order, json, csv, hashlib.md5, sqlite are used as oracles",
        "modelled not verified: identifier tokens (C07) and model (de)serialisation (C08) enter the model as oracle values computed from the "
        "files independently of the aggregator; SQLAlchemy flush/commit semantics (primary-key conflict => IntegrityError, nothing committed)",
    ]
    ctx.assumptions = [
        "ids are opaque strings; `f_reload_id` (md5 of the tokens of the reloaded search, reloaded model and tag) is an oracle value per folder",
        "theorems about scrape assume distinct identifiers (NoDup) and readable search settings; the cases outside are covered by the "
        "_refuted witnesses and by correspondence only",
        "best fit of a grid search is stated as: as soon as one linked cell holds a likelihood (any sign, 0.0, -inf), a linked cell whose "
        "likelihood is maximal among the cells holding one (ties: any; best_fits() may list all tied cells and nothing else of that grid "
        "search), through Fit.best_fit, the fit the aggregator hands out, and grid_searches().best_fits(), in the scraped and in the "
        "session-written database; likelihoods enter the model as order-preserving integer keys (NaN is not generated)",
        "session route: the parent row of a fit with combined analyses is compared; its child fits are out of scope (a session "
        "creates one child named 'analyses/analysis_0' with its own identifier, the scraper one '<id>_<i>' per analyses folder); "
        "path_prefix is not compared (a scraped fit has none)",
        "known-finding classes are attributed per oracle message (pattern of the class and, for per-fit messages, the fit carrying the "
        "label); correspondence disagreements are never attributed to a finding",
        "Emcee/Zeus/Nautilus/UltraNest/DynestyDynamic are covered by the settings round trip only (Emcee's fit raises IndexError in "
        "emcee.autocorr in this environment; the others are not installed)",
    ]
    # 1. translator
    try:
        info = regenerate()
        INFO_VARIANT["v"] = info_variant(common.REPO)
        BEST_FIT_VARIANT["v"] = best_fit_variant(common.REPO)
        ctx.translated = {"gs_id_uses_folder": {"source": info["gs_id_source"], "line": 0},
                          "fit_info_setter": {"source": INFO_VARIANT["v"], "line": 0}}
        for cl in info["classes"]:
            ctx.translated["sc_" + cl["name"]] = {"source": " -> ".join("%s(%s)" % (s["cls"], ",".join(s["super_kw"])) for s in cl["chain"])[:300],
                                                   "line": cl["chain"][0]["line"]}
        ctx.obligation("translator:Gen.v", "translator", True, "%d search classes; GridSearchOutput.id = %s" % (len(info["classes"]), info["gs_id_source"]))
        translated = True
        classes = [cl["name"] for cl in info["classes"]]
        ctx.notes["code_variant"] = {
            "grid_search_id": "folder name (C11_grid applies)" if info["gs_id_uses_folder"] else "marker text: REGRESSION of d04d2bc (C11_grid no longer compiles)",
            "fit_info_setter": INFO_VARIANT["v"],
            "fit_best_fit": BEST_FIT_VARIANT["v"],
            "drawer_pops_number_of_cores": any(cl["name"] == "Drawer" and "number_of_cores" in cl["chain"][0]["pops"] for cl in info["classes"]),
        }
    except TranslationError as e:
        ctx.obligation("translator:Gen.v", "translator", False, str(e))
        translated = False
        classes = sorted(SETTINGS_KW)
    # 2. proofs
    built = ctx.build() if translated else False
    # 3. cases
    cases = gen_cases(ctx, classes)
    # pinned cases of the findings repaired in /repo: always run, each one an obligation of its own
    corpus_dir = os.path.join(common.VERIF, "corpus", "C11")
    pinned = {}
    for fn in sorted(os.listdir(corpus_dir)) if os.path.isdir(corpus_dir) else []:
        if fn.endswith(".json"):
            d = json.load(open(os.path.join(corpus_dir, fn)))
            d["case"]["regression"] = d["name"]
            pinned[d["name"]] = d
            cases.append(d["case"])
    regression_msgs = {k: [] for k in pinned}
    if ctx.replay:
        rp = json.load(open(ctx.replay))
        if rp.get("case"):
            cases = [rp["case"]]
    light = [c for c in cases if c["kind"] != "scenario"]
    heavy = [c for c in cases if c["kind"] == "scenario"]
    payloads = [{"cases": light}] if light else []
    nproc = 7 if ctx.tier == "quick" else 12
    buckets = [[] for _ in range(min(nproc, max(1, len(heavy))))]
    for i, c in enumerate(heavy):
        buckets[i % len(buckets)].append(c)
    heavy = [c for b in buckets for c in b]
    for b in buckets:
        if b:
            payloads.append({"cases": b})
    outs = common.run_impl_parallel("c11_impl", payloads, timeout=1500, workers=min(common.NCPU, 12))
    results = []
    for p, o in zip(payloads, outs):
        if "__error__" in o:
            ctx.obligation("impl-driver", "harness", False, o["__error__"][-800:])
            results += [{"exc": "driver", "msg": o["__error__"][-300:]}] * len(p["cases"])
        else:
            results += o["results"]
    ordered = light + heavy
    coq_cases, coq_idx = [], []
    impl_classes = None
    for i, (c, r) in enumerate(zip(ordered, results)):
        if c["kind"] == "classes":
            if "ok" in r:
                impl_classes = r["ok"]["classes"]
                same = sorted(impl_classes) == sorted(classes)
                ctx.obligation("translator:search-classes-complete", "translator", same,
                               "" if same else "runtime subclasses %s vs translated %s" % (impl_classes, classes))
                if not same:
                    ctx.failure("translator", "the translated set of search classes differs from NonLinearSearch's concrete subclasses",
                                c, impl=impl_classes, found_input=False)
            continue
        classes_ = case_classes(c)
        if "exc" in r:
            ctx.count_case(c, False, c["kind"])
            ctx.oracle["cases"] += 1
            ctx.oracle["failures"] += 1
            ctx.failure("oracle", "driver raised %s: %s" % (r["exc"], r.get("msg")), c, classes=[], impl=r.get("tb"))
            continue
        ro = r["ok"]
        ctx.count_case(c, nontrivial(c, ro), c["kind"] if c["kind"] == "settings" else "scenario:" + c["flavour"])
        ctx.oracle["cases"] += 1
        if c["kind"] == "settings":
            ctx.hist("settings_class", c["cls"])
            m1 = oracle_settings(c, ro)
            msgs = [m1] if m1 else []
        else:
            for f in c["fits"]:
                ctx.hist("fit_type", f["type"])
                if f["type"] == "grid":
                    ctx.hist("grid_profile", f.get("profile", "random-nonpositive"))
                ctx.hist("search", f["search"]["cls"])
                ctx.hist("layout", f["layout"])
                if f.get("delete"):
                    for x in f["delete"]:
                        ctx.hist("partial_folder_lacks", x)
                ctx.hist("interrupt", f["scripts"][0].get("interrupt"))
                ctx.hist("n_analyses", f.get("n_analyses", 1))
                ctx.hist("tag", "none" if f.get("tag") is None else "set")
                ctx.hist("prefit", (f.get("prefit") or {}).get("stage"))
                ctx.hist("info_kind", "none" if not f.get("info") else (sorted(info_labels(f["info"])) or ["strings"])[0])
                for lb in sorted(fit_labels(f)):
                    ctx.hist("finding_class", lb)
            ctx.hist("completed_only", bool(c.get("completed_only")))
            ctx.hist("folders", len(ro.get("directory", [])))
            ctx.hist("scenario_shape", c.get("shape", "random"))
            msgs = oracle_scenario(c, ro)
        for msg in msgs:
            ctx.oracle["failures"] += 1
            ctx.failure("oracle", msg, c, classes=attributable(c, ro, msg), impl=summary(ro))
            if c.get("regression") in regression_msgs:
                import re as _re
                if any(_re.search(pat, msg) for pat in pinned[c["regression"]]["must_not"]):
                    regression_msgs[c["regression"]].append(msg)
        try:
            cc, why = coq_case(c, ro)
        except Exception as e:  # noqa
            cc, why = None, "abstraction-error"
            ctx.obligation("abstraction:%d" % i, "harness", False, "%s: %s" % (type(e).__name__, e))
        if cc:
            coq_cases.append(cc)
            coq_idx.append((i, bool(msgs)))
        else:
            ctx.hist("no_correspondence_term", why)
        try:
            dc = coq_disk_case(c, ro)
        except Exception as e:  # noqa
            dc = None
            ctx.obligation("abstraction-disk:%d" % i, "harness", False, "%s: %s" % (type(e).__name__, e))
        if dc:
            coq_cases.append(dc)
            coq_idx.append((i, bool(msgs)))
            ctx.hist("disk_view_terms", "CDisk")
        if i % 9 == 0:
            ctx.sample({"case": c if c["kind"] == "settings" else {"kind": "scenario", "flavour": c["flavour"],
                                                                      "fits": [{k: f[k] for k in ("type", "name", "tag", "prefix", "search", "layout", "n_analyses")} for f in c["fits"]]}},
                       limit=8)
    if not ctx.replay:
        for name, bad_msgs in sorted(regression_msgs.items()):
            ctx.obligation("regression:" + name, "regression", not bad_msgs,
                           "repaired by %s; the pinned case %s" % (pinned[name]["repaired_by"], "passes" if not bad_msgs else "fails again: " + bad_msgs[0][:200]))
        ctx.obligation("code-variant:fit-info-setter", "regression", INFO_VARIANT["v"] == "containers-as-json",
                       "Fit.info setter: %s (repaired by 5bd1d10)" % INFO_VARIANT["v"])
    # 4. correspondence
    if os.path.exists(os.path.join(common.COQ, "C11", "Model.vo")) and os.path.exists(os.path.join(common.COQ, "C11", "Gen.vo")):
        hdr = ctx.header(["Lib", "Gen", "Model"]) + "\nDefinition chk := check_case search_classes gs_id_uses_folder.\n"
        bad, log = ctx.eval_cases(hdr, "case", "chk", coq_cases, shard=12)
        if bad:
            for b in bad[:6]:
                i, msg = coq_idx[b]
                c = ordered[i]
                if os.environ.get("C11_DEBUG_DIR"):
                    with open(os.path.join(os.environ["C11_DEBUG_DIR"], "term_%d.v" % b), "w") as fh:
                        fh.write(hdr + "\nDefinition the_case : case := " + coq_cases[b] + ".\n")
                # never attributed to a finding class: the model is faithful to the recorded defects as well
                ctx.failure("correspondence", "model and implementation disagree on a %s case" % c["kind"], c,
                            classes=[], impl=summary(results[i].get("ok")), model=coq_cases[b][:3000],
                            broken={"kind": "correspondence", "name": "C11.check_case"}, found_input=bool(msg))
    else:
        ctx.obligation("correspondence:cases", "correspondence", False, "Model.vo / Gen.vo not built")


def summary(ro):
    if not isinstance(ro, dict) or "scrape" not in ro:
        return ro
    sc = ro["scrape"]
    return {
        "fits": [{k: v for k, v in f.items() if k in ("identifier", "exc", "msg", "interrupted", "live_id")} for f in ro["fits"]],
        "directory": [{k: e.get(k) for k in ("rel", "metadata", "completed", "grid_marker", "parent_identifier", "description_md5")} | {"recomputed_id": (e.get("recomputed") or {}).get("id"), "recomputed_exc": (e.get("recomputed") or {}).get("exc")} for e in ro["directory"]],
        "scrape": {"exc": sc.get("exc"), "msg": sc.get("msg"), "best_fits_by_parent": sc.get("best_fits_by_parent"),
                   "best_fit_via_aggregator": sc.get("best_fit_via_aggregator"), "rows": [{k: f[k] for k in ("id", "name", "unique_tag", "is_complete", "is_grid_search", "parent_id", "children", "max_log_likelihood", "best_fit")} for f in sc.get("fits", [])]},
        "direct": None if not ro.get("direct") else {"exc": ro["direct"].get("exc"), "best_fits_by_parent": ro["direct"].get("best_fits_by_parent"),
                                                      "rows": [{k: f.get(k) for k in ("id", "name", "is_complete", "is_grid_search", "parent_id", "children", "max_log_likelihood", "best_fit")} for f in ro["direct"].get("fits", [])]},
    }


MANIFEST = {
    "text": "Coq 8.16 model of (a) reading a search's persisted settings back, over constructor signatures regenerated from the source of "
            "every search class, and (b) Scraper.scrape over an abstract output directory (fit folders, analyses children, grid-search "
            "parents, completed_only, existing rows, primary-key conflicts) with universally quantified theorems (closed form of the loaded "
            "database under distinct identifiers; one row per fit folder holding its model/instance/samples/flag/info, id = folder name under "
            "an explicit faithful-reload hypothesis that the correspondence evaluates per folder; every generated search class reads back for "
            "every subset of its persisted-key universe; a second load keeps the first; grid parents linked "
            "to exactly their cells with a maximal-likelihood best fit -- Fit.best_fit as written (partial: every cell holds a likelihood and "
            "one is above -inf; refuted outside), the best_fits() query (exactly the cells of highest likelihood) and the repaired Fit.best_fit "
            "(total), for likelihood keys of every sign --; agreement with the session route; a fit interrupted anywhere inside "
            "save_all leaves the load unchanged), _refuted witnesses for the two "
            "defects of the pinned code, plus vm_compute correspondence with real fits written and loaded by the running code and a "
            "direct property oracle on every generated scenario",
    "note": "Identifier tokens and model (de)serialisation are not re-modelled here (C07/C08): the recomputed identifier of a folder is an "
            "oracle value read from the files independently of the aggregator; the oracle compares it with the folder name for every "
            "generated model shape and search class. SQLAlchemy/SQLite are covered by correspondence only.",
    "technique": "machine-checked proof in Coq (structure translator + hand-written state model) + vm_compute correspondence",
}
