"""C11 structure translator (fail-closed): regenerates coq/C11/Gen.v from /repo.

Two facts of the anchored code are read from its AST on every run:

* the constructor signatures of every concrete search class (named parameters, **kwargs, the keywords
  each `__init__` passes explicitly to `super().__init__`, whether `**kwargs` is forwarded, keys popped from
  kwargs first) -- the data on which `Model.call_ok` decides whether `cls(**arguments)` (what
  `from_dict(search.json)` executes) raises `TypeError`;
* how `GridSearchOutput.id` is computed (the `.is_grid_search` marker text or the folder name).

Anything outside the recognised shapes raises TranslationError.
"""
import ast
import os

from .pyexpr2coq import TranslationError

SEARCH_ROOT = "autofit/non_linear/search"
SEARCH_OUTPUT = "autofit/aggregator/search_output.py"
ROOT_CLASS = "NonLinearSearch"


def _cstr(s):
    if not all(32 <= ord(c) < 127 for c in s) or '"' in s:
        raise TranslationError("unsupported string %r" % s)
    return '"%s"' % s


def _clist(xs):
    return "[" + "; ".join(_cstr(x) for x in xs) + "]"


def _class_table(repo):
    table = {}
    root = os.path.join(repo, SEARCH_ROOT)
    for d, _, fs in sorted(os.walk(root)):
        for f in sorted(fs):
            if not f.endswith(".py"):
                continue
            path = os.path.join(d, f)
            tree = ast.parse(open(path).read())
            for n in tree.body:
                if isinstance(n, ast.ClassDef):
                    if n.name in table:
                        raise TranslationError("class name %s defined twice under %s" % (n.name, SEARCH_ROOT))
                    table[n.name] = (n, os.path.relpath(path, repo))
    return table


def _base_names(cls):
    out = []
    for b in cls.bases:
        if isinstance(b, ast.Name):
            out.append(b.id)
        elif isinstance(b, ast.Attribute):
            out.append(b.attr)
        else:
            raise TranslationError("unsupported base expression in class %s" % cls.name)
    return out


def _init_sig(cls, rel):
    """sig of the class's own __init__ or None when it defines none."""
    inits = [x for x in cls.body if isinstance(x, ast.FunctionDef) and x.name == "__init__"]
    if not inits:
        return None
    if len(inits) > 1:
        raise TranslationError("%s defines __init__ twice" % cls.name)
    fn = inits[0]
    a = fn.args
    if a.vararg is not None or a.posonlyargs:
        raise TranslationError("%s.__init__ uses *args / positional-only parameters" % cls.name)
    params = [x.arg for x in a.args[1:]] + [x.arg for x in a.kwonlyargs]
    varkw = a.kwarg.arg if a.kwarg is not None else None
    calls = []
    pops = []
    for stmt in fn.body:
        for c in ast.walk(stmt):
            if isinstance(c, ast.Call) and isinstance(c.func, ast.Attribute):
                if c.func.attr == "__init__":
                    calls.append((stmt, c))
                elif (c.func.attr == "pop" and isinstance(c.func.value, ast.Name) and varkw is not None
                      and c.func.value.id == varkw):
                    if not (c.args and isinstance(c.args[0], ast.Constant) and isinstance(c.args[0].value, str)):
                        raise TranslationError("%s.__init__: kwargs.pop with a non-literal key" % cls.name)
                    if calls:
                        raise TranslationError("%s.__init__: kwargs.pop after super().__init__" % cls.name)
                    if stmt is not c and not (isinstance(stmt, (ast.Expr, ast.Assign)) and stmt in fn.body):
                        raise TranslationError("%s.__init__: conditional kwargs.pop" % cls.name)
                    pops.append(c.args[0].value)
            if isinstance(c, (ast.Delete,)) or (isinstance(c, ast.Subscript) and isinstance(c.value, ast.Name)
                                               and varkw is not None and c.value.id == varkw
                                               and isinstance(getattr(c, "ctx", None), (ast.Store, ast.Del))):
                raise TranslationError("%s.__init__ mutates kwargs in an unsupported way" % cls.name)
    if len(calls) != 1:
        raise TranslationError("%s.__init__ has %d super().__init__ calls" % (cls.name, len(calls)))
    stmt, call = calls[0]
    if stmt not in fn.body or not isinstance(stmt, ast.Expr):
        raise TranslationError("%s.__init__: super().__init__ is not a top-level statement" % cls.name)
    if not (isinstance(call.func.value, ast.Call) and isinstance(call.func.value.func, ast.Name)
            and call.func.value.func.id == "super" and not call.func.value.args):
        raise TranslationError("%s.__init__: __init__ call is not super().__init__" % cls.name)
    if call.args:
        raise TranslationError("%s.__init__: positional arguments in super().__init__" % cls.name)
    kws, forwards = [], False
    for k in call.keywords:
        if k.arg is None:
            if not (isinstance(k.value, ast.Name) and k.value.id == varkw):
                raise TranslationError("%s.__init__: ** of something other than its own kwargs" % cls.name)
            forwards = True
        else:
            kws.append(k.arg)
    # kwargs must not be reassigned
    for c in ast.walk(fn):
        if isinstance(c, ast.Name) and varkw is not None and c.id == varkw and isinstance(c.ctx, ast.Store):
            raise TranslationError("%s.__init__ rebinds kwargs" % cls.name)
    return {"cls": cls.name, "params": params, "varkw": varkw is not None, "super_kw": kws,
            "forwards": forwards, "pops": pops, "file": rel, "line": fn.lineno}


def _identifier_fields(cls):
    for x in cls.body:
        if isinstance(x, ast.Assign) and len(x.targets) == 1 and isinstance(x.targets[0], ast.Name) \
                and x.targets[0].id == "__identifier_fields__":
            v = x.value
            if isinstance(v, ast.Call) and isinstance(v.func, ast.Name) and v.func.id == "tuple" and not v.args:
                return []
            if isinstance(v, (ast.Tuple, ast.List)) and all(isinstance(e, ast.Constant) and isinstance(e.value, str) for e in v.elts):
                return [e.value for e in v.elts]
            raise TranslationError("%s.__identifier_fields__ is not a literal tuple of strings" % cls.name)
    return None


def search_classes(repo):
    table = _class_table(repo)
    if ROOT_CLASS not in table:
        raise TranslationError("%s not found" % ROOT_CLASS)

    def lineage(name, seen=()):
        """names from `name` up to NonLinearSearch following the first base that leads there"""
        if name == ROOT_CLASS:
            return [name]
        if name not in table or name in seen:
            return None
        for b in _base_names(table[name][0]):
            up = lineage(b, seen + (name,))
            if up:
                return [name] + up
        return None

    out = []
    for name in sorted(table):
        if name == ROOT_CLASS or name.startswith("Abstract"):
            continue
        lin = lineage(name)
        if not lin:
            continue
        chain, fields = [], None
        for n in lin:
            cls, rel = table[n]
            if fields is None:
                fields = _identifier_fields(cls)
            sg = _init_sig(cls, rel)
            if sg is not None:
                chain.append(sg)
        if not chain or chain[-1]["cls"] != ROOT_CLASS:
            raise TranslationError("chain of %s does not end in %s.__init__" % (name, ROOT_CLASS))
        if chain[-1]["super_kw"] or chain[-1]["forwards"]:
            raise TranslationError("%s.__init__ passes arguments to super().__init__" % ROOT_CLASS)
        out.append({"name": name, "fields": fields or [], "chain": chain})
    if not out:
        raise TranslationError("no concrete search class found")
    return out


def grid_id_uses_folder(repo):
    tree = ast.parse(open(os.path.join(repo, SEARCH_OUTPUT)).read())
    cls = [n for n in tree.body if isinstance(n, ast.ClassDef) and n.name == "GridSearchOutput"]
    if len(cls) != 1:
        raise TranslationError("GridSearchOutput not found")
    fns = [x for x in cls[0].body if isinstance(x, ast.FunctionDef) and x.name == "id"]
    if len(fns) != 1:
        raise TranslationError("GridSearchOutput.id not found")
    rets = [n for n in ast.walk(fns[0]) if isinstance(n, ast.Return)]
    if len(rets) != 1 or rets[0].value is None:
        raise TranslationError("GridSearchOutput.id does not have exactly one return")
    src = ast.unparse(rets[0].value)
    if src == "self.unique_tag":
        # and unique_tag must be the marker text
        ut = [x for x in cls[0].body if isinstance(x, ast.FunctionDef) and x.name == "unique_tag"]
        if len(ut) != 1 or ".is_grid_search" not in ast.unparse(ut[0]) or "f.read()" not in ast.unparse(ut[0]):
            raise TranslationError("GridSearchOutput.unique_tag no longer reads the .is_grid_search marker")
        return False, src
    if src in ("self.directory.name", "str(self.directory.name)"):
        return True, src
    raise TranslationError("GridSearchOutput.id returns an unrecognised expression: %s" % src)


def generate(repo, outfile):
    classes = search_classes(repo)
    uf, src = grid_id_uses_folder(repo)
    lines = [
        "(* GENERATED by harness/vcheck/c11.py from /repo -- do not edit. *)",
        "(* C11: constructor signatures of the concrete search classes; how GridSearchOutput.id is computed *)",
        "From Coq Require Import List String Bool.",
        "From PAFC11 Require Import Lib.",
        "Import ListNotations.",
        "Open Scope string_scope.",
        "Open Scope list_scope.",
        "",
        "(* %s: GridSearchOutput.id returns `%s` *)" % (SEARCH_OUTPUT, src),
        "Definition gs_id_uses_folder : bool := %s." % ("true" if uf else "false"),
        "",
    ]
    names = []
    for c in classes:
        sigs = []
        for s in c["chain"]:
            lines.append("(* %s:%d %s.__init__ *)" % (s["file"], s["line"], s["cls"]))
            sigs.append("{| s_class := %s; s_params := %s; s_varkw := %s; s_super_kw := %s; s_forwards := %s; s_pops := %s |}" % (
                _cstr(s["cls"]), _clist(s["params"]), "true" if s["varkw"] else "false", _clist(s["super_kw"]),
                "true" if s["forwards"] else "false", _clist(s["pops"])))
        ident = "sc_" + c["name"]
        names.append(ident)
        lines.append("Definition %s : search_class :=\n  {| sc_name := %s; sc_fields := %s;\n     sc_chain := [\n       %s ] |}." % (
            ident, _cstr(c["name"]), _clist(c["fields"]), ";\n       ".join(sigs)))
        lines.append("")
    lines.append("Definition search_classes : list search_class := [%s]." % "; ".join(names))
    text = "\n".join(lines) + "\n"
    old = open(outfile).read() if os.path.exists(outfile) else None
    if old != text:
        os.makedirs(os.path.dirname(outfile), exist_ok=True)
        with open(outfile, "w") as f:
            f.write(text)
    return {"classes": classes, "gs_id_uses_folder": uf, "gs_id_source": src}
