"""Generator of model-composition programs shared by the ModelTree family (C01, C03, C08, C12),
the expected abstract tree of a program, and printers to Coq terms (PAFC01.ModelTree)."""
from .common import cfloat, cnat, cstr, clist, cpair

SIGNATURES = {
    "G2": [("a", "float", None), ("b", "float", None)],
    "G3": [("x", "float", None), ("y", "float", None), ("z", "float", None)],
    "T2": [("c", "float", None), ("pos", "tuple", 2)],
    "T3": [("pos", "tuple", 3)],
    "T11": [("pos", "tuple", 11), ("w", "float", None)],
    "T13": [("pos", "tuple", 13)],
    "N1": [("inner", "class", "G2"), ("s", "float", None)],
    "N2": [("left", "class", "G2"), ("right", "class", "T2"), ("k", "float", None)],
    # opt-in (Gen(underscore_classes=True / more_forms=True)); kind "list": a raw list/dict of components
    "CE": [("centre", "tuple", 2), ("centre_err", "float", None)],
    "LC": [("light_centre", "tuple", 2), ("q", "float", None)],
    "N3": [("inner", "class", "N1"), ("t", "float", None)],
    "L1": [("items", "list", None), ("s", "float", None)],
}
# limits of the config-default priors (harness/config/priors/vclasses.yaml), filled lazily by default_limits()
_DEFAULT_LIMITS = {}
OPS = {"+": "OAdd", "*": "OMul", "/": "ODiv", "//": "OFloorDiv", "%": "OMod"}
UNOPS = {"neg": "UNeg", "abs": "UAbs"}     # ModifiedPrior forms with a ModelTree node (NUn)


def unhex(s):
    return float(s) if s in ("nan", "inf", "-inf") else float.fromhex(s)


class Gen:
    def __init__(self, rng, max_depth=3, big_tuples=True, arith=True, consts=True, families=("uniform",), arrays=False,
                 tuple_member_kinds=False, underscore_classes=False, more_ops=False, more_forms=False, defaults=False,
                 pow_ops=True, log_ops=False, numeric_names=False):
        # opt-in extensions (all off by default; with them off the random stream is unchanged):
        #   tuple_member_kinds  arithmetic priors and int constants as tuple members, int constants as kwargs
        #   underscore_classes  classes CE / LC (constructor-argument names containing "_")
        #   more_ops            "-", unary neg / abs in arithmetic (ModelTree: NUn; a - b is built by the API as
        #                       a + (-b), see expected_tree) and "**" (no ModelTree semantics: oracle level only)
        #   more_forms          Collection varargs / __setitem__ / raw nested lists, list-valued kwargs (L1), N3 nesting,
        #                       a whole TuplePrior passed as kwarg with members created out of index order
        #   defaults            omitted kwargs / tuple members / nested classes (config-default priors)
        #   numeric_names       collections whose numeric item names differ from the item positions (coll_numeric_names)
        self.numeric_names = numeric_names
        self.tuple_member_kinds = tuple_member_kinds
        self.underscore_classes = underscore_classes
        self.more_ops = more_ops
        self.pow_ops = pow_ops          # with more_ops: also generate ** (oracle level only)
        self.log_ops = log_ops          # with more_ops: also af.Log(x) / af.Log10(x) (numpy: oracle level only)
        self.more_forms = more_forms
        self.defaults = defaults
        self.rng = rng
        self.max_depth = max_depth
        self.big_tuples = big_tuples
        self.arith = arith
        self.consts = consts
        self.families = families
        self.arrays = arrays
        self.pool = []
        self.features = set()

    # -- priors --------------------------------------------------------
    def new_prior(self):
        rng = self.rng
        fam = rng.choice(self.families)
        lo = rng.choice([-2.0, -1.0, 0.0, 0.5, 1.0, rng.randint(-8, 8) / 4.0])
        w = rng.choice([0.5, 1.0, 2.0, 4.0, rng.randint(1, 16) / 4.0])
        if fam == "uniform":
            spec = {"family": "uniform", "lo": lo.hex(), "hi": (lo + w).hex()}
        elif fam == "gaussian":
            spec = {"family": "gaussian", "mean": (lo + w / 2).hex(), "sigma": (w / 4).hex(), "lo": lo.hex(), "hi": (lo + w).hex()}
        else:
            lo = abs(lo) + 0.25
            spec = {"family": "loguniform", "lo": lo.hex(), "hi": (lo + w).hex()}
        self.pool.append(spec)
        return len(self.pool) - 1

    def prior_ref(self):
        # share an existing prior with probability 0.3
        if self.pool and self.rng.random() < 0.3:
            self.features.add("shared")
            return {"t": "prior", "ref": self.rng.randrange(len(self.pool))}
        return {"t": "prior", "ref": self.new_prior()}

    def const(self):
        self.features.add("const")
        if self.tuple_member_kinds and self.rng.random() < 0.15:
            self.features.add("int-const")
            return {"t": "const", "v": float(self.rng.randint(-3, 3)).hex(), "int": True}
        return {"t": "const", "v": (self.rng.randint(-12, 12) / 4.0).hex()}

    def arith_expr(self, depth=0):
        self.features.add("arith")
        if self.more_ops and self.rng.random() < 0.5:
            self.features.add("ops2")
            kind = self.rng.choice(["-", "-", "-", "%", "%", "//", "//", "neg", "neg", "abs", "abs"] + (["**"] if self.pow_ops else [])
                                   + (["log", "log10"] if self.log_ops else []))
            a = self.prior_ref() if (depth >= 1 or self.rng.random() < 0.6) else self.arith_expr(depth + 1)
            if kind in ("neg", "abs", "log", "log10"):
                return {"t": "unary", "op": kind, "a": a}
            if kind == "**":
                return {"t": "arith", "op": "**", "l": a, "r": {"t": "const", "v": self.rng.choice([2.0, 3.0]).hex()}}
            if kind in ("%", "//"):
                # ModPrior / FloorDivPrior: operands of both signs (priors with negative ranges, negative constants), c % p forms
                b = self.prior_ref() if self.rng.random() < 0.45 else \
                    {"t": "const", "v": self.rng.choice([0.75, 2.0, -1.5, -0.5, 3.0, 360.0, -2.0]).hex()}
                return {"t": "arith", "op": kind, "l": a, "r": b} if self.rng.random() < 0.7 else {"t": "arith", "op": kind, "l": b, "r": a}
            b = self.prior_ref() if self.rng.random() < 0.5 else {"t": "const", "v": self.rng.choice([0.5, 2.0, -1.5]).hex()}
            return {"t": "arith", "op": "-", "l": a, "r": b} if self.rng.random() < 0.7 else {"t": "arith", "op": "-", "l": b, "r": a}
        op = self.rng.choice(["+", "*", "/", "+", "*"])

        def operand(left):
            r = self.rng.random()
            if depth < 1 and r < 0.2:
                return self.arith_expr(depth + 1)
            if r < 0.45:
                v = self.rng.choice([0.5, 2.0, 4.0, 1.5, -2.0, 0.25])
                return {"t": "const", "v": v.hex()}
            return self.prior_ref()
        l, r = operand(True), operand(False)
        if l["t"] == "const" and r["t"] == "const":
            l = self.prior_ref()
        return {"t": "arith", "op": op, "l": l, "r": r}

    def scalar(self):
        r = self.rng.random()
        if self.arith and r < (0.2 if self.more_ops else 0.12):
            return self.arith_expr()
        if self.consts and r < 0.27:
            return self.const()
        return self.prior_ref()

    def member(self):
        if self.tuple_member_kinds:
            r = self.rng.random()
            if self.arith and r < 0.03:
                self.features.add("arith-member-in-tuple")
                return self.arith_expr(1)
            if r < 0.05:
                self.features.add("const")
                self.features.add("int-const")
                return {"t": "const", "v": float(self.rng.randint(-3, 3)).hex(), "int": True}
        if self.consts and self.rng.random() < 0.15:
            return self.const()
        return self.prior_ref()

    # -- models ----------------------------------------------------------
    def model(self, depth, cls=None):
        rng = self.rng
        if cls is None:
            names = ["G2", "G3", "T2", "T3", "N1", "N2"] + (["T11", "T13"] if self.big_tuples else [])
            weights = [4, 3, 3, 2, 2 if depth > 0 else 0, 2 if depth > 0 else 0] + ([1, 1] if self.big_tuples else [])
            if self.underscore_classes:
                names += ["CE", "LC"]
                weights += [0.8, 0.8]
            if self.more_forms:
                names += ["N3", "L1"]
                weights += [1.5 if depth > 0 else 0, 1.5 if depth > 0 else 0]
            cls = rng.choices(names, weights)[0]
        kw = {}
        for arg, kind, extra in SIGNATURES[cls]:
            if kind == "float":
                kw[arg] = self.scalar()
                if self.defaults and rng.random() < 0.25:
                    self.features.add("default-prior")
                    kw[arg] = {"t": "default"}
            elif kind == "tuple":
                self.features.add("tuple")
                if extra >= 11:
                    self.features.add("tuple>=11")
                kw[arg] = {"t": "tuple", "members": [self.member() for _ in range(extra)]}
                if self.more_forms and rng.random() < 0.25:
                    # a whole TuplePrior passed as keyword argument, members created out of index order
                    order = list(range(extra))
                    rng.shuffle(order)
                    kw[arg]["whole"] = True
                    kw[arg]["order"] = order
                    self.features.add("whole-tuple-prior")
                elif self.defaults and extra <= 3:
                    for j in range(extra):
                        if rng.random() < 0.2:
                            self.features.add("default-prior")
                            kw[arg]["members"][j] = {"t": "default"}
            elif kind == "list":
                self.features.add("list-kwarg")
                form = rng.choice(["list", "dict"])
                subs = [self.model(0, rng.choice(["G2", "T2", "G3"])) for _ in range(rng.randint(1, 2))]
                keys = [str(j) for j in range(len(subs))] if form == "list" else ["p", "q"][:len(subs)]
                kw[arg] = {"t": "coll", "form": form, "raw": True, "items": [[k, m] for k, m in zip(keys, subs)]}
            else:
                self.features.add("nested")
                if self.defaults and rng.random() < 0.2:
                    self.features.add("default-prior")
                    kw[arg] = implicit_model(extra)
                else:
                    kw[arg] = self.model(depth - 1, extra)
        extra_attrs = []
        if rng.random() < 0.12:
            self.features.add("extra")
            extra_attrs.append(["extra", {"t": "const", "v": (rng.randint(-8, 8) / 2.0).hex()}])
        # (a non-constructor attribute holding a Model is passed to cls(**kwargs) by
        #  Model._instance_for_arguments and raises TypeError for ordinary classes: outside the
        #  composition shapes the property quantifies over, not generated)
        return {"t": "model", "cls": cls, "kw": kw, "extra": extra_attrs}

    def coll(self, depth):
        rng = self.rng
        self.features.add("collection")
        form = rng.choice(["list", "dict", "kwargs", "append"])
        n = rng.randint(1, 3)
        if self.more_forms and rng.random() < 0.3:
            form = rng.choice(["varargs", "setitem"])
            self.features.add("form:" + form)
            if form == "varargs":
                n = rng.randint(2, 3)
        items = []
        names = ["g", "h", "m", "one", "two", "lens", "src"]
        rng.shuffle(names)
        for i in range(n):
            key = str(i) if form in ("list", "append", "varargs") else names[i]
            r = rng.random()
            if depth > 0 and r < 0.25:
                sub = self.coll(depth - 1)
                self.features.add("nested")
                if self.more_forms and sub["form"] in ("list", "dict") and not any(x[1]["t"] == "copy" for x in sub["items"]) \
                        and rng.random() < 0.4:
                    sub["raw"] = True       # a raw list / dict placed in the collection (from_object wraps it)
                    self.features.add("raw-nested")
            elif r < 0.35:
                sub = self.prior_ref()
                self.features.add("direct-prior-in-collection")
            elif r < 0.42 and self.consts:
                sub = self.const()
                self.features.add("const-in-collection")
            elif r < 0.52 and self.arrays:
                # af.Array: elements assigned in an order unrelated to index order
                shape = rng.choice([[2], [3], [2, 2], [2, 3], [1, 2, 2]])
                count = 1
                for d_ in shape:
                    count *= d_
                elems = [self.member() for _ in range(count)]
                order = list(range(count))
                rng.shuffle(order)
                sub = {"t": "array", "shape": shape, "elems": elems, "order": order}
                self.features.add("array")
            else:
                sub = self.model(depth - 1)
            items.append([key, sub])
        # a copy() of an earlier component in which only a fixed value differs (same priors)
        if self.consts and rng.random() < 0.4:
            cands = []
            for j, (k, sub) in enumerate(items):
                if sub["t"] == "model":
                    consts = [a for a, kind, _ in SIGNATURES[sub["cls"]] if kind == "float" and sub["kw"][a]["t"] == "const"]
                    if consts:
                        cands.append((j, consts))
            if cands and form in ("list", "append", "dict", "kwargs", "varargs", "setitem"):
                j, consts = rng.choice(cands)
                arg = rng.choice(consts)
                key = str(len(items)) if form in ("list", "append", "varargs") else "copy"
                newc = {"t": "const", "v": (rng.randint(-12, 12) / 4.0 + 0.125).hex()}
                items.append([key, {"t": "copy", "of": j, "set": [[arg, newc]]}])
                self.features.add("copy-with-different-constant")
        # opt-in: the SAME component object under a second key
        if self.more_forms and rng.random() < 0.15:
            cands = [j for j, (k, sub) in enumerate(items) if sub["t"] == "model"]
            if cands:
                key = str(len(items)) if form in ("list", "append", "varargs") else "same"
                items.append([key, {"t": "alias", "of": rng.choice(cands)}])
                self.features.add("same-object-twice")
        if self.numeric_names and rng.random() < 0.4:
            return self.coll_numeric_names(items)
        return {"t": "coll", "form": form, "items": items}

    def coll_numeric_names(self, items):
        """opt-in (numeric_names): the components just generated, put into a Collection by a construction history after
        which the NUMERIC item names ("0", "1", ...) need not coincide with the item positions: named items followed by
        appended ones, items assigned by number out of order (c[1] = ..; c[0] = ..), a dict with digit keys out of order,
        a list from which an earlier item was removed, appends interleaved with named / numbered assignments.  The
        history is e["steps"] (op init / append / setint / setstr / attr, the resulting key, the item index or -1 for the
        item removed at the end, e["removed"]); e["items"] is the resulting (key, component) list in __dict__ order.
        No step overwrites an existing key."""
        rng = self.rng
        subs = [sub for _, sub in items]
        while len(subs) < 2:
            subs.append(self.model(0, rng.choice(["G2", "G3", "T2"])))
        n = len(subs)
        names = ["g", "h", "m", "one", "two", "lens", "src", "aux", "bulge", "disk"]
        rng.shuffle(names)
        variant = rng.choice(["named-then-append", "setitem-numbers", "dict-digits", "list-remove", "interleaved"])
        if variant == "list-remove" and not all(sub["t"] in ("model", "copy", "alias") for sub in subs):
            # Collection.remove compares the argument with every item by ==, which is only dependable between Models
            # (a nested Collection raises TypeError, a direct prior is compared by its id with the model's id)
            variant = "interleaved"
        init = "none"
        removed = None
        if variant == "named-then-append":
            init = rng.choice(["kwargs", "dict"])
            k = rng.randint(1, n - 1)
            steps = [{"op": "init", "key": names[j], "item": j} for j in range(k)]
            steps += [{"op": "append", "key": str(j - k), "item": j} for j in range(k, n)]
        elif variant in ("setitem-numbers", "dict-digits"):
            keys = sorted(rng.sample(range(n + rng.choice([0, 0, 1, 2])), n))
            while keys == sorted(keys):
                rng.shuffle(keys)
            if variant == "dict-digits":
                init = "dict"
                steps = [{"op": "init", "key": str(keys[j]), "item": j} for j in range(n)]
            else:
                steps = [{"op": rng.choice(["setint", "setstr"]), "key": str(keys[j]), "item": j} for j in range(n)]
        elif variant == "list-remove":
            # the removed component holds two priors of its own: no other item of this collection is equal to it
            removed = {"t": "model", "cls": "G2", "kw": {"a": {"t": "prior", "ref": self.new_prior()},
                                                          "b": {"t": "prior", "ref": self.new_prior()}}, "extra": []}
            at = rng.randint(0, n - 1)
            init = rng.choice(["list", "none"])
            order = list(range(at)) + [-1] + list(range(at, n))
            steps = [{"op": "init" if init == "list" else "append", "key": str(pos), "item": j} for pos, j in enumerate(order)]
        else:
            steps, used, number = [], set(), 0
            for j in range(n):
                op = rng.choice(["append", "append", "attr", "setint", "setstr"])
                if op == "append" and str(number) in used:
                    op = "attr"
                if op == "append":
                    key = str(number)
                    number += 1
                elif op == "attr":
                    key = names[j]
                else:
                    key = str(rng.choice([x for x in range(n + 2) if str(x) not in used]))
                used.add(key)
                steps.append({"op": op, "key": key, "item": j})
        out = {"t": "coll", "form": "steps", "init": init, "steps": steps,
               "items": [[st["key"], subs[st["item"]]] for st in steps if st["item"] >= 0]}
        if removed is not None:
            out["removed"] = removed
        self.features.add("numeric-names")
        self.features.add("numeric-names:" + variant)
        if any(k.isdigit() and int(k) != pos for pos, (k, _) in enumerate(out["items"])):
            self.features.add("numeric-name!=position")
        return out

    def program(self):
        depth = self.rng.randint(1, self.max_depth)
        root = self.coll(depth) if self.rng.random() < 0.6 else self.model(depth)
        # creation order of priors differs from path order: permute the pool
        perm = list(range(len(self.pool)))
        self.rng.shuffle(perm)          # new index k holds old prior perm[k]
        inv = {old: new for new, old in enumerate(perm)}
        pool = [self.pool[old] for old in perm]

        def ren(e):
            if e["t"] == "prior":
                return {"t": "prior", "ref": inv[e["ref"]]}
            if e["t"] == "arith":
                return dict(e, l=ren(e["l"]), r=ren(e["r"]))
            if e["t"] == "unary":
                return dict(e, a=ren(e["a"]))
            if e["t"] == "tuple":
                return dict(e, members=[ren(m) for m in e["members"]])
            if e["t"] == "model":
                return dict(e, kw={k: ren(v) for k, v in e["kw"].items()}, extra=[[k, ren(v)] for k, v in e["extra"]])
            if e["t"] == "coll":
                if "removed" in e:      # (numeric_names) the component removed again at the end of the history
                    return dict(e, items=[[k, ren(v)] for k, v in e["items"]], removed=ren(e["removed"]))
                return dict(e, items=[[k, ren(v)] for k, v in e["items"]])
            if e["t"] == "array":
                return dict(e, elems=[ren(m) for m in e["elems"]])
            return e   # const, copy, alias, default
        root = ren(root)
        if self.defaults:
            assign_default_refs(root, pool)
        return {"pool": pool, "root": root, "features": sorted(self.features)}


def implicit_model(cls):
    """An omitted nested-class argument: Model.__init__ builds Model(annotation) with config-default priors."""
    kw = {}
    for arg, kind, extra in SIGNATURES[cls]:
        if kind == "float":
            kw[arg] = {"t": "default"}
        elif kind == "tuple":
            kw[arg] = {"t": "tuple", "members": [{"t": "default"} for _ in range(extra)]}
        elif kind == "class":
            kw[arg] = implicit_model(extra)
        else:
            raise ValueError(kind)
    return {"t": "model", "cls": cls, "kw": kw, "extra": [], "implicit": True}


def default_limits(cls, name):
    if not _DEFAULT_LIMITS:
        import os
        import yaml
        from . import common
        raw = yaml.safe_load(open(os.path.join(common.VERIF, "harness", "config", "priors", "vclasses.yaml")))
        for c, attrs in raw.items():
            for n, d in attrs.items():
                _DEFAULT_LIMITS[(c, n)] = (float(d["lower_limit"]), float(d["upper_limit"]))
    return _DEFAULT_LIMITS[(cls, name)]


def assign_default_refs(root, pool):
    """Replace every {"t": "default"} by {"t": "prior", "ref": k, "default": True}; k counts upwards from
    len(pool) in the order in which the interpreter (vbuild.build_expr) makes the library create the
    config-default priors (they are created after all pool priors), and a uniform spec with the config's limits
    is appended to the pool for each."""
    def fresh(cls, name):
        lo, hi = default_limits(cls, name)
        pool.append({"family": "uniform", "lo": lo.hex(), "hi": hi.hex(), "default": True})
        return {"t": "prior", "ref": len(pool) - 1, "default": True}

    def go(e):
        t = e["t"]
        if t == "model":
            sig = SIGNATURES[e["cls"]]
            # 1. explicit keyword arguments are evaluated before Model(cls, **kw) runs
            for arg, kind, extra in sig:
                sub = e["kw"][arg]
                if kind == "tuple":
                    if sub.get("whole"):
                        for j in sub["order"]:
                            go(sub["members"][j])
                elif sub["t"] != "default" and not sub.get("implicit"):
                    go(sub)
            # 2. Model.__init__ walks the constructor arguments in order
            for arg, kind, extra in sig:
                sub = e["kw"][arg]
                if kind == "tuple":
                    if not sub.get("whole"):
                        for j, m in enumerate(sub["members"]):
                            if m["t"] == "default":
                                sub["members"][j] = fresh(e["cls"], "%s_%d" % (arg, j))
                elif sub["t"] == "default":
                    e["kw"][arg] = fresh(e["cls"], arg)
                elif sub.get("implicit"):
                    go(sub)
            # 3. explicit tuple members and extra attributes are assigned afterwards
            for arg, kind, extra in sig:
                sub = e["kw"][arg]
                if kind == "tuple" and not sub.get("whole"):
                    for m in sub["members"]:
                        if not m.get("default"):
                            go(m)
            for _, sub in e.get("extra", []):
                go(sub)
        elif t == "coll":
            for _, sub in e["items"]:
                go(sub)
        elif t == "arith":
            go(e["l"])
            go(e["r"])
        elif t == "unary":
            go(e["a"])
        elif t == "array":
            for j in e["order"]:
                go(e["elems"][j])
    go(root)


def expected_tree(e, names=None):
    """Abstract tree the composition API is expected to build for a program (two-sided rule).
    Compound attribute names come from caller frames and are taken from the live object."""
    t = e["t"]
    if t in ("prior", "const"):
        return dict(e)
    if t == "arith":
        l, r = expected_tree(e["l"]), expected_tree(e["r"])
        if e["op"] == "-":
            # ArithmeticMixin.__sub__: a - b = a + (-b); __rsub__ (float - b): (-b) + float; -float is a float
            def neg(x):
                if x["t"] == "const":
                    return {"t": "const", "v": (-unhex(x["v"])).hex()}
                return {"t": "unary", "op": "neg", "a": x}
            if l["t"] == "const" and r["t"] == "const":
                return {"t": "const", "v": (unhex(l["v"]) - unhex(r["v"])).hex()}
            if l["t"] == "const":
                return {"t": "arith", "op": "+", "l": neg(r), "r": l}
            return {"t": "arith", "op": "+", "l": l, "r": neg(r)}
        return {"t": "arith", "op": e["op"], "l": l, "r": r}
    if t == "unary":
        return {"t": "unary", "op": e["op"], "a": expected_tree(e["a"])}
    if t == "tuple":
        raise ValueError("tuple outside model")
    if t == "model":
        attrs = []
        for arg, kind, extra in SIGNATURES[e["cls"]]:
            sub = e["kw"][arg]
            if kind == "tuple":
                order = sub["order"] if sub.get("whole") else range(len(sub["members"]))
                attrs.append([arg, {"t": "tuple", "members": [["%s_%d" % (arg, i), expected_tree(sub["members"][i])] for i in order]}])
            else:
                attrs.append([arg, expected_tree(sub)])
        for k, sub in e.get("extra", []):
            attrs.append([k, expected_tree(sub)])
        return {"t": "model", "cls": e["cls"], "attrs": attrs}
    if t == "coll":
        return {"t": "coll", "attrs": [[k, expected_tree(sub)] for k, sub in resolve_copies(e)["items"]]}
    if t == "array":
        keys = array_keys(e["shape"])
        return {"t": "array", "shape": e["shape"], "attrs": [[keys[j], expected_tree(e["elems"][j])] for j in e["order"]]}
    raise ValueError(t)


def array_keys(shape):
    import itertools
    return ["prior_" + "_".join(map(str, idx)) for idx in itertools.product(*[range(d) for d in shape])]


def resolve_copies(coll):
    """Replace {"t": "copy"} items of a collection by the model they denote."""
    import copy as _copy
    items = []
    for k, sub in coll["items"]:
        if sub["t"] in ("copy", "alias"):
            src = _copy.deepcopy(items[sub["of"]][1])
            for arg, newc in sub.get("set", []):
                src["kw"][arg] = newc
            sub = src
        items.append([k, sub])
    return dict(coll, items=items)


def same_tree(exp, got):
    """Compare expected tree with the abstraction of the live object (ignoring ln/rn/keys)."""
    if exp["t"] != got["t"]:
        return False
    t = exp["t"]
    if t == "prior":
        return exp["ref"] == got["ref"]
    if t == "const":
        return unhex(exp["v"]) == unhex(got["v"])
    if t == "arith":
        return exp["op"] == got["op"] and same_tree(exp["l"], got["l"]) and same_tree(exp["r"], got["r"])
    if t == "unary":
        return exp["op"] == got["op"] and same_tree(exp["a"], got["a"])
    if t == "tuple":
        return len(exp["members"]) == len(got["members"]) and all(
            a[0] == b[0] and same_tree(a[1], b[1]) for a, b in zip(exp["members"], got["members"]))
    if t == "model":
        return exp["cls"] == got["cls"] and len(exp["attrs"]) == len(got["attrs"]) and all(
            a[0] == b[0] and same_tree(a[1], b[1]) for a, b in zip(exp["attrs"], got["attrs"]))
    if t in ("coll", "array"):
        if t == "array" and exp["shape"] != got["shape"]:
            return False
        return len(exp["attrs"]) == len(got["attrs"]) and all(
            a[0] == b[0] and same_tree(a[1], b[1]) for a, b in zip(exp["attrs"], got["attrs"]))
    return False


def member_index(name):
    suffix = name.rsplit("_", 1)[-1]
    return int(suffix) if suffix.isdigit() else 0


def coq_node(t):
    """Abstraction of the live object (with ln/rn) -> Coq term of type node float."""
    k = t["t"]
    if k == "prior":
        return "(NPrior %s)" % cnat(t["ref"])
    if k == "const":
        return "(NConst %s)" % cfloat(unhex(t["v"]))
    if k == "tuple":
        return "(NTuple %s)" % clist(["(%s, (%s, %s))" % (cstr(n), cnat(member_index(n)), coq_node(c)) for n, c in t["members"]])
    if k == "arith":
        return "(NBin %s %s %s %s %s)" % (OPS[t["op"]], cstr(t["ln"]), cstr(t["rn"]), coq_node(t["l"]), coq_node(t["r"]))
    if k == "unary":
        return "(NUn %s %s %s)" % (UNOPS[t["op"]], cstr(t["name"]), coq_node(t["a"]))
    if k == "model":
        ctor = clist([cstr(a) for a, _, _ in SIGNATURES[t["cls"]]])
        return "(NModel %s %s %s)" % (cstr(t["cls"]), ctor, clist([cpair(cstr(n), coq_node(c)) for n, c in t["attrs"]]))
    if k == "coll":
        return "(NColl %s)" % clist([cpair(cstr(n), coq_node(c)) for n, c in t["attrs"]])
    raise ValueError("cannot print %s" % k)


def coq_ival(t):
    k = t["t"]
    if k == "v":
        return "(IV %s)" % cfloat(unhex(t["v"]))
    if k == "tup":
        return "(ITup %s)" % clist([coq_ival(x) for x in t["vs"]])
    if k == "obj":
        return "(IObj %s %s)" % (cstr(t["cls"]), clist([cpair(cstr(n), coq_ival(c)) for n, c in t["fields"]]))
    if k == "coll":
        return "(IColl %s)" % clist([cpair(cstr(n), coq_ival(c)) for n, c in t["fields"]])
    return "IMissing"


def coq_path(p):
    return clist([cstr(str(x)) for x in p])


def tree_ok_for_model(t):
    """The Coq model covers names without leading underscore and compound names read from the object."""
    k = t["t"]

    def name_ok(nm):
        return not (nm.startswith("_") or nm in ("id", "cls") or not all(32 <= ord(c) < 127 for c in nm))
    if k == "arith":
        if t["op"] not in OPS or not name_ok(t["ln"]) or not name_ok(t["rn"]):
            return False             # ** : no exact value semantics in the model
        return tree_ok_for_model(t["l"]) and tree_ok_for_model(t["r"])
    if k == "unary":
        # Log / Log10 (numpy) have no exact semantics; a unary form of a float is not API-constructible
        if t["op"] not in UNOPS or not name_ok(t["name"]) or t["a"]["t"] not in ("prior", "arith", "unary"):
            return False
        return tree_ok_for_model(t["a"])
    if k == "tuple":
        return all(tree_ok_for_model(c) for _, c in t["members"])
    if k in ("model", "coll"):
        return all(tree_ok_for_model(c) for _, c in t["attrs"])
    return k in ("prior", "const")


def prior_limits(pool):
    return [(unhex(s["lo"]), unhex(s["hi"])) for s in pool]
