"""Importable classes used by the C07 composition programs (class paths must be importable
so that model.json can be read back)."""


class A1:
    def __init__(self, u=0.0):
        self.u = u


class A2:
    def __init__(self, a=0.0, b=1.0):
        self.a = a
        self.b = b


class A3:
    def __init__(self, x=0.0, y=1.0, z=2.0):
        self.x = x
        self.y = y
        self.z = z


class B3:
    """same constructor as A3: only the class differs"""

    def __init__(self, x=0.0, y=1.0, z=2.0):
        self.x = x
        self.y = y
        self.z = z


class P2:
    def __init__(self, c=0.0, pos=(0.0, 0.0)):
        self.c = c
        self.pos = pos


class H2:
    """holds a nested component and a plain fixed object"""

    def __init__(self, inner=None, s=1.0):
        self.inner = inner
        self.s = s


class Plain:
    """a plain (non-model) object: only constructor-argument attributes are identifying"""

    def __init__(self, p=1.0, q=2.0):
        self.p = p
        self.q = q
        self.derived = p + q          # not a constructor argument: not identifying
        self._hidden = 17.0


class PlainEx(Plain):
    __exclude_identifier_fields__ = ("q",)


class Fielded:
    """an object declaring its identifier fields (one of them a property)"""
    __identifier_fields__ = ("m", "n", "m")

    def __init__(self, m=1, n=2.5, extra="zz"):
        self.m = m
        self._n = n
        self.extra = extra

    @property
    def n(self):
        return self._n


class Broken:
    """declares a field it does not have"""
    __identifier_fields__ = ("present", "absent")

    def __init__(self, present=1.0):
        self.present = present


class KW:
    """keyword-only constructor argument: inspect.getfullargspec(cls).args is just ['self']"""

    def __init__(self, *, p=1.0):
        self.p = p


class Renamed:
    """stores its constructor argument under another attribute name"""

    def __init__(self, p=1.0):
        self.value = p


class DictSub(dict):
    """a dict subclass with a __dict__: the walk treats it as an object (class name, constructor arguments), not as a dict"""

    def __init__(self, items=(), note=0.5):
        super().__init__(items)
        self.note = note


class C2:
    """a model class that HAS prior configuration (written by the driver into <cwd>/config/priors)"""

    def __init__(self, a=0.0, b=1.0):
        self.a = a
        self.b = b


CLASSES = {c.__name__: c for c in (A1, A2, A3, B3, P2, H2, Plain, PlainEx, Fielded, Broken, KW, Renamed, DictSub, C2)}

PRIOR_CONFIG = """C2:
  a:
    type: Uniform
    lower_limit: 0.0
    upper_limit: 7.0
  b:
    type: Uniform
    lower_limit: -3.0
    upper_limit: 3.0
"""

# ordered constructor arguments of the model classes: (arg, kind) ; kind in float|tuple2|any
SIGNATURES = {
    "A1": [("u", "float")],
    "A2": [("a", "float"), ("b", "float")],
    "A3": [("x", "float"), ("y", "float"), ("z", "float")],
    "B3": [("x", "float"), ("y", "float"), ("z", "float")],
    "P2": [("c", "float"), ("pos", "tuple2")],
    "H2": [("inner", "any"), ("s", "float")],
    "C2": [("a", "float"), ("b", "float")],
}
