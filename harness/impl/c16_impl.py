"""C16 implementation driver: runs the real grid-search code on abstract cases."""
import json
import os
import sys
import logging

from vimpl_common import setup, hexf, unhex, exc_name

af, conf = setup()
logging.disable(logging.CRITICAL)

from autofit.non_linear.grid.grid_search import GridSearch, make_lists
from autofit.non_linear.grid.grid_search.result import GridSearchResult
from autofit.non_linear.grid.grid_search.result_builder import ResultBuilder
from autofit.non_linear.grid.grid_search.job import JobResult
from autofit.non_linear.grid import sensitivity as s
from types import SimpleNamespace


from autofit.non_linear.mock.mock_samples import MockSamples
from autofit.non_linear.mock.mock_samples_summary import MockSamplesSummary
from autofit.non_linear.result import Placeholder
import autofit.non_linear.grid.grid_search as gs_mod


class Analysis(af.Analysis):
    """log likelihood = a function of the cell: -(sum_j u_j / (n+1)^j) where u_j is the position of grid
    parameter j (sorted by name) inside its ORIGINAL prior, so distinct cells have distinct likelihoods."""

    def __init__(self, grid=(), n=1):
        self.grid = [(nm, float(lo), float(hi)) for nm, lo, hi in grid]
        self.n = n

    def log_likelihood_function(self, instance):
        ll = 0.0
        for j, (nm, lo, hi) in enumerate(self.grid):
            u = (getattr(instance, nm).centre - lo) / (hi - lo)
            ll -= u / (self.n + 1) ** j
        return ll


class CellSamples(MockSamples):
    @property
    def log_evidence(self):
        return self.samples_info.get("log_evidence")


class MockSearch(af.m.MockSearch):  # the class name is the config section looked up by the library
    """MockSearch whose samples carry the analysis' likelihood at the prior medians of the cell's model."""

    def perform_update(self, model, analysis, during_analysis, search_internal=None):
        kwargs = {path: prior.value_for(0.5) for path, prior in model.path_priors_tuples}
        ll = analysis.log_likelihood_function(model.instance_from_prior_medians())
        return CellSamples(
            sample_list=[af.Sample(log_likelihood=x, log_prior=0.0, weight=w, kwargs=kwargs) for x, w in ((ll - 1.0, 0.0), (ll, 1.0))],
            samples_info={"unconverged_sample_size": 0, "log_evidence": ll - 100.0},
            prior_means=[prior.mean for prior in sorted(model.priors, key=lambda prior: prior.id)],
            model=model,
        )


def permuted_process(order, log=None, after=None):
    """Job runner delivering results in the given order (indices may repeat: re-delivery)."""
    class Perm:
        @staticmethod
        def run_jobs(jobs, *_, **kw):
            jobs = list(jobs)
            if log is not None:
                log["jobs"] = jobs
            for k in order:
                yield jobs[k].perform()
                if after is not None:
                    after(k)
    return Perm


def hexrows(rows):
    return [[hexf(x) for x in r] for r in rows]


ATTRS = ("centre", "normalization", "sigma")


def build_model(priors, extras=None):
    """priors: list of (name, lo, hi) -> Collection of Gaussians, one grid-able UniformPrior (centre) per
    component; `extras[name][attr]` in const | gauss | loguniform | shared | alias:<name> describes the other
    two attributes (alias:<x> = the very prior object of component x's centre, i.e. one prior on two paths)."""
    extras = extras or {}
    objs = {name: af.UniformPrior(lower_limit=lo, upper_limit=hi) for name, lo, hi in priors}
    shared = af.UniformPrior(lower_limit=0.5, upper_limit=2.5)
    comps = {}
    for name, _, _ in priors:
        kw = {"centre": objs[name]}
        for attr in ATTRS[1:]:
            kind = extras.get(name, {}).get(attr, "const")
            if kind == "const":
                kw[attr] = 1.0
            elif kind == "gauss":
                kw[attr] = af.GaussianPrior(mean=1.0, sigma=0.25)
            elif kind == "loguniform":
                kw[attr] = af.LogUniformPrior(lower_limit=0.125, upper_limit=8.0)
            elif kind == "shared":
                kw[attr] = shared
            elif kind.startswith("alias:"):
                kw[attr] = objs[kind[6:]]
            else:
                raise ValueError(kind)
        comps[name] = af.Model(af.Gaussian, **kw)
    return af.Collection(**comps), objs


def describe(mp, original, names):
    """every (component, attribute) of a model: constants by value; priors by type, limits, the first path
    holding the identical object (sharing structure) and whether it is the original model's object."""
    row, first = {}, {}
    for nm in names:
        for attr in ATTRS:
            v = getattr(getattr(mp, nm), attr)
            key = "%s.%s" % (nm, attr)
            if isinstance(v, af.Prior):
                grp = first.setdefault(id(v), key)
                lims = [hexf(v.lower_limit), hexf(v.upper_limit)]
                row[key] = [type(v).__name__] + lims + [grp, v is getattr(getattr(original, nm), attr)]
            else:
                row[key] = ["const", hexf(v)]
    return row


def cell_limits(model, grid):
    return {nm: [hexf(getattr(model, nm).centre.lower_limit), hexf(getattr(model, nm).centre.upper_limit)] for nm in grid}


def grid_object(c, shared, search=None):
    """the GridSearch a case runs on: a fresh one, or -- inside a history -- THE shared object, whose public
    attributes are set to this use's values the way a user refining a grid would set them"""
    if shared is None:
        return GridSearch(search=search or af.m.MockSearch(name="x"), number_of_steps=c["n"],
                          number_of_cores=c.get("cores", 1), result_output_interval=c.get("interval", 100))
    gs = shared["gs"]
    gs.number_of_steps = c["n"]
    gs.number_of_cores = c.get("cores", 1)
    return gs


def model_for(c, shared):
    """the model of a case; inside a history a step with `reuse_model` keeps the previous step's Collection and
    only REPLACES the centre priors whose limits changed (same model object, new limits)"""
    pri = [(nm, unhex(lo), unhex(hi)) for nm, lo, hi in c["priors"]]
    extras = c.get("extras") or {}
    key = json.dumps([[p[0] for p in pri], extras], sort_keys=True)
    aliased = any(v.startswith("alias:") for e in extras.values() for v in e.values())
    if shared is not None and c.get("reuse_model") and not aliased and shared.get("model_key") == key:
        model, objs = shared["model"], shared["objs"]
        for nm, lo, hi in pri:
            if (objs[nm].lower_limit, objs[nm].upper_limit) != (lo, hi):
                objs[nm] = af.UniformPrior(lower_limit=lo, upper_limit=hi)
                getattr(model, nm).centre = objs[nm]
    else:
        model, objs = build_model(pri, extras)
    if shared is not None:
        shared["model"], shared["objs"], shared["model_key"] = model, objs, key
    return model, objs, pri


def sens_object(shared):
    """a bare Sensitivity for the lattice / unit-cell observables; inside a history THE shared object"""
    if shared is None:
        return object.__new__(s.Sensitivity)
    return shared["sens"]


def run_case(c, shared=None):
    kind = c["kind"]
    if kind == "history":
        return history_run(c)
    if kind == "lists":
        n, d, centre = c["n"], c["d"], c["centre"]
        if c.get("via") == "gridsearch":
            gs = grid_object(c, shared)
            lists = gs.make_lists([None] * d)
        else:
            lists = make_lists(d, step_size=1 / n, centre_steps=centre)
        return {"lists": hexrows(lists)}
    if kind == "count":
        n = c["n"]
        return {"count": len(make_lists(1, step_size=1 / n, centre_steps=False))}
    if kind == "cells":
        n = c["n"]
        priors = [af.UniformPrior(lower_limit=unhex(lo), upper_limit=unhex(hi)) for lo, hi in c["priors"]]
        gs = grid_object(c, shared)
        out = []
        for values in gs.make_lists(priors):
            args = gs.make_arguments(values, priors)
            out.append([[hexf(args[p].lower_limit), hexf(args[p].upper_limit)] for p in priors])
        phys = gs.make_physical_lists(priors)
        return {"cells": out, "physical": hexrows(phys)}
    if kind == "infinite":
        # a grid prior without definite limits must be refused (make_arguments raises PriorException)
        gs = grid_object(c, shared)
        lo, hi = unhex(c["lo"]), unhex(c["hi"])
        if c["prior"] == "gauss":
            prior = af.GaussianPrior(mean=0.0, sigma=1.0, lower_limit=lo, upper_limit=hi)
        else:
            prior = af.UniformPrior(lower_limit=0.0, upper_limit=1.0)
            prior.lower_limit, prior.upper_limit = lo, hi
        model = af.Collection(alpha=af.Model(af.Gaussian, centre=prior, normalization=1.0, sigma=1.0))
        try:
            n_models = len(list(gs.model_mappers(model, [prior])))
            return {"raised": None, "n_models": n_models}
        except af.exc.PriorException as e:
            return {"raised": "PriorException"}
    if kind == "mappers":
        n = c["n"]
        model, objs, _ = model_for(c, shared)
        gs = grid_object(c, shared)
        grid = [objs[nm] for nm in c["grid"]]
        mappers = list(gs.model_mappers(model, grid))
        names = [p[0] for p in c["priors"]]
        return {"mappers": [describe(mp, model, names) for mp in mappers], "original": describe(model, model, names),
                "prior_count": [mp.prior_count for mp in mappers], "original_prior_count": model.prior_count,
                "sorted_names": [nm for p in model.sort_priors_alphabetically(set(grid)) for nm in c["grid"] if objs[nm] is p]}
    if kind == "fit":
        return fit_run(c, shared)
    if kind == "jobs":
        return jobs_run(c, shared)
    if kind == "result":
        lists = [[unhex(x) for x in r] for r in c["lower"]]
        r = GridSearchResult(samples=None, lower_limits_lists=lists, grid_priors=[])
        return {"shape": list(r.shape), "side_length": r.side_length, "step_size": hexf(r.step_size),
                "upper": hexrows(r.upper_limits_lists), "centres": hexrows(r.centres_lists),
                "no_steps": r.no_steps, "no_dimensions": r.no_dimensions}
    if kind == "builder":
        total = c["total"]
        lists = [[0.0]] * total
        b = ResultBuilder(lists=lists, grid_priors=[], paths=["path%d" % k for k in range(total)])
        for number, token in c["arrivals"]:
            b.add(JobResult(SimpleNamespace(samples_summary=token), None, number))
        out = []
        for x in b.sample_summaries:
            out.append(x if isinstance(x, int) else None)
        res = []
        for x in b.results:
            res.append(None if isinstance(x, Placeholder) else [x.samples_summary, x.paths])
        return {"summaries": out, "results": res}
    if kind == "sens_lists":
        ns = c["ns"]
        obj = sens_object(shared)
        obj.number_of_steps = tuple(ns) if c["as_tuple"] else ns[0]
        obj.perturb_model = af.Collection(*[af.Model(af.Gaussian, centre=af.UniformPrior(0.0, 1.0), normalization=1.0, sigma=1.0)
                                            for _ in ns])
        obj.limit_scale = 1
        lists = obj._lists
        return {"lists": hexrows(lists), "shape": list(obj.shape)}
    if kind == "sens_sorted":
        from autofit.non_linear.grid.sensitivity.job import JobResult as SJR
        results = []
        for number in c["arrivals"]:
            results.append(SJR(number, SimpleNamespace(samples_summary=number), SimpleNamespace(samples_summary=number)))
            results = sorted(results)
        return {"numbers": [r.number for r in results]}
    if kind == "sens_run":
        return sens_run(c, shared)
    if kind == "sens_cells":
        return sens_cells(c, shared)
    raise ValueError(kind)


def same_prior(a, b, cores):
    """the very object; after a trip through the process pool (pickling) the same prior id, type and limits"""
    if cores == 1:
        return a is b
    return type(a) is type(b) and a.id == b.id and a.lower_limit == b.lower_limit and a.upper_limit == b.upper_limit


def attribute_grid(res, path):
    try:
        return [hexf(x) for x in res.attribute_grid(path)]
    except AttributeError:      # a cell without an instance (it was never fitted)
        return None


def jobs_run(c, shared=None):
    """GridSearch.make_jobs called directly (the models the searches would be handed), paths prepared as fit() does"""
    n = c["n"]
    model, objs, pri = model_for(c, shared)
    names = sorted(c["grid"])
    gs = grid_object(c, shared, MockSearch(name="jb%d" % c["idx"]))
    grid = [objs[nm] for nm in c["grid"]]
    gs.paths.model = model
    gs.paths.search = gs
    jobs = gs.make_jobs(model, Analysis([p for nm in names for p in pri if p[0] == nm], n), grid)
    return {"job_index": [[j.index, j.number] for j in jobs],
            "job_cells": [cell_limits(j.model, c["grid"]) for j in jobs],
            "physical": hexrows(gs.make_physical_lists(model.sort_priors_alphabetically(set(grid)))),
            "sorted_names": [nm for p in model.sort_priors_alphabetically(set(grid)) for nm in c["grid"] if objs[nm] is p]}


def fit_run(c, shared=None):
    """A real grid search through the public GridSearch.fit() (or _fit) with the completion order steered by a
    permuting job runner (number_of_cores == 1) or left to the real Process pool (number_of_cores > 1)."""
    import numpy as np
    n = c["n"]
    model, objs, pri = model_for(c, shared)
    names = sorted(c["grid"])
    analysis = Analysis([p for nm in names for p in pri if p[0] == nm], n)
    cores = c.get("cores", 1)
    gs = grid_object(c, shared, MockSearch(name="gs%d" % c["idx"]))
    grid = [objs[nm] for nm in c["grid"]]
    builders, log, progress = [], {}, []

    class Capture(ResultBuilder):
        def __init__(self, *a, **kw):
            super().__init__(*a, **kw)
            builders.append(self)

    def after(k):
        # what an observer sees while the grid search is running: placeholders for cells not yet finished
        progress.append([not isinstance(x, Placeholder) for x in builders[-1].sample_summaries])

    perm = permuted_process(c["order"], log, after)
    old_rb, old_seq = gs_mod.ResultBuilder, gs_mod.Sequential
    gs_mod.ResultBuilder = Capture
    try:
        if c.get("entry", "fit") == "fit":
            if cores == 1:
                gs_mod.Sequential = perm
            res = gs.fit(model, analysis, grid)
        else:
            res = gs._fit(model, analysis, grid, process_class=perm)
    finally:
        gs_mod.ResultBuilder, gs_mod.Sequential = old_rb, old_seq
    with open(gs.paths.output_path / "results.csv") as f:
        lines = f.read().strip().splitlines()
    header = [x.strip() for x in lines[0].split(",")]
    csv_rows = []
    for ln in lines[1:]:
        parts = [x.strip() for x in ln.split(",")]
        csv_rows.append([int(parts[0])] + [None if x == "" else hexf(float(x)) for x in parts[1:]])
    lls = res.log_likelihoods()
    b = builders[-1]
    return {
        "shape": list(res.shape), "no_steps": res.no_steps, "no_dimensions": res.no_dimensions,
        "lower": hexrows(res.lower_limits_lists),
        "samples": [cell_limits(sm.model, c["grid"]) for sm in res.samples],
        "csv_header": header, "csv": csv_rows,
        "physical_lower": hexrows(res.physical_lower_limits_lists),
        "physical_upper": hexrows(res.physical_upper_limits_lists),
        "physical_centres": hexrows(res.physical_centres_lists),
        "native_shape": list(lls.native.shape),
        "log_likelihoods": [hexf(x) for x in lls],
        "native_flat": [hexf(x) for x in np.asarray(lls.native).flatten(order="C")],
        "log_evidences": [None if sm.log_evidence is None else hexf(sm.log_evidence) for sm in res.samples]
        if any(sm.log_evidence is None for sm in res.samples) else [hexf(x) for x in res.log_evidences()],
        "fom_evidence": [] if any(sm.log_evidence is None for sm in res.samples)
        else [hexf(x) for x in res.figure_of_merits(use_log_evidences=True, relative_to_value=1.0)],
        "attribute_grid": {nm: attribute_grid(res, "%s.centre" % nm) for nm in c["grid"]},
        "best": [i for i, sm in enumerate(res.samples) if sm is res.best_samples],
        "builder_paths": [None if isinstance(r, Placeholder) else cell_limits(r.paths.model, c["grid"]) for r in b.results],
        "builder_results": [None if isinstance(r, Placeholder) else hexf(r.log_likelihood) for r in b.results],
        "job_index": [[j.index, j.number] for j in log.get("jobs", [])],
        "job_cells": [cell_limits(j.model, c["grid"]) for j in log.get("jobs", [])],
        "progress": progress,
        "others_same": all(same_prior(getattr(getattr(sm.model, nm), attr), getattr(getattr(model, nm), attr), cores)
                           for sm in res.samples for nm, _, _ in pri for attr in ATTRS
                           if isinstance(getattr(getattr(model, nm), attr), af.Prior)
                           and getattr(getattr(model, nm), attr) not in grid),
        "sorted_names": [nm for p in model.sort_priors_alphabetically(set(grid)) for nm in c["grid"] if objs[nm] is p],
    }


class _Sim:
    """the 'dataset' simulated for a cell is the perturbation's parameter values"""
    def __call__(self, instance, simulate_path):
        return {nm: float(getattr(instance.perturb, nm)) for nm in ATTRS}


def _encode(dataset, weights):
    return -sum(w * dataset[nm] for nm, w in weights)


def _result(model, ll, dataset, paths):
    summary = MockSamplesSummary(
        model=model,
        max_log_likelihood_sample=af.Sample(log_likelihood=ll, log_prior=0.0, weight=1.0,
                                            kwargs={path: 1.0 for path in model.paths}),
        log_evidence=ll - 100.0,
    )
    summary.c16_dataset = dict(dataset)     # travels with the summary through the library's lists
    summary.c16_label = paths.parent.analysis_name
    return af.m.MockResult(samples_summary=summary, model=model)


class _BaseFit:
    def __init__(self, weights):
        self.weights = weights

    def __call__(self, dataset, model, paths):
        return _result(model, _encode(dataset, self.weights), dataset, paths)


class _PerturbFit:
    def __init__(self, weights):
        self.weights = weights

    def __call__(self, dataset, model, paths):
        return _result(model, 2.0 * _encode(dataset, self.weights) + 1.0, dataset, paths)


def make_sensitivity(c, name):
    """perturb priors are CREATED in the order of c["priors"] (= prior id order), whatever their attribute name"""
    kw = {"centre": 1.0, "normalization": 1.0, "sigma": 1.0}
    for nm, lo, hi in c["priors"]:
        kw[nm] = af.UniformPrior(lower_limit=unhex(lo), upper_limit=unhex(hi))
    perturb_model = af.Model(af.Gaussian, **kw)
    instance = af.ModelInstance()
    instance.gaussian = af.Gaussian()
    weights = [(nm, unhex(w)) for nm, w in c["weights"]]
    ls = c.get("limit_scale", 1)
    return s.Sensitivity(
        simulation_instance=instance,
        base_model=af.Collection(gaussian=af.Model(af.Gaussian, centre=af.UniformPrior(0.0, 1.0), normalization=1.0, sigma=1.0)),
        perturb_model=perturb_model,
        simulate_cls=_Sim(),
        base_fit_cls=_BaseFit(weights),
        perturb_fit_cls=_PerturbFit(weights),
        paths=af.DirectoryPaths(name=name),
        number_of_steps=tuple(c["ns"]) if c["as_tuple"] else c["ns"][0],
        number_of_cores=c.get("cores", 1),
        limit_scale=unhex(ls) if isinstance(ls, str) else ls,
    )


def perturb_model_of(c):
    kw = {"centre": 1.0, "normalization": 1.0, "sigma": 1.0}
    for nm, lo, hi in c["priors"]:
        kw[nm] = af.UniformPrior(lower_limit=unhex(lo), upper_limit=unhex(hi))
    return af.Model(af.Gaussian, **kw)


def sens_run(c, shared=None):
    """Real Sensitivity.run() with the completion order steered by a permuting job runner (or real Process)."""
    if shared is None:
        sens = make_sensitivity(c, "sens%d" % c["idx"])
    else:
        # THE shared Sensitivity object: public attributes set to this use's values
        sens = shared["sens"]
        weights = [(nm, unhex(w)) for nm, w in c["weights"]]
        ls = c.get("limit_scale", 1)
        sens.perturb_model = perturb_model_of(c)
        sens.number_of_steps = tuple(c["ns"]) if c["as_tuple"] else c["ns"][0]
        sens.number_of_cores = c.get("cores", 1)
        sens.limit_scale = unhex(ls) if isinstance(ls, str) else ls
        sens.base_fit_cls, sens.perturb_fit_cls = _BaseFit(weights), _PerturbFit(weights)
    names = [p[0] for p in c["priors"]]
    log = {}
    old = s.Sequential
    s.Sequential = permuted_process(c["order"], log)
    try:
        res = sens.run()
    finally:
        s.Sequential = old
    cells = []
    for sm in res.perturb_samples:
        cells.append({nm: [hexf(getattr(sm.model.perturb, nm).lower_limit), hexf(getattr(sm.model.perturb, nm).upper_limit)] for nm in names})
    with open(sens.results_path) as f:
        lines = f.read().strip().splitlines()
    header = [x.strip() for x in lines[0].split(",")]
    rows = []
    for ln in lines[1:]:
        parts = [x.strip() for x in ln.split(",")]
        rows.append([int(parts[0])] + [None if x == "" else hexf(float(x)) for x in parts[1:]])
    return {"shape": list(res.shape), "n": len(res.samples), "cells": cells, "n_perturb": len(res.perturb_samples),
            "csv_header": header, "csv": rows,
            "base_dataset": [{nm: hexf(sm.c16_dataset[nm]) for nm in names} for sm in res.samples],
            "perturb_dataset": [{nm: hexf(sm.c16_dataset[nm]) for nm in names} for sm in res.perturb_samples],
            "base_label": [sm.c16_label for sm in res.samples],
            "perturb_label": [sm.c16_label for sm in res.perturb_samples],
            "job_labels": [[j.number, j.paths.analysis_name] for j in log.get("jobs", [])],
            "ll_base": [hexf(x) for x in res.log_likelihoods_base],
            "ll_perturbed": [hexf(x) for x in res.log_likelihoods_perturbed],
            "ll_diff": [hexf(x) for x in res.figure_of_merits(use_log_evidences=False)],
            "ev_diff": [hexf(x) for x in res.figure_of_merits(use_log_evidences=True)],
            "centres_from": {nm: [hexf(x) for x in res.perturbed_physical_centres_list_from("perturb.%s" % nm)] for nm in names},
            "native_shape": list(res.log_likelihoods_base.native.shape)}


class _UnitPrior:
    """identity value_for: exposes the unit-cube limits computed by Sensitivity._perturb_models bit for bit"""
    def value_for(self, unit, ignore_prior_limits=False):
        return unit


class _UnitModel:
    def __init__(self, d):
        self.prior_count = d
        self.priors_ordered_by_id = [_UnitPrior() for _ in range(d)]

    def with_limits(self, limits):
        return limits


def sens_cells(c, shared=None):
    ns = c["ns"]
    obj = sens_object(shared)
    obj.number_of_steps = tuple(ns) if c["as_tuple"] else ns[0]
    obj.perturb_model = _UnitModel(len(ns))
    obj.limit_scale = unhex(c["limit_scale"]) if isinstance(c["limit_scale"], str) else c["limit_scale"]
    return {"limits": [[[hexf(lo), hexf(hi)] for lo, hi in lim] for lim in obj._perturb_models]}


HIST_SENS = {"kind": "sens_run", "ns": [1], "as_tuple": False, "priors": [["centre", "0x0p+0", "0x1p+0"]],
             "weights": [[nm, "0x1p+0"] for nm in ATTRS], "limit_scale": 1}


def history_run(c):
    """ONE GridSearch (or Sensitivity) object used for every step of the history, its public attributes changed
    between uses; every step is also run on a fresh object. Returns both answers, step by step."""
    if c["target"] == "grid":
        first = c["steps"][0]
        shared = {"gs": GridSearch(search=MockSearch(name="hist%d" % c["idx"]), number_of_steps=first["n"],
                                   number_of_cores=first.get("cores", 1), result_output_interval=c.get("interval", 100))}
    else:
        shared = {"sens": make_sensitivity(HIST_SENS, "hsens%d" % c["idx"])}
    used, fresh = [], []
    for j, step in enumerate(c["steps"]):
        for out, sh, off in ((used, shared, 0), (fresh, None, 1)):
            st = dict(step)
            st["idx"] = 1000 * (c["idx"] + 1) + 2 * j + off
            try:
                out.append({"ok": run_case(st, sh)})
            except BaseException as e:  # noqa
                out.append({"exc": exc_name(e), "msg": str(e)[:300]})
        # the state under test is the OBJECT's: output written by earlier uses is removed, so that no cell is
        # resumed from a folder an earlier use completed (resumption of finished fits is not C16's subject)
        import shutil
        root = str(conf.instance.output_path)
        for x in os.listdir(root):
            shutil.rmtree(os.path.join(root, x), ignore_errors=True)
    return {"steps": used, "fresh": fresh}


def main():
    cases = json.load(open(sys.argv[1]))["cases"]
    out = []
    for i, c in enumerate(cases):
        c["idx"] = i
        try:
            out.append({"ok": run_case(c)})
        except BaseException as e:  # noqa
            out.append({"exc": exc_name(e), "msg": str(e)[:300]})
    json.dump({"results": out}, open(sys.argv[2], "w"))


main()
