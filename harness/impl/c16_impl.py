"""C16 implementation driver: runs the real grid-search code on abstract cases."""
import json
import os
import sys
import logging

from vimpl_common import setup, hexf, unhex, exc_name

af, conf = setup()
logging.disable(logging.CRITICAL)

from autofit.non_linear.grid.grid_search import GridSearch, make_lists
from autofit.non_linear.grid.grid_search.result import GridSearchResult
from autofit.non_linear.grid.grid_search.result_builder import ResultBuilder
from autofit.non_linear.grid.grid_search.job import JobResult
from autofit.non_linear.grid import sensitivity as s
from types import SimpleNamespace


class Analysis(af.Analysis):
    def log_likelihood_function(self, instance):
        return -1.0


def permuted_process(order):
    class Perm:
        @staticmethod
        def run_jobs(jobs, *_, **kw):
            jobs = list(jobs)
            for k in order:
                yield jobs[k].perform()
    return Perm


def hexrows(rows):
    return [[hexf(x) for x in r] for r in rows]


def build_model(priors):
    """priors: list of (name, lo, hi) -> Collection of single-parameter holders."""
    m = af.Collection()
    objs = {}
    for name, lo, hi in priors:
        p = af.UniformPrior(lower_limit=lo, upper_limit=hi)
        objs[name] = p
    # a flat model class-free composition: collection of collections holding priors
    model = af.Collection(**{name: af.Model(af.Gaussian, centre=objs[name], normalization=1.0, sigma=1.0)
                             for name in objs})
    return model, objs


def run_case(c):
    kind = c["kind"]
    if kind == "lists":
        n, d, centre = c["n"], c["d"], c["centre"]
        if c.get("via") == "gridsearch":
            gs = GridSearch(search=af.m.MockSearch(name="x"), number_of_steps=n)
            lists = gs.make_lists([None] * d)
        else:
            lists = make_lists(d, step_size=1 / n, centre_steps=centre)
        return {"lists": hexrows(lists)}
    if kind == "count":
        n = c["n"]
        return {"count": len(make_lists(1, step_size=1 / n, centre_steps=False))}
    if kind == "cells":
        n = c["n"]
        priors = [af.UniformPrior(lower_limit=unhex(lo), upper_limit=unhex(hi)) for lo, hi in c["priors"]]
        gs = GridSearch(search=af.m.MockSearch(name="x"), number_of_steps=n)
        out = []
        for values in gs.make_lists(priors):
            args = gs.make_arguments(values, priors)
            out.append([[hexf(args[p].lower_limit), hexf(args[p].upper_limit)] for p in priors])
        return {"cells": out}
    if kind == "mappers":
        n = c["n"]
        model, objs = build_model([(nm, unhex(lo), unhex(hi)) for nm, lo, hi in c["priors"]])
        gs = GridSearch(search=af.m.MockSearch(name="x"), number_of_steps=n)
        grid = [objs[nm] for nm in c["grid"]]
        mappers = list(gs.model_mappers(model, grid))
        out = []
        for mp in mappers:
            row = {}
            for nm, _, _ in c["priors"]:
                p = getattr(mp, nm).centre
                row[nm] = [hexf(p.lower_limit), hexf(p.upper_limit), type(p).__name__, p is objs[nm]]
            out.append(row)
        return {"mappers": out, "prior_count": [mp.prior_count for mp in mappers]}
    if kind == "fit":
        n = c["n"]
        model, objs = build_model([(nm, unhex(lo), unhex(hi)) for nm, lo, hi in c["priors"]])
        search = af.m.MockSearch(name="gs%d" % c["idx"])
        gs = GridSearch(search=search, number_of_steps=n)
        grid = [objs[nm] for nm in c["grid"]]
        res = gs._fit(model, Analysis(), grid, process_class=permuted_process(c["order"]))
        samples = []
        for sm in res.samples:
            samples.append({nm: [hexf(getattr(sm.model, nm).centre.lower_limit), hexf(getattr(sm.model, nm).centre.upper_limit)]
                            for nm in c["grid"]})
        csv_rows = []
        with open(gs.paths.output_path / "results.csv") as f:
            lines = f.read().strip().splitlines()
        for ln in lines[1:]:
            parts = [x.strip() for x in ln.split(",")]
            csv_rows.append([int(parts[0])] + [hexf(float(x)) for x in parts[1:1 + len(grid)]])
        return {
            "shape": list(res.shape), "no_steps": res.no_steps, "no_dimensions": res.no_dimensions,
            "lower": hexrows(res.lower_limits_lists), "samples": samples, "csv": csv_rows,
            "physical_lower": hexrows(res.physical_lower_limits_lists),
            "physical_upper": hexrows(res.physical_upper_limits_lists),
            "physical_centres": hexrows(res.physical_centres_lists),
            "native_shape": list(res.log_likelihoods().native.shape),
            "sorted_names": [model.name_for_prior(p).split("_")[0] for p in model.sort_priors_alphabetically(set(grid))],
        }
    if kind == "result":
        lists = [[unhex(x) for x in r] for r in c["lower"]]
        r = GridSearchResult(samples=None, lower_limits_lists=lists, grid_priors=[])
        return {"shape": list(r.shape), "side_length": r.side_length, "step_size": hexf(r.step_size),
                "upper": hexrows(r.upper_limits_lists), "centres": hexrows(r.centres_lists),
                "no_steps": r.no_steps, "no_dimensions": r.no_dimensions}
    if kind == "builder":
        total = c["total"]
        lists = [[0.0]] * total
        b = ResultBuilder(lists=lists, grid_priors=[], paths=[None] * total)
        for number, token in c["arrivals"]:
            b.add(JobResult(SimpleNamespace(samples_summary=token), None, number))
        out = []
        for x in b.sample_summaries:
            out.append(x if isinstance(x, int) else None)
        return {"summaries": out}
    if kind == "sens_lists":
        ns = c["ns"]
        obj = object.__new__(s.Sensitivity)
        obj.number_of_steps = tuple(ns) if c["as_tuple"] else ns[0]
        obj.perturb_model = af.Collection(*[af.Model(af.Gaussian, centre=af.UniformPrior(0.0, 1.0), normalization=1.0, sigma=1.0)
                                            for _ in ns])
        obj.limit_scale = 1
        lists = obj._lists
        return {"lists": hexrows(lists), "shape": list(obj.shape)}
    if kind == "sens_sorted":
        from autofit.non_linear.grid.sensitivity.job import JobResult as SJR
        results = []
        for number in c["arrivals"]:
            results.append(SJR(number, SimpleNamespace(samples_summary=number), SimpleNamespace(samples_summary=number)))
            results = sorted(results)
        return {"numbers": [r.number for r in results]}
    if kind == "sens_run":
        return sens_run(c)
    raise ValueError(kind)


class _Sim:
    def __call__(self, instance, simulate_path):
        return 0.0


def _result(model, ll):
    from autofit.non_linear.mock.mock_samples_summary import MockSamplesSummary
    summary = MockSamplesSummary(
        model=model,
        max_log_likelihood_sample=af.Sample(log_likelihood=ll, log_prior=0.0, weight=1.0,
                                            kwargs={path: 1.0 for path in model.paths}),
    )
    return af.m.MockResult(samples_summary=summary, model=model)


class _BaseFit:
    def __call__(self, dataset, model, paths):
        return _result(model, 0.0)


class _PerturbFit:
    def __call__(self, dataset, model, paths):
        return _result(model, 1.0)


def sens_run(c):
    """Real Sensitivity.run() with the completion order steered by a permuting job runner."""
    ns = c["ns"]
    names = ["centre", "normalization", "sigma"][: len(ns)]
    kw = {"centre": 1.0, "normalization": 1.0, "sigma": 1.0}
    for nm, (lo, hi) in zip(names, c["priors"]):
        kw[nm] = af.UniformPrior(lower_limit=unhex(lo), upper_limit=unhex(hi))
    perturb_model = af.Model(af.Gaussian, **kw)
    instance = af.ModelInstance()
    instance.gaussian = af.Gaussian()
    sens = s.Sensitivity(
        simulation_instance=instance,
        base_model=af.Collection(gaussian=af.Model(af.Gaussian, centre=af.UniformPrior(0.0, 1.0), normalization=1.0, sigma=1.0)),
        perturb_model=perturb_model,
        simulate_cls=_Sim(),
        base_fit_cls=_BaseFit(),
        perturb_fit_cls=_PerturbFit(),
        paths=af.DirectoryPaths(name="sens%d" % c["idx"]),
        number_of_steps=tuple(ns) if c["as_tuple"] else ns[0],
        number_of_cores=1,
    )
    old = s.Sequential
    s.Sequential = permuted_process(c["order"])
    try:
        res = sens.run()
    finally:
        s.Sequential = old
    cells = []
    for sm in res.perturb_samples:
        cells.append([[hexf(getattr(sm.model.perturb, nm).lower_limit), hexf(getattr(sm.model.perturb, nm).upper_limit)] for nm in names])
    rows = []
    with open(sens.results_path) as f:
        lines = f.read().strip().splitlines()
    for ln in lines[1:]:
        rows.append(int(ln.split(",")[0].strip()))
    return {"shape": list(res.shape), "n": len(res.samples), "cells": cells, "csv_index": rows,
            "n_perturb": len(res.perturb_samples)}


def main():
    cases = json.load(open(sys.argv[1]))["cases"]
    out = []
    for i, c in enumerate(cases):
        c["idx"] = i
        try:
            out.append({"ok": run_case(c)})
        except BaseException as e:  # noqa
            out.append({"exc": exc_name(e), "msg": str(e)[:300]})
    json.dump({"results": out}, open(sys.argv[2], "w"))


main()
