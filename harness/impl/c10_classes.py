"""Plain classes used as nested best-fit instances by the C10 driver (importable by path so
that class_path round trips through the database)."""


class Base:
    def __init__(self, **kw):
        self.__dict__.update(kw)

    def __repr__(self):
        return "%s(%s)" % (type(self).__name__, ", ".join("%s=%r" % kv for kv in self.__dict__.items()))


class Root(Base):
    pass


class A(Base):
    pass


class B(A):          # subclass: a type test for A must not match it (class_path equality)
    pass


class C(Base):
    pass


CLASSES = {"Root": Root, "A": A, "B": B, "C": C, "list": list, "tuple": tuple, "dict": dict}


def class_path(name):
    cls = CLASSES[name]
    return "%s.%s" % (cls.__module__, cls.__name__)
