"""C11 implementation driver: writes real fits to a scratch output directory through the real
`search.fit` / `GridSearch.fit` / combined analyses, loads the directory into a database with
`Aggregator.from_database(file).add_directory(dir)`, repeats the same fits through a database session
(`session=`), and reports canonical observables of both databases and of the directory."""
import hashlib
import json
import logging
import os
import shutil
import sys
import zipfile

from vimpl_common import setup, hexf, exc_name

SCRATCH = os.environ.get("VERIF_SCRATCH") or "/tmp/verif_scratch_%d" % os.getpid()
os.makedirs(SCRATCH, exist_ok=True)


def make_config():
    """Own copy of the harness config with samples.csv output switched on (the shared config has
    it off) -- lives in the scratch dir."""
    import yaml
    verif = os.environ.get("VERIF_DIR", "/verif")
    cfg = os.path.join(SCRATCH, "config")
    if not os.path.exists(cfg):
        shutil.copytree(os.path.join(verif, "harness", "config"), cfg)
        p = os.path.join(cfg, "general.yaml")
        g = yaml.safe_load(open(p))
        g["output"]["samples_to_csv"] = True
        g["output"]["remove_files"] = False
        yaml.safe_dump(g, open(p, "w"))
    return cfg


af, conf = setup()
CFG = make_config()
conf.instance.push(new_path=CFG, output_path=os.path.join(SCRATCH, "output"))
logging.disable(logging.CRITICAL)

from autoconf.dictable import to_dict, from_dict  # noqa: E402
from autofit.mapper.identifier import Identifier  # noqa: E402
import c11_classes as kc  # noqa: E402
from c11_search import ScriptedSearch, Interrupt  # noqa: E402


class Quiet:
    def __enter__(self):
        self.o = sys.stdout
        sys.stdout = open(os.devnull, "w")

    def __exit__(self, *a):
        sys.stdout.close()
        sys.stdout = self.o


# ---------------------------------------------------------------------------
# building models / searches from the abstract specs
# ---------------------------------------------------------------------------

def build_prior(p, shared):
    k = p[0]
    if k == "U":
        return af.UniformPrior(lower_limit=p[1], upper_limit=p[2])
    if k == "G":
        return af.GaussianPrior(mean=p[1], sigma=p[2])
    if k == "L":
        return af.LogUniformPrior(lower_limit=p[1], upper_limit=p[2])
    if k == "C":
        return float(p[1])
    if k == "S":
        return shared[p[1]]
    if k == "A":  # arithmetic on a shared prior
        return shared[p[1]] + float(p[2])
    if k == "M":
        return build_comp(p[1], shared)
    raise ValueError(p)


def build_comp(c, shared):
    cls = kc.CLASSES[c["cls"]]
    m = af.Model(cls)
    for arg, p in c["args"].items():
        if p[0] == "T":
            tp = getattr(m, arg)
            for i, q in enumerate(p[1]):
                setattr(tp, "%s_%d" % (arg, i), build_prior(q, shared))
        else:
            setattr(m, arg, build_prior(p, shared))
    return m


def build_model(spec):
    shared = [build_prior(p, []) for p in spec.get("shared", [])]
    comps = [(c["name"], build_comp(c, shared)) for c in spec["comps"]]
    if spec.get("collection", True):
        model = af.Collection(**dict(comps))
    else:
        model = comps[0][1]
    for a in spec.get("assertions", []):
        # [i, j]: shared prior i < shared prior j
        model.add_assertion(shared[a[0]] < shared[a[1]])
    return model, shared


class Analysis(af.Analysis):
    def __init__(self, label="a", latent=False, hdu=False):
        self.label = label
        self.latent = latent
        self.hdu = hdu

    def compute_latent_variables(self, instance):
        if not self.latent:
            raise NotImplementedError()
        vals = [v for _, v in leaves(instance)]
        return {"lat_sum": float(sum(vals)), "lat_first": float(vals[0]) if vals else 0.0}

    def log_likelihood_function(self, instance):
        return 0.0

    def save_attributes(self, paths):
        import numpy as np
        paths.save_json("attr_" + self.label, {"label": self.label})     # a different file name per analysis
        paths.save_json("deep", {"label": self.label, "x": [1, 2.5]}, prefix="sub")   # files/sub/deep.json
        paths.save_object("obj", {"label": self.label, "t": (1, 2)})                  # files/obj.pickle
        paths.save_array("arr", np.array([[1.0, 2.0], [3.0, 4.5]]))                   # files/arr.csv
        if self.hdu:
            from astropy.io import fits
            paths.save_fits("img", fits.PrimaryHDU(np.array([[1.0, 2.0], [3.0, 4.0]])))       # files/img.fits


REAL = {
    "Drawer": lambda **k: af.Drawer(total_draws=4, **k),
    "LBFGS": lambda **k: af.LBFGS(**k),
    "BFGS": lambda **k: af.BFGS(**k),
    "DynestyStatic": lambda **k: af.DynestyStatic(nlive=20, maxcall=50, **k),
    "PySwarmsGlobal": lambda **k: af.PySwarmsGlobal(n_particles=4, iters=2, **k),
    "PySwarmsLocal": lambda **k: af.PySwarmsLocal(n_particles=4, iters=2, **k),
    "Emcee": lambda **k: af.Emcee(nwalkers=6, nsteps=60, **k),
}


class RealAnalysis(af.Analysis):
    def log_likelihood_function(self, instance):
        tot = 0.0
        for v in leaves(instance):
            tot -= (v[1] - 0.25) ** 2
        return tot


def build_search(f, session=None):
    kw = dict(name=f["name"], unique_tag=f.get("tag"), path_prefix=f.get("prefix"))
    if session is not None:
        kw["session"] = session
        kw["save_all_samples"] = True
    s = f["search"]
    if s["cls"] == "Scripted":
        search = ScriptedSearch(script_id=s.get("script_id", 0), flavour=s.get("flavour", "a"), **kw)
        search.scripts = f["scripts"]
        return search
    return REAL[s["cls"]](**kw)


# ---------------------------------------------------------------------------
# canonical observables
# ---------------------------------------------------------------------------

def leaves(obj, prefix=()):
    """(path, float) leaves of a model instance, in attribute order."""
    out = []
    if isinstance(obj, bool):
        return out
    if isinstance(obj, (int, float)):
        return [(".".join(prefix), float(obj))]
    if isinstance(obj, (tuple, list)):
        for i, v in enumerate(obj):
            out += leaves(v, prefix + (str(i),))
        return out
    if isinstance(obj, dict):
        items = obj.items()
    elif hasattr(obj, "__dict__"):
        items = vars(obj).items()
    else:
        return out
    for k, v in items:
        if k in ("id", "item_number") or str(k).startswith("_"):
            continue
        out += leaves(v, prefix + (str(k),))
    return out


def canon_instance(inst):
    if inst is None:
        return None
    return sorted([p, hexf(v)] for p, v in leaves(inst))


def canon_model(model):
    """Canonical, id-free description of a model: prior paths with prior parameters (sharing is
    visible through the grouping of paths), constants, assertions count."""
    if model is None:
        return None
    groups = {}
    for path, prior in model.path_priors_tuples:
        groups.setdefault(prior, []).append(".".join(map(str, path)))
    priors = []
    for prior, paths in groups.items():
        d = {"paths": sorted(paths), "type": type(prior).__name__}
        for a in {"UniformPrior": ("lower_limit", "upper_limit"), "LogUniformPrior": ("lower_limit", "upper_limit"),
                  "GaussianPrior": ("mean", "sigma", "lower_limit", "upper_limit")}.get(type(prior).__name__, ()):
            if hasattr(prior, a):
                try:
                    d[a] = hexf(getattr(prior, a))
                except Exception:  # noqa
                    pass
        priors.append(d)
    priors.sort(key=lambda d: d["paths"])
    from autofit.mapper.prior.abstract import Prior
    consts = sorted([".".join(map(str, p)), hexf(v)]
                    for p, v in model.path_instance_tuples_for_class((float, int), ignore_class=Prior)
                    if not isinstance(v, bool) and p and p[-1] not in ("id", "item_number"))
    return {"priors": priors, "constants": consts, "prior_count": model.prior_count,
            "cls": type(model).__name__, "assertions": len(getattr(model, "assertions", []) or [])}


def canon_key(model, key):
    """canonical name of the parameter a samples column belongs to: the smallest dotted path of its prior"""
    path = tuple(key.split(".")) if isinstance(key, str) else tuple(map(str, key))
    if model is None:
        return ".".join(path)
    try:
        prior = model.object_for_path(path)
        return min(".".join(map(str, p)) for p in model.all_paths_for_prior(prior))
    except Exception:  # noqa
        return ".".join(path)


def vec_keys(model):
    """canonical column names in parameter-vector order"""
    return [min(".".join(map(str, p)) for p in model.all_paths_for_prior(prior)) for prior in model.priors_ordered_by_id]


def canon_samples(samples):
    if samples is None:
        return None
    rows = []
    model = samples.model
    for s in samples.sample_list:
        kv = sorted([canon_key(model, k), hexf(v)] for k, v in s.kwargs.items())
        rows.append({"kv": kv, "ll": hexf(s.log_likelihood), "lp": hexf(s.log_prior), "w": hexf(s.weight)})
    return rows


def latent_rows(ls):
    if ls is None:
        return None
    return sorted([sorted([str(k) if isinstance(k, str) else ".".join(map(str, k)), hexf(v)] for k, v in s.kwargs.items()), hexf(s.log_likelihood)]
                  for s in ls.sample_list)


def canon_fit(fit):
    def guard(fn):
        try:
            return fn()
        except Exception as e:  # noqa
            return "exc:" + type(e).__name__
    return {
        "id": fit.id,
        "name": fit.name,
        "unique_tag": fit.unique_tag,
        "path_prefix": fit.path_prefix,
        "is_complete": fit.is_complete,
        "is_grid_search": bool(fit.is_grid_search),
        "parent_id": fit.parent_id,
        "children": sorted(c.id for c in fit.children),
        "info": guard(lambda: {str(k): v for k, v in sorted(fit.info.items())}),
        "max_log_likelihood": None if fit.max_log_likelihood is None else hexf(fit.max_log_likelihood),
        "model": guard(lambda: canon_model(fit.model)),
        "instance": guard(lambda: canon_instance(fit.instance)),
        "instance_digest": guard(lambda: None if fit.instance is None else digest(canon_instance(fit.instance))),
        "samples": guard(lambda: canon_samples(fit.samples)),
        "jsons": sorted(j.name for j in fit.jsons),
        "json_digest": {j.name: digest(j.dict) for j in fit.jsons},
        "pickles": sorted(p.name for p in fit.pickles),
        "pickle_digest": {p.name: guard(lambda p=p: digest(repr(p.value))) for p in fit.pickles},
        "latent": guard(lambda: latent_rows(fit.latent_samples)),
        "hdus": guard(lambda: {h.name: digest(h.hdu.data.tolist()) for h in fit.hdus}),
        "arrays": sorted(a.name for a in fit.arrays),
        "array_digest": {a.name: guard(lambda a=a: digest([[float(x) for x in row] for row in a.array.tolist()] if a.array.ndim == 2 else a.array.tolist())) for a in fit.arrays},
        # Fit.best_fit of a grid search: the id of the fit it returns | "none" (it returned None) | "exc:<Name>"
        "best_fit": best_fit_outcome(fit) if fit.is_grid_search else None,
        # the cells in the order the relationship lists them (the order Fit.best_fit walks them in)
        "children_order": [c.id for c in fit.children],
    }


def best_fit_outcome(fit):
    try:
        best = fit.best_fit
    except Exception as e:  # noqa
        return "exc:" + type(e).__name__
    return "none" if best is None else best.id


def grid_queries(agg):
    """the aggregator's own routes to the grid searches and their best fits"""
    st = {}
    st["grid_searches"] = sorted(f.id for f in agg.grid_searches().fits)
    best = list(agg.grid_searches().best_fits().fits)
    st["best_fits"] = sorted(f.id for f in best)
    by = {}
    for f in best:
        by.setdefault(f.parent_id, []).append(f.id)
    st["best_fits_by_parent"] = {k: sorted(v) for k, v in by.items()}
    # ... and the route through the fits the aggregator hands out: [grid search].best_fit
    st["best_fit_via_aggregator"] = {g.id: best_fit_outcome(g) for g in agg.grid_searches().fits}
    return st


def digest(obj):
    return hashlib.sha1(json.dumps(obj, sort_keys=True, default=str).encode()).hexdigest()[:16]


def dump_db(path):
    """Re-open the database file (fresh session: only committed state) and list every fit."""
    from autofit.database import open_database
    from autofit.database.model import Fit
    session = open_database(str(path))
    try:
        fits = session.query(Fit).all()
        out = [canon_fit(f) for f in fits]
        out.sort(key=lambda d: d["id"])
        return out
    finally:
        session.close()
        session.bind.dispose() if getattr(session, "bind", None) is not None else None


# ---------------------------------------------------------------------------
# directory inspection (independent of the aggregator)
# ---------------------------------------------------------------------------

def inspect_dir(root):
    """Folders below root that hold a metadata file or a grid-search marker, read with plain
    os/json/csv -- the independent account of what the directory holds."""
    import csv
    out = []
    for d, sub, files in os.walk(root):
        if "metadata" not in files and ".is_grid_search" not in files and ".identifier" not in files:
            continue
        rel = os.path.relpath(d, root)
        e = {"rel": rel, "folder": os.path.basename(d), "metadata": "metadata" in files,
             "completed": ".completed" in files, "grid_marker": None, "parent_identifier": None,
             "description": None, "files": [], "analyses": [], "samples": None, "info": None}
        if ".is_grid_search" in files:
            e["grid_marker"] = open(os.path.join(d, ".is_grid_search")).read()
        if ".parent_identifier" in files:
            e["parent_identifier"] = open(os.path.join(d, ".parent_identifier")).read()
        if ".identifier" in files:
            desc = open(os.path.join(d, ".identifier")).read()
            e["description"] = desc
            e["description_md5"] = hashlib.md5(".".join(desc.split("\n")).encode("utf-8")).hexdigest()
        fp = os.path.join(d, "files")
        if os.path.isdir(fp):
            for dd, _, ff in os.walk(fp):
                for f in ff:
                    e["files"].append(os.path.relpath(os.path.join(dd, f), fp))
            e["files"].sort()
            ip = os.path.join(fp, "info.json")
            if os.path.exists(ip):
                try:
                    e["info"] = json.load(open(ip))
                except Exception:  # noqa
                    e["info"] = "unreadable"
            sp = os.path.join(fp, "samples.csv")
            if os.path.exists(sp) and os.path.exists(os.path.join(fp, "samples_info.json")):
                with open(sp) as f:
                    rows = list(csv.reader(f))
                hdr = [h.strip() for h in rows[0]]
                body = []
                for r in rows[1:]:
                    vals = [float(x) for x in r]
                    rec = dict(zip(hdr, vals))
                    body.append({"raw": [[h, hexf(rec[h])] for h in hdr if h not in ("log_likelihood", "log_prior", "log_posterior", "weight")],
                                 "ll": hexf(rec["log_likelihood"]), "lp": hexf(rec["log_prior"]), "w": hexf(rec["weight"])})
                e["samples"] = {"header": hdr, "rows": body}
            for nm in ("search", "model"):
                jp = os.path.join(fp, nm + ".json")
                if os.path.exists(jp):
                    try:
                        e[nm + "_digest"] = digest(json.load(open(jp)))
                    except Exception:  # noqa
                        e[nm + "_digest"] = "unreadable"
            jp = os.path.join(fp, "search.json")
            sj = None
            if os.path.exists(jp):
                try:
                    sj = json.load(open(jp))
                except Exception:  # noqa
                    sj = None
            if sj is not None:
                e["search_cls"] = str(sj.get("class_path", "")).split(".")[-1]
                e["search_keys"] = sorted(sj.get("arguments", {}).keys())
                e["search_name"] = sj.get("arguments", {}).get("name")
                e["search_tag"] = sj.get("arguments", {}).get("unique_tag")
            lp = os.path.join(fp, "latent", "samples.csv")
            if os.path.exists(lp) and os.path.exists(os.path.join(fp, "latent", "samples_info.json")):
                with open(lp) as fh:
                    lrows = list(csv.reader(fh))
                lh = [h.strip() for h in lrows[0]]
                e["latent"] = sorted([sorted([h, hexf(float(v))] for h, v in zip(lh, r_) if h not in ("log_likelihood", "log_prior", "log_posterior", "weight")),
                                      hexf(float(dict(zip(lh, r_))["log_likelihood"]))] for r_ in lrows[1:])
            e["hdu_digests"] = {}
            for rel_ in e["files"]:
                if rel_.endswith(".fits"):
                    try:
                        from astropy.io import fits as _fits
                        with _fits.open(os.path.join(fp, rel_)) as hd_:
                            e["hdu_digests"][os.path.splitext(rel_)[0].replace(os.sep, ".")] = digest(hd_[0].data.tolist())
                    except Exception:  # noqa
                        e["hdu_digests"][os.path.splitext(rel_)[0].replace(os.sep, ".")] = "unreadable"
            e["pickle_digests"] = {}
            e["array_digests"] = {}
            for rel_ in e["files"]:
                nm_ = os.path.splitext(rel_)[0].replace(os.sep, ".")
                if rel_.endswith(".pickle"):
                    try:
                        import dill as _dill
                        with open(os.path.join(fp, rel_), "rb") as fh:
                            e["pickle_digests"][nm_] = digest(repr(_dill.load(fh)))
                    except Exception:  # noqa
                        e["pickle_digests"][nm_] = "unreadable"
                elif rel_.endswith(".csv") and nm_ not in ("samples", "latent.samples"):
                    try:
                        import numpy as _np
                        arr_ = _np.loadtxt(os.path.join(fp, rel_), delimiter=",")
                        e["array_digests"][nm_] = digest([[float(x) for x in row] for row in arr_.tolist()] if arr_.ndim == 2 else arr_.tolist())
                    except Exception:  # noqa
                        pass
            e["json_digests"] = {}
            for rel_ in e["files"]:
                if rel_.endswith(".json"):
                    nm_ = rel_[:-5].replace(os.sep, ".")
                    try:
                        e["json_digests"][nm_] = digest(json.load(open(os.path.join(fp, rel_))))
                    except Exception:  # noqa
                        e["json_digests"][nm_] = "unreadable"
        ap = os.path.join(d, "analyses")
        if os.path.isdir(ap):
            for a in os.listdir(ap):  # raw listing order (what glob sees)
                af_ = os.path.join(ap, a, "files")
                names = sorted(os.listdir(af_)) if os.path.isdir(af_) else []
                label = None
                for n_ in names:
                    if n_.startswith("attr_") and n_.endswith(".json"):
                        label = json.load(open(os.path.join(af_, n_))).get("label")
                dig = {}
                if os.path.isdir(af_):
                    for dd_, _, ff_ in os.walk(af_):
                        for n_ in ff_:
                            if n_.endswith(".json"):
                                rel2 = os.path.relpath(os.path.join(dd_, n_), af_)
                                dig[rel2[:-5].replace(os.sep, ".")] = digest(json.load(open(os.path.join(dd_, n_))))
                e["analyses"].append({"name": a, "files": names, "label": label, "json_digests": dig})
        out.append(e)
    return out


def recompute_id(folder, vectors=None):
    """Identifier recomputed from the files, by this driver (not via SearchOutput)."""
    fp = os.path.join(folder, "files")
    try:
        search = from_dict(json.load(open(os.path.join(fp, "search.json"))))
    except Exception as e:  # noqa
        return {"exc": exc_name(e), "msg": str(e)[:200]}
    info_error = None
    if os.path.exists(os.path.join(fp, "info.json")):
        try:
            json.load(open(os.path.join(fp, "info.json")))
        except Exception as e:  # noqa
            info_error = exc_name(e)
    try:
        model = from_dict(json.load(open(os.path.join(fp, "model.json"))))
        ident = Identifier([search, model, search.unique_tag])
        out = {"id": str(ident), "tokens": ident.hash_list, "name": search.name, "unique_tag": search.unique_tag,
               "model": canon_model(model), "insts": None, "load_error": info_error}
        if vectors is not None:
            try:
                out["keymap"] = {h: canon_key(model, h) for h, _ in (vectors[0] if vectors else [])}
                order = vec_keys(model)
                insts = []
                for raw in vectors:
                    byk = {out["keymap"][h]: float.fromhex(x) for h, x in raw}
                    insts.append(digest(canon_instance(model.instance_from_vector([byk[k] for k in order], ignore_prior_limits=True))))
                out["insts"] = insts
            except Exception as e:  # noqa
                out["insts_exc"] = exc_name(e) + ": " + str(e)[:100]
            # does the best-fit instance load from samples.csv with the stored model? (library calls only)
            try:
                import csv as _csv
                from autofit.non_linear.samples.sample import samples_from_iterator
                from autoconf.class_path import get_class
                info_json = json.load(open(os.path.join(fp, "samples_info.json")))
                with open(os.path.join(fp, "samples.csv")) as f:
                    sl = samples_from_iterator(_csv.reader(f))
                cls = get_class(info_json["class_path"])
                smp = cls.from_list_info_and_model(sample_list=sl, samples_info=info_json, model=model)
                try:
                    smp.max_log_likelihood()
                except (AttributeError, NotImplementedError):
                    pass
            except Exception as e:  # noqa
                out["load_error"] = exc_name(e)
        return out
    except Exception as e:  # noqa
        return {"exc": exc_name(e), "msg": str(e)[:200]}


# ---------------------------------------------------------------------------
# scenario execution
# ---------------------------------------------------------------------------

def apply_layout(out_path, layout, delete=()):
    """zip_remove left `<id>` and `<id>.zip` (remove_files is off); reshape to the requested layout.
    zip | folder | both (archive + identical folder) |
    zip+partial: archive + a folder from which `delete` was removed (a kill during the rmtree after zipping or during
                 restore()'s extraction) | zip+stale: archive + the folder as it was before the fit completed"""
    z = str(out_path) + ".zip"
    if not os.path.exists(z):
        return
    if layout == "zip":
        shutil.rmtree(out_path, ignore_errors=True)
    elif layout == "folder":
        os.remove(z)
    elif layout == "zip+partial":
        for rel in delete:
            t = os.path.join(str(out_path), rel)
            if os.path.isdir(t):
                shutil.rmtree(t, ignore_errors=True)
            elif os.path.exists(t):
                os.remove(t)
    elif layout == "zip+stale":
        for rel in (".completed", "files/samples.csv", "files/samples_info.json", "files/samples_summary.json", "model.results"):
            t = os.path.join(str(out_path), rel)
            if os.path.exists(t):
                os.remove(t)
        ip = os.path.join(str(out_path), "files", "info.json")
        if os.path.exists(ip):
            with open(ip, "w") as fh:
                json.dump({"stale": "older run"}, fh)
    # "both": keep as is


def inject_prefit_fault(paths, stage):
    """Make DirectoryPaths.save_all stop at `stage` (harness-side fault injection on the paths OBJECT; the
    code of /repo is untouched). `*_partial`: the file being written is left truncated, as a kill leaves it."""
    name, partial = (stage[:-8], True) if stage.endswith("_partial") else (stage, False)
    if name == "model_info":
        def boom(*a, **k):
            raise Interrupt()
        paths._save_model_info = boom
    elif name == "metadata":
        def boom(*a, **k):
            raise Interrupt()
        paths._save_metadata = boom
    elif name in ("info", "search", "model") and not partial:
        orig = paths.save_json

        def save_json(nm, object_dict, prefix=""):
            if nm == name:
                raise Interrupt()
            return orig(nm, object_dict, prefix)
        paths.save_json = save_json
    elif name in ("info", "search", "model"):
        # the process dies while json.dump is writing the file: whatever file object the real save_json
        # opened for it keeps the first half of the text
        import autofit.non_linear.paths.directory as D
        real_json = D.json

        class DyingJson:
            def __getattr__(self, k):
                return getattr(real_json, k)

            def dump(self, obj, fh, **kw):
                fn = str(getattr(fh, "name", ""))
                if os.path.basename(os.path.dirname(fn)) == "files" and os.path.basename(fn).startswith(name + ".json"):
                    text = real_json.dumps(obj, **kw)
                    fh.write(text[: max(1, len(text) // 2)])
                    fh.flush()
                    raise Interrupt()
                return real_json.dump(obj, fh, **kw)
        D.json = DyingJson()
        return lambda: setattr(D, "json", real_json)
    else:
        raise ValueError(stage)


def run_fit(f, session=None):
    """One fit spec through the real API. Returns what the code chose (identifier, path...)."""
    model, shared = build_model(f["model"])
    rec = {"type": f["type"], "exc": None}
    search = build_search(f, session=session)
    n_an = f.get("n_analyses", 1)
    if f["search"]["cls"] == "Scripted":
        analysis = Analysis("a0", latent=bool(f.get("latent")), hdu=bool(f.get("hdu")))
        for i in range(1, n_an):
            analysis = analysis + Analysis("a%d" % i)
    else:
        analysis = RealAnalysis()
    try:
        if f["type"] == "grid":
            gs = af.SearchGridSearch(search=search, number_of_steps=f["grid"]["steps"], number_of_cores=1)
            grid_priors = [shared[k] for k in f["grid"]["shared"]]
            try:
                with Quiet():
                    res = gs.fit(model=model, analysis=analysis, grid_priors=grid_priors, info=f.get("info"))
            except Interrupt:
                rec["interrupted"] = True      # a cell was killed: the grid search stops there, its folder stays
            rec["identifier"] = gs.paths.identifier
            rec["output_path"] = str(gs.paths.output_path)
            rec["cells"] = list(search.log)
            if session is None and f.get("layout") in ("zip", "folder"):
                for c in rec["cells"]:
                    apply_layout(c["output_path"], f["layout"])
        else:
            info = f.get("info")
            pf = f.get("prefit")
            undo = None
            if pf and session is None:
                if pf.get("resume"):
                    # an earlier run of the same fit got as far as the sampler: metadata, search.json, model.json exist
                    search.scripts = [dict(f["scripts"][0], interrupt="before_samples")]
                    try:
                        with Quiet():
                            search.fit(model=model, analysis=analysis, info=info)
                    except Interrupt:
                        pass
                    search.scripts = f["scripts"]
                if pf["stage"] == "info_unserialisable":
                    import numpy as np
                    info = dict(info or {}, array=np.arange(3.0))   # json cannot serialise it: TypeError inside save_all
                else:
                    undo = inject_prefit_fault(search.paths, pf["stage"])
            try:
                with Quiet():
                    search.fit(model=model, analysis=analysis, info=info)
            except Interrupt:
                rec["interrupted"] = True
                if session is not None:
                    session.commit()
            except TypeError as e:
                if not (pf and pf["stage"] == "info_unserialisable"):
                    raise
                rec["interrupted"] = True
                rec["prefit_exc"] = "TypeError"
            finally:
                if undo:
                    undo()
            rec["identifier"] = search.paths.identifier
            rec["output_path"] = str(search.paths.output_path)
            if session is None:
                apply_layout(search.paths.output_path, f.get("layout", "both"), f.get("delete", ()))
    except Interrupt:
        rec["interrupted"] = True
    except BaseException as e:  # noqa
        rec["exc"] = exc_name(e)
        rec["msg"] = str(e)[:300]
    # the live identifier tokens, computed by this driver from the live objects
    try:
        lst = [search, model] + ([f["tag"]] if f.get("tag") is not None else [])
        if f["type"] != "grid":
            rec["live_id"] = str(Identifier(lst))
    except BaseException as e:  # noqa
        rec["live_id_exc"] = exc_name(e)
    rec["prior_count"] = model.prior_count
    rec["model"] = canon_model(model)
    try:
        rec["vec_keys"] = vec_keys(model)
    except BaseException as e:  # noqa
        rec["vec_keys_exc"] = exc_name(e)
    if f["search"]["cls"] == "Scripted" and f["type"] != "grid":
        n = model.prior_count
        try:
            rec["insts"] = [digest(canon_instance(model.instance_from_vector([float(x) for x in v[:n]], ignore_prior_limits=True)))
                            for v in f["scripts"][0]["vectors"]]
        except BaseException as e:  # noqa
            rec["insts_exc"] = exc_name(e)
    return rec


def load_directory(agg, directory, c):
    """the call a user makes: the keyword is passed only when it differs from the documented default"""
    if c.get("completed_only", False):
        agg.add_directory(directory, completed_only=True)
    else:
        agg.add_directory(directory)


def scenario(c, idx):
    root = os.path.join(SCRATCH, "sc%d" % idx)
    out = os.path.join(root, "output")
    os.makedirs(out, exist_ok=True)
    conf.instance.push(new_path=CFG, output_path=out)
    res = {"fits": [], "scrape": None, "direct": None}
    import numpy as np
    seed = int(hashlib.sha1(json.dumps([f["name"] for f in c["fits"]] + [c.get("seed", 0)]).encode()).hexdigest()[:8], 16)
    np.random.seed(seed)
    for f in c["fits"]:
        res["fits"].append(run_fit(f))
    for cp in c.get("copies", []):
        src = res["fits"][cp["fit"]].get("output_path")
        if src and os.path.isdir(src):
            dst = os.path.join(out, cp["to"], os.path.basename(src))
            shutil.copytree(src, dst)
    # what lies on disk before the load: the folders as they are (no extraction) and, separately, every archive
    # extracted into an empty tree of its own
    if c.get("disk_view"):
        res["directory_raw"] = inspect_dir(out)
        arch_root = os.path.join(root, "archives")
        for d, _, files in os.walk(out):
            for fn in files:
                if fn.endswith(".zip"):
                    dst = os.path.join(arch_root, os.path.relpath(d, out), fn[:-4])
                    with zipfile.ZipFile(os.path.join(d, fn)) as z:
                        z.extractall(dst)
        res["directory_archives"] = inspect_dir(arch_root) if os.path.isdir(arch_root) else []
        for view in ("directory_raw", "directory_archives"):
            base = out if view == "directory_raw" else arch_root
            for e in res[view]:
                if e["metadata"]:
                    vecs = [r["raw"] for r in e["samples"]["rows"]] if e.get("samples") else None
                    e["recomputed"] = recompute_id(os.path.join(base, e["rel"]), vecs)
        shutil.rmtree(arch_root, ignore_errors=True)
    # independent inspection must see unpacked folders: inspect a copy with archives unpacked
    insp_root = os.path.join(root, "inspect")
    shutil.copytree(out, insp_root)
    for d, _, files in os.walk(insp_root):
        for fn in files:
            if fn.endswith(".zip"):
                with zipfile.ZipFile(os.path.join(d, fn)) as z:
                    z.extractall(os.path.join(d, fn[:-4]))
    res["directory"] = inspect_dir(insp_root)
    for e in res["directory"]:
        if e["metadata"]:
            vecs = [r["raw"] for r in e["samples"]["rows"]] if e.get("samples") else None
            e["recomputed"] = recompute_id(os.path.join(insp_root, e["rel"]), vecs)
    shutil.rmtree(insp_root, ignore_errors=True)
    # route 1: scrape
    db1 = os.path.join(root, "scraped.sqlite")
    sc = {"exc": None}

    def one_load(directory):
        st = {"exc": None}
        try:
            with Quiet():
                agg = af.Aggregator.from_database(db1)
                try:
                    load_directory(agg, directory, c)
                    st["top_level"] = sorted(f.id for f in agg.fits)
                    st.update(grid_queries(agg))
                finally:
                    agg.session.close()
        except BaseException as e:  # noqa
            st["exc"] = exc_name(e)
            st["msg"] = str(e)[:300]
        return st

    if c.get("two_dirs"):
        first = one_load(os.path.join(out, "A"))
        try:
            first["fits"] = dump_db(db1)
        except BaseException as e:  # noqa
            first["fits"] = []
        sc = one_load(os.path.join(out, "B"))
        sc["first"] = first
    else:
        sc = one_load(out)
    try:
        sc["fits"] = dump_db(db1)
    except BaseException as e:  # noqa
        sc["dump_exc"] = exc_name(e) + ": " + str(e)[:200]
        sc["fits"] = []
    # walk order of the unpacked output directory as the aggregator saw it
    order = []
    for d, _, files in os.walk(out):
        if "metadata" in files or ".is_grid_search" in files:
            order.append(os.path.relpath(d, out))
    sc["walk_order"] = order
    res["scrape"] = sc
    # route 2: the same fits through a database session
    if c.get("direct", True):
        out2 = os.path.join(root, "output_direct")
        conf.instance.push(new_path=CFG, output_path=out2)
        db2 = os.path.join(root, "direct.sqlite")
        dr = {"exc": None, "fits_run": []}
        try:
            from autofit.database import open_database
            session = open_database(db2)
            for f in c["fits"]:
                if (f.get("n_analyses", 1) > 1 and f["scripts"][0].get("interrupt")) or f.get("prefit"):
                    # combined analyses through a session create their own kind of child fits: not compared
                    dr["fits_run"].append({"skipped": True})
                    continue
                dr["fits_run"].append(run_fit(f, session=session))
            session.commit()
            session.close()
        except BaseException as e:  # noqa
            dr["exc"] = exc_name(e)
            dr["msg"] = str(e)[:300]
        try:
            dr["fits"] = dump_db(db2)
        except BaseException as e:  # noqa
            dr["dump_exc"] = exc_name(e) + ": " + str(e)[:200]
            dr["fits"] = []
        try:
            with Quiet():
                agg2 = af.Aggregator.from_database(db2)
                try:
                    dr.update(grid_queries(agg2))
                finally:
                    agg2.session.close()
        except BaseException as e:  # noqa
            dr["query_exc"] = exc_name(e) + ": " + str(e)[:200]
        res["direct"] = dr
    shutil.rmtree(root, ignore_errors=True)
    return res


# ---------------------------------------------------------------------------
# search settings round trip (every search class)
# ---------------------------------------------------------------------------

def search_classes():
    from autofit.non_linear.search.abstract_search import NonLinearSearch
    import inspect as _i
    seen = []

    def subs(c):
        for s in c.__subclasses__():
            if s not in seen:
                seen.append(s)
            subs(s)
    subs(NonLinearSearch)
    out = []
    for c in seen:
        if _i.isabstract(c) or c.__module__.startswith("autofit.non_linear.mock") or not c.__module__.startswith("autofit."):
            continue
        if c.__name__.startswith("Abstract"):
            continue
        out.append(c)
    return out


def settings_case(c):
    cls = {k.__name__: k for k in search_classes()}.get(c["cls"])
    if cls is None:
        return {"missing": True, "classes": sorted(k.__name__ for k in search_classes())}
    kw = dict(c.get("kwargs", {}))
    ini = kw.pop("initializer", None)
    if ini == "ball":
        kw["initializer"] = af.InitializerBall(lower_limit=0.25, upper_limit=0.75)
    elif ini == "prior":
        kw["initializer"] = af.InitializerPrior()
    base = dict(name=c.get("name"), unique_tag=c.get("tag"), path_prefix=c.get("prefix"))
    base = {k: v for k, v in base.items() if v is not None or k == "unique_tag"}
    r = {"cls": c["cls"], "fields": list(getattr(cls, "__identifier_fields__", ()) or ())}
    try:
        s = cls(**base, **kw)
    except BaseException as e:  # noqa
        return dict(r, stage="construct", exc=exc_name(e), msg=str(e)[:200])
    model = af.Model(kc.K2, a=af.UniformPrior(0.0, 1.0), b=af.UniformPrior(0.0, 1.0))
    s.paths.model = model
    s.paths.unique_tag = s.unique_tag
    r["live_tokens"] = Identifier([s]).hash_list
    r["live_id"] = s.paths.identifier
    r["field_values"] = {k: repr(getattr(s, k, None)) for k in r["fields"]}
    try:
        d = json.loads(json.dumps(to_dict(s)))
    except BaseException as e:  # noqa
        return dict(r, stage="to_dict", exc=exc_name(e), msg=str(e)[:200])
    r["argument_keys"] = sorted(d.get("arguments", {}).keys())
    try:
        s2 = from_dict(d)
    except BaseException as e:  # noqa
        return dict(r, stage="from_dict", exc=exc_name(e), msg=str(e)[:200])
    try:
        r["reload_tokens"] = Identifier([s2]).hash_list
        r["reload_id"] = str(Identifier([s2, model, s2.unique_tag]))
        r["reload_name"] = s2.name
        r["reload_tag"] = s2.unique_tag
        r["reload_field_values"] = {k: repr(getattr(s2, k, None)) for k in r["fields"]}
        r["reload_type"] = type(s2).__name__
    except BaseException as e:  # noqa
        return dict(r, stage="identifier", exc=exc_name(e), msg=str(e)[:200])
    r["stage"] = "ok"
    return r


def main():
    payload = json.load(open(sys.argv[1]))
    out = []
    for i, c in enumerate(payload["cases"]):
        try:
            if c["kind"] == "scenario":
                out.append({"ok": scenario(c, i)})
            elif c["kind"] == "settings":
                out.append({"ok": settings_case(c)})
            elif c["kind"] == "classes":
                out.append({"ok": {"classes": sorted(k.__name__ for k in search_classes())}})
            else:
                raise ValueError(c["kind"])
        except BaseException as e:  # noqa
            import traceback
            out.append({"exc": exc_name(e), "msg": str(e)[:300], "tb": traceback.format_exc()[-1500:]})
    json.dump({"results": out}, open(sys.argv[2], "w"))


main()
