"""C07 implementation driver: builds real searches / models from abstract fit specifications,
computes identifiers through the real code (Identifier, AbstractPaths.identifier, SearchOutput.id,
output folder of a real fit) and abstracts the live objects (raw __dict__ / getattr walks).

IMPORTANT: CompoundPrior names its attributes after the local variables of the frames on the
stack (retrieve_name).  To make those names a function of the abstract program only, no frame of
this driver ever binds a model object that may become an arithmetic operand to a *local
variable* while an arithmetic expression is evaluated: operands live in containers and the
expression is exec'ed with a locals dict holding exactly the chosen names.
"""
import copy
import inspect
import json
import logging
import os
import sys
from hashlib import md5
from pathlib import Path

from vimpl_common import setup, hexf, unhex, exc_name

af, conf = setup()
logging.disable(logging.CRITICAL)

import c07_classes

# prior configuration of the one configured class, in <cwd>/config/priors (cwd is the scratch directory)
os.makedirs(os.path.join(os.getcwd(), "config", "priors"), exist_ok=True)
with open(os.path.join(os.getcwd(), "config", "priors", "c07_classes.yaml"), "w") as _f:
    _f.write(c07_classes.PRIOR_CONFIG)
import numpy as np
from autofit.mapper.identifier import Identifier
from autofit.mapper.model_object import ModelObject
from autofit.aggregator.search_output import SearchOutput
from autoconf.dictable import to_dict, from_dict

SEARCHES = {
    "Emcee": af.Emcee, "DynestyStatic": af.DynestyStatic, "DynestyDynamic": af.DynestyDynamic,
    "PySwarmsGlobal": af.PySwarmsGlobal, "PySwarmsLocal": af.PySwarmsLocal,
    "BFGS": af.BFGS, "LBFGS": af.LBFGS, "Drawer": af.Drawer,
    "Zeus": af.Zeus, "Nautilus": af.Nautilus, "UltraNest": af.UltraNest,
    "MockSearch": af.m.MockSearch,
}
BINOPS = {"+": "SumPrior", "*": "MultiplePrior", "/": "DivisionPrior", "//": "FloorDivPrior",
          "%": "ModPrior", "**": "PowerPrior"}
UNOPS = {"neg": "-%s", "abs": "abs(%s)"}


def _floats(x, depth=0):
    if isinstance(x, bool) or depth > 6:
        return
    if isinstance(x, (int, float)):
        yield float(x)
    elif isinstance(x, (tuple, list)):
        for y in x:
            yield from _floats(y, depth + 1)
    elif hasattr(x, "__dict__"):
        for k, y in x.__dict__.items():
            if k != "id":
                yield from _floats(y, depth + 1)


class Analysis(af.Analysis):
    """smooth likelihood that depends on every parameter (values differ between samples)"""

    def log_likelihood_function(self, instance):
        import math
        return -sum(math.tanh(v * 1e-2) ** 2 + 1e-3 * math.sin(v) for v in _floats(instance))


# ---------------------------------------------------------------------------------------
# building
# ---------------------------------------------------------------------------------------
def make_prior(spec):
    fam = spec["fam"]
    if fam == "Uniform":
        return af.UniformPrior(lower_limit=unhex(spec["lo"]), upper_limit=unhex(spec["hi"]))
    if fam == "LogUniform":
        return af.LogUniformPrior(lower_limit=unhex(spec["lo"]), upper_limit=unhex(spec["hi"]))
    if fam == "Gaussian":
        return af.GaussianPrior(mean=unhex(spec["mean"]), sigma=unhex(spec["sigma"]),
                                lower_limit=unhex(spec["lo"]), upper_limit=unhex(spec["hi"]))
    if fam == "LogGaussian":
        return af.LogGaussianPrior(mean=unhex(spec["mean"]), sigma=unhex(spec["sigma"]),
                                   lower_limit=unhex(spec["lo"]), upper_limit=unhex(spec["hi"]))
    raise ValueError(fam)


def make_pool(specs, order, waste):
    """Priors are created in `order` (a permutation), `waste` throw-away objects first, so that
    ids and creation order vary independently of the composition."""
    [af.UniformPrior(0.0, 1.0) for _ in range(waste)]
    [af.Collection() for _ in range(waste // 2)]
    created = {i: make_prior(specs[i]) for i in order}
    return [created[i] for i in range(len(specs))]


def numpy_value(e):
    k = e["dtype"]
    if k == "complex":
        return complex(e["v"], 1.0)
    return getattr(np, k)(e["v"])


def describe(v):
    """module.type:python-value (independent of numpy's repr)"""
    try:
        shown = repr(v.item()) if hasattr(v, "item") else repr(v)
    except Exception:  # noqa
        shown = "?"
    return clean("%s.%s:%s" % (type(v).__module__, type(v).__name__, shown))


def literal(e):
    return repr(unhex(e["v"]))


def build(e, pool, opts):
    """Returns the live object for a node of the abstract program (no operand is ever bound to
    a local variable of this frame while an arithmetic expression runs)."""
    t = e["t"]
    if t == "prior":
        return pool[e["ref"]]
    if t == "float":
        return unhex(e["v"])
    if t == "int":
        return int(e["v"])
    if t == "bool":
        return bool(e["v"])
    if t == "str":
        return str(e["v"])
    if t == "none":
        return None
    if t == "np":
        return numpy_value(e)
    if t == "binop":
        names = opts.get("rename", {})
        loc = {}
        src = []
        for side, var in (("l", e.get("lv")), ("r", e.get("rv"))):
            if e[side]["t"] == "float":
                src.append(literal(e[side]))
            else:
                var = names.get(var, var)
                loc[var] = build(e[side], pool, opts)
                src.append(var)
        exec(compile("res__ = (%s) %s (%s)" % (src[0], e["op"], src[1]), "<c07>", "exec"), {}, loc)
        return loc.pop("res__")
    if t == "unop":
        names = opts.get("rename", {})
        var = names.get(e["av"], e["av"])
        loc = {var: build(e["a"], pool, opts)}
        exec(compile("res__ = " + UNOPS[e["op"]] % var, "<c07>", "exec"), {"abs": abs}, loc)
        return loc.pop("res__")
    if t == "tuple":
        raise ValueError("tuple nodes are built by their model")
    if t == "inst":      # e["args"]: constructor keywords (e["attrs"] describes the resulting __dict__)
        return c07_classes.CLASSES[e["cls"]](**{k: build(v, pool, opts) for k, v in e.get("args", e["attrs"])})
    if t == "model":
        cls = c07_classes.CLASSES[e["cls"]]
        kinds = dict(c07_classes.SIGNATURES[e["cls"]])
        m = af.Model(cls, **{k: build(v, pool, opts) for k, v in e["attrs"] if kinds[k] != "tuple2"})
        for k, v in e["attrs"]:
            if kinds[k] == "tuple2":
                for mk, mv in v["members"]:
                    setattr(m, mk, build(mv, pool, opts))
        for k, v in e.get("extras", []):
            setattr(m, k, build(v, pool, opts))
        if opts.get("labels"):
            m.label = "lbl_%s" % opts["labels"]
        return m
    if t == "coll":
        form = e["form"]
        if form == "list":
            c = af.Collection([build(v, pool, opts) for _, v in e["items"]])
        elif form == "dict":
            c = af.Collection({k: build(v, pool, opts) for k, v in e["items"]})
        elif form == "kwargs":
            c = af.Collection(**{k: build(v, pool, opts) for k, v in e["items"]})
        elif form == "append":
            c = af.Collection()
            [c.append(build(v, pool, opts)) for _, v in e["items"]]
        elif form == "mixed":      # named items first, then appended ones (keys "0", "1", ...)
            c = af.Collection(**{k: build(v, pool, opts) for k, v in e["items"] if not k.isdigit()})
            [c.append(build(v, pool, opts)) for k, v in e["items"] if k.isdigit()]
        else:
            raise ValueError(form)
        if opts.get("labels"):
            c.label = "coll_%s" % opts["labels"]
        return c
    raise ValueError(t)


# ---------------------------------------------------------------------------------------
# models DERIVED by the library from a composed model (grid-search cell, prior passing, limits, copies, freezing)
# ---------------------------------------------------------------------------------------
def apply_derive(model, pool, d):
    """the library's own derivation of a new model from `model`; new priors are addressed by the pool index of the
    prior they replace.  Only library entry points are called here; nothing is repaired or re-implemented."""
    route = d["route"]
    index = {id(p): i for i, p in enumerate(pool)}

    def by_order(table):          # one entry per free parameter, in the order the library documents (priors ordered by id)
        return [table[str(index[id(p)])] for p in model.priors_ordered_by_id]

    if route == "identity":
        return model.mapper_from_prior_arguments({p: p for p in model.priors})
    if route in ("partial", "replacing", "args"):
        args = {pool[int(i)]: make_prior(ps) for i, ps in d["new"].items()}
        if route == "partial":
            return model.mapper_from_partial_prior_arguments(args)
        if route == "replacing":
            return model.replacing(args)
        return model.mapper_from_prior_arguments(args)
    if route == "with_limits":
        return model.with_limits([tuple(unhex(x) for x in lim) for lim in by_order(d["limits"])])
    if route in ("means_a", "means_r"):
        means = [unhex(x) for x in by_order(d["means"])]
        kw = {"a": unhex(d["a"])} if route == "means_a" else {"r": unhex(d["r"])}
        return model.mapper_from_prior_means(means, no_limits=bool(d.get("no_limits")), **kw)
    if route == "uniform_floats":
        return model.mapper_from_uniform_floats([unhex(x) for x in by_order(d["means"])], unhex(d["b"]))
    if route in ("result_absolute", "result_relative", "result_bounded", "result_model"):
        # prior passing through a Result: the samples of a finished search hold the model and the means
        means = [unhex(x) for x in by_order(d["means"])]
        from autofit.non_linear.samples.summary import SamplesSummary
        from autofit.non_linear.samples.sample import Sample
        sample = Sample(log_likelihood=1.0, log_prior=0.0, weight=1.0,
                        kwargs={path: unhex(d["means"][str(index[id(prior)])]) for path, prior in model.path_priors_tuples})
        summary = SamplesSummary(max_log_likelihood_sample=sample, model=model, median_pdf_sample=sample)
        result = af.Result(samples_summary=summary, paths=None) if d.get("via_result") else summary
        if route == "result_absolute":
            return result.model_absolute(unhex(d["a"]))
        if route == "result_relative":
            return result.model_relative(unhex(d["r"]))
        if route == "result_bounded":
            return result.model_bounded(unhex(d["b"]))
        return result.model
    if route == "copy":
        return model.copy()
    if route == "freeze":
        model.freeze()
        return model
    if route == "freeze_unfreeze":
        model.freeze()
        model.prior_count          # a cached query on the frozen model
        model.unfreeze()
        return model
    if route == "freeze_derive":     # a frozen model (as held by a finished search) is the source of a grid-search cell
        model.freeze()
        args = {pool[int(i)]: make_prior(ps) for i, ps in d["new"].items()}
        return model.mapper_from_partial_prior_arguments(args)
    raise ValueError(route)


def make_search(s, opts):
    cls = SEARCHES[s["cls"]]
    kw = dict(s.get("settings", {}))
    kw = {k: (unhex(v["v"]) if isinstance(v, dict) else v) for k, v in kw.items()}
    kw.update(s.get("run", {}))          # non-identifying run settings (e.g. maxcall of a real fit)
    for k in ("name", "path_prefix", "unique_tag", "number_of_cores", "iterations_per_update"):
        if s.get(k) is not None:
            kw[k] = s[k]
    return cls(**kw)


# ---------------------------------------------------------------------------------------
# abstraction of live objects (facts only; no identifier logic)
# ---------------------------------------------------------------------------------------
def clean(s):
    return "".join(c if 32 <= ord(c) < 127 else "?" for c in s)[:200]


FACTS = {}


def abs_obj(v, ids, stack=(), private_depth=None):
    if FACTS.get("numpy_scalars_unwrapped") and type(v).__module__ == "numpy" and getattr(v, "ndim", 1) == 0 and hasattr(v, "item"):
        v = v.item()
    if private_depth is not None:
        if private_depth <= 0:
            return ["none"]
        private_depth -= 1
    if inspect.isclass(v):
        from autoconf.class_path import get_class_path
        return ["cls", get_class_path(v)]
    if isinstance(v, Exception):
        return ["exc"]
    if hasattr(v, "__dict__"):
        if id(v) in stack:
            return ["none"]
        stack = stack + (id(v),)
        info = {"idf": None, "is_mo": isinstance(v, ModelObject), "ctor": [], "excl": None}
        items = []
        if hasattr(v, "__identifier_fields__"):
            info["idf"] = [str(f) for f in v.__identifier_fields__]
            if "id" in v.__dict__:
                items.append(["id", ["i", ids.get(id(v), 0)]])
            seen = set()
            for f in info["idf"]:
                if f in seen:
                    continue
                seen.add(f)
                try:
                    items.append([f, abs_obj(getattr(v, f), ids, stack, private_depth)])
                except AttributeError:
                    pass
        else:
            if not info["is_mo"]:
                try:
                    info["ctor"] = list(inspect.getfullargspec(v.__class__).args)
                except TypeError:
                    info["ctor"] = []
                if hasattr(v, "__exclude_identifier_fields__"):
                    info["excl"] = [str(f) for f in v.__exclude_identifier_fields__]
            for k, x in v.__dict__.items():
                k = str(k)
                if k == "id":
                    items.append(["id", ["i", ids.get(id(v), 0)]])
                elif k == "label" and not info["is_mo"] and "label" not in info["ctor"]:
                    # Model.__setattr__ stamps `value.label = namer(key)` (a process-wide counter) on plain
                    # instances it is given; it is not a constructor argument, hence never identifying
                    continue
                elif k.startswith("_"):
                    items.append([clean(k), abs_obj(x, ids, stack, 2 if private_depth is None else private_depth)])
                else:
                    items.append([clean(k), abs_obj(x, ids, stack, private_depth)])
        return ["inst", type(v).__name__, info, items]
    if isinstance(v, dict):
        return ["dict", [[clean(str(k)), abs_obj(x, ids, stack, private_depth)] for k, x in v.items()]]
    if isinstance(v, float):
        return ["f", hexf(v)]
    if isinstance(v, bool):
        return ["b", bool(v)]
    if isinstance(v, str):
        return ["s", clean(v)]
    if isinstance(v, int):
        return ["i", int(v)]
    if v is None:
        return ["none"]
    from collections.abc import Iterable
    if isinstance(v, Iterable):
        if private_depth is not None and not isinstance(v, (list, tuple)):
            return ["other", describe(type(v)), False]
        if isinstance(v, (set, frozenset)) and all(isinstance(x, str) and clean(x) == x for x in v):
            return ["set", list(v)]            # the elements in the iteration order of this process (a fact, not sorted here)
        try:
            it = iter(sorted(v, key=str)) if FACTS.get("sets_sorted") and isinstance(v, (set, frozenset)) else iter(v)
        except TypeError:
            return ["other", describe(v), True]          # e.g. a 0-d array: iteration raises
        return ["seq", [abs_obj(x, ids, stack, private_depth) for x in it]]
    return ["other", describe(v), False]


def walk_observables(value):
    try:
        ident = Identifier(value)
        hl = list(ident.hash_list)
        return {"hash_list": hl, "identifier": str(ident),
                "md5_ok": str(ident) == md5(".".join(hl).encode("utf-8")).hexdigest()}
    except BaseException as e:  # noqa
        return {"raised": exc_name(e), "msg": str(e)[:200]}


# ---------------------------------------------------------------------------------------
# one fit specification -> identifiers by the requested route
# ---------------------------------------------------------------------------------------
COUNTER = [0]


def run_fit(spec, want_abs):
    opts = dict(spec.get("build", {}))
    route = opts.get("route", "direct")
    n = len(spec["pool"])
    order = opts.get("order") or list(range(n))
    pool = make_pool(spec["pool"], order, int(opts.get("waste", 0)))
    ids = {id(p): i for i, p in enumerate(pool)}
    model = build(spec["model"], pool, opts)
    if opts.get("derive"):
        # the fitted model is DERIVED by the library from the composed one (possibly in several steps; every step
        # addresses the priors of the step before through the same pool indices)
        # (every step addresses the priors by the pool index they replace: the pool follows the derivations)
        for d in opts["derive"]:
            before = {id(p): i for i, p in enumerate(pool)}
            paths = [(path, before.get(id(prior))) for path, prior in model.path_priors_tuples]
            model = apply_derive(model, pool, d)
            pool = list(pool)
            for path, i in paths:
                if i is not None:
                    pool[i] = model.object_for_path(path)
        ids = {}
    COUNTER[0] += 1
    sspec = dict(spec["search"])
    if sspec.get("name") is None:
        sspec["name"] = "c07_%d" % COUNTER[0]
    else:
        sspec["name"] = "%s_%d" % (sspec["name"], COUNTER[0])
    sspec["unique_tag"] = spec.get("tag")
    search = make_search(sspec, opts)
    out = {"route": route}
    if route == "deepcopy":
        model = copy.deepcopy(model)
        search_for_id = search
    if route == "reload":
        model2 = search2 = None
        try:
            model2 = from_dict(json.loads(json.dumps(to_dict(model))))
            w2 = walk_observables(model2)
            if "raised" in w2:          # e.g. an attribute silently left at a ConfigException placeholder
                out["model_raised"] = w2["raised"]
                out["raised"], out["msg"], out["stage"] = w2["raised"], w2.get("msg"), "reload:walk-of-reloaded-model"
            elif want_abs:
                out["abs_model"] = abs_obj(model2, {})
        except BaseException as e:  # noqa
            out["model_raised"] = exc_name(e)
            out["raised"], out["msg"], out["stage"] = exc_name(e), str(e)[:200], "reload:serialise-or-parse"
        try:
            search2 = from_dict(json.loads(json.dumps(to_dict(search))))
            if want_abs:
                out["abs_search"] = abs_obj(search2, {})
        except BaseException as e:  # noqa
            out["search_raised"] = exc_name(e)
            out["raised"], out["msg"], out["stage"] = exc_name(e), str(e)[:200], "reload"
        if "raised" in out:
            return out
        out["prior_count"] = [getattr(model, "prior_count", None), getattr(model2, "prior_count", None)]
        out["reloaded_tag"] = search2.unique_tag
        out.update(walk_observables([search2, model2] + ([spec["tag"]] if spec.get("tag") is not None else [])))
        return out
    if route in ("files", "fit"):
        search.paths.remove_files = False
        try:
            if route == "fit":
                import signal

                def _alarm(*_):
                    raise TimeoutError("real fit exceeded its time budget")
                signal.signal(signal.SIGALRM, _alarm)
                signal.alarm(int(opts.get("fit_timeout", 90)))
                try:
                    search.fit(model=model, analysis=Analysis())
                except BaseException as e:  # noqa
                    # the sampler failed or ran out of time: the files written before sampling
                    # (pre_fit_output) are still the fit's own files, if they exist
                    files = Path(search.paths.output_path) / "files"
                    if not ((files / "model.json").exists() and (files / "search.json").exists()):
                        try:        # did the fit fail before its own files could be written (pre_fit_output)?
                            probe = make_search(dict(sspec, name=sspec["name"] + "_probe"), opts)
                            probe.paths.model = model
                            probe.paths.unique_tag = probe.unique_tag
                            probe.paths.save_all()
                        except BaseException:  # noqa
                            raise e            # writing the files itself fails: that is an observation
                        out["skipped"] = "timeout" if isinstance(e, TimeoutError) else "sampler:" + exc_name(e)
                        return out
                    out["fit_error"] = exc_name(e)
                finally:
                    signal.alarm(0)
            else:
                search.paths.model = model
                search.paths.unique_tag = search.unique_tag
                search.paths.save_all()
            out["paths_identifier"] = search.paths.identifier
            out["folder"] = Path(search.paths.output_path).name
            out["folder_exists"] = os.path.isdir(search.paths.output_path)
        except BaseException as e:  # noqa
            out["raised"] = exc_name(e)
            out["msg"] = str(e)[:200]
            out["stage"] = "write"
            return out
        if opts.get("export"):
            files = Path(search.paths.output_path) / "files"
            out["export"] = {"model.json": (files / "model.json").read_text(), "search.json": (files / "search.json").read_text(),
                             "metadata": (Path(search.paths.output_path) / "metadata").read_text()}
        try:
            so = SearchOutput(Path(search.paths.output_path))
            out["identifier"] = so.id
            if want_abs:
                out["abs_model"] = abs_obj(so.model, {})
        except BaseException as e:  # noqa
            out["raised"] = exc_name(e)
            out["msg"] = str(e)[:200]
            out["stage"] = "read"
        return out
    if route == "refit":
        # one search object used for two fits in a row: the identifier must follow the model / tag set last
        spec2 = spec["then"]
        pool2 = make_pool(spec2["pool"], list(range(len(spec2["pool"]))), 0)
        model2 = build(spec2["model"], pool2, opts)
        steps = []
        for mdl, tag in ((model, spec.get("tag")), (model2, spec2.get("tag")), (model, spec.get("tag"))):
            search.unique_tag = tag
            search.paths.model = mdl
            search.paths.unique_tag = tag
            fresh = walk_observables([search, mdl] + ([tag] if tag is not None else []))
            steps.append({"paths_identifier": search.paths.identifier, "fresh": fresh.get("identifier"),
                          "folder": Path(search.paths.output_path).name})
        out["steps"] = steps
        return out
    # direct / deepcopy
    lst = [search, model] + ([spec["tag"]] if spec.get("tag") is not None else [])
    out.update(walk_observables(lst))
    try:
        search.paths.model = model
        search.paths.unique_tag = search.unique_tag
        out["paths_identifier"] = search.paths.identifier
    except BaseException as e:  # noqa
        out["paths_raised"] = exc_name(e)
    if want_abs:
        out["abs_model"] = abs_obj(model, ids)
        out["abs_search"] = abs_obj(search, {})
    return out


def run_history(c):
    """ONE search object really fitted (search.fit) several times in a row; before each fit the user sets
    search.unique_tag.  The paths object may be handed over with a tag of its own.  After each fit: what the paths
    describe, the output folder, and what a brand-new search with the same settings, model and tag gets."""
    from autofit.non_linear.paths.directory import DirectoryPaths
    COUNTER[0] += 1
    sspec = dict(c["search"])
    sspec["name"] = "hist_%d" % COUNTER[0]
    init = c.get("init", {})
    if "paths_tag" in init:          # a paths object that already carries a tag is handed to the search
        sspec["paths"] = DirectoryPaths(name=sspec["name"], unique_tag=init["paths_tag"])
        name = sspec.pop("name")
        sspec["unique_tag"] = init.get("ctor_tag")
        cls = SEARCHES[sspec["cls"]]
        kw = dict(sspec.get("settings", {}))
        kw.update(sspec.get("run", {}))
        search = cls(paths=sspec["paths"], unique_tag=sspec["unique_tag"], **kw)
        sspec["name"] = name
    else:
        sspec["unique_tag"] = init.get("ctor_tag")
        search = make_search(sspec, {})
    search.paths.remove_files = False
    steps = []
    for k, st in enumerate(c["steps"]):
        pool = make_pool(st["pool"], list(range(len(st["pool"]))), 0)
        model = build(st["model"], pool, {})
        tag = st.get("tag")
        search.unique_tag = tag
        out = {}
        import signal

        def _alarm(*_):
            raise TimeoutError("real fit exceeded its time budget")
        signal.signal(signal.SIGALRM, _alarm)
        signal.alarm(60)
        try:
            search.fit(model=model, analysis=Analysis())
        except BaseException as e:  # noqa
            out["fit_error"] = exc_name(e)       # the sampler's business; what the paths describe is observed below
        finally:
            signal.alarm(0)
        try:
            ident = search.paths._identifier
            out["paths_identifier"] = search.paths.identifier
            out["hash_list"] = list(getattr(ident, "hash_list", []))
            op = Path(search.paths.output_path)
            out["folder"] = op.name
            out["path_parts"] = list(op.parts[-3:])
            out["paths_tag"] = search.paths.unique_tag
        except BaseException as e:  # noqa
            out["raised"] = exc_name(e)
        fresh = make_search(dict(sspec, name=sspec["name"] + "_fresh%d" % k, unique_tag=tag), {})
        fresh.paths.model = build(st["model"], make_pool(st["pool"], list(range(len(st["pool"]))), 0), {})
        fresh.paths.unique_tag = tag
        out["fresh"] = fresh.paths.identifier
        out["fresh_walk"] = walk_observables([fresh, fresh.paths.model] + ([tag] if tag is not None else [])).get("identifier")
        steps.append(out)
    return {"steps": steps}


# ---------------------------------------------------------------------------------------
# generic values for the walk
# ---------------------------------------------------------------------------------------
def build_value(e):
    t = e[0]
    if t == "f":
        return unhex(e[1])
    if t == "i":
        return int(e[1])
    if t == "b":
        return bool(e[1])
    if t == "s":
        return str(e[1])
    if t == "none":
        return None
    if t == "exc":
        return ValueError("boom")
    if t == "cls":
        return c07_classes.CLASSES[e[1]]
    if t == "seq":
        return [build_value(x) for x in e[1]]
    if t == "tup":
        return tuple(build_value(x) for x in e[1])
    if t == "dict":
        return {k: build_value(x) for k, x in e[1]}
    if t == "idict":
        return {int(k): build_value(x) for k, x in e[1]}
    if t == "obj":        # instance of a c07 class with keyword arguments, then extra attributes
        o = c07_classes.CLASSES[e[1]](**{k: build_value(x) for k, x in e[2]})
        for k, x in e[3]:
            setattr(o, k, build_value(x))
        return o
    if t == "prior":
        return make_prior(e[1])
    if t == "np":
        return numpy_value({"dtype": e[1], "v": e[2]})
    if t == "np0d":
        return np.array(unhex(e[1]))
    if t == "nparr":
        return np.array([unhex(x) for x in e[1]])
    if t == "set":
        return set(str(x) for x in e[1])
    if t == "fset":
        return frozenset(str(x) for x in e[1])
    if t == "dictsub":
        return c07_classes.DictSub([(k, build_value(x)) for k, x in e[1]], note=unhex(e[2]))
    if t == "gridsearch":
        return af.SearchGridSearch(search=af.m.MockSearch(name="g"), number_of_steps=int(e[1]), number_of_cores=int(e[2]))
    raise ValueError(t)


def run_case(c):
    k = c["kind"]
    if k == "fit":
        return run_fit(c["spec"], True)
    if k == "pair":
        return {"a": run_fit(c["a"], False), "b": run_fit(c["b"], c["b"].get("build", {}).get("route") in ("reload", "files", "fit"))}
    if k == "walk":
        v = build_value(c["value"])
        out = walk_observables(v)
        out["abs"] = abs_obj(v, {})
        return out
    if k == "round":
        return walk_observables(unhex(c["v"]))
    if k == "history":
        return run_history(c)
    if k == "readback":      # files written by ANOTHER process are read here
        d = Path(os.environ["VERIF_SCRATCH"]) / ("readback_%d" % COUNTER[0])
        COUNTER[0] += 1
        (d / "files").mkdir(parents=True)
        (d / "files" / "model.json").write_text(c["export"]["model.json"])
        (d / "files" / "search.json").write_text(c["export"]["search.json"])
        (d / "metadata").write_text(c["export"]["metadata"])
        try:
            return {"identifier": SearchOutput(d).id}
        except BaseException as e:  # noqa
            return {"raised": exc_name(e), "msg": str(e)[:200]}
    raise ValueError(k)


def main():
    payload = json.load(open(sys.argv[1]))
    cases = payload["cases"]
    FACTS.update(payload.get("facts", {}))
    out = []
    for i, c in enumerate(cases):
        try:
            out.append({"ok": run_case(c)})
        except BaseException as e:  # noqa
            import traceback
            out.append({"exc": exc_name(e), "msg": str(e)[:300], "tb": traceback.format_exc()[-600:]})
    json.dump({"results": out}, open(sys.argv[2], "w"))


main()
