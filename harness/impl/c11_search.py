"""C11: a scripted non-linear search.

It is an ordinary `NonLinearSearch` subclass (importable, so that the `search.json` written by
the real `paths.save_all` can be read back by the real `from_dict`), whose `_fit` evaluates the
returns parameter vectors and log likelihoods dictated by the test case instead of sampling.  Everything
else -- `fit`, `pre_fit_output`, `perform_update`, `paths.save_*`, `.completed`, zipping -- is
the repository's own code.
"""
import autofit as af
from autofit.non_linear.samples import Samples, Sample


class Interrupt(Exception):
    """Raised by the scripted search to simulate a fit that was killed before completion."""


class ScriptedSearch(af.NonLinearSearch):
    __identifier_fields__ = ("script_id", "flavour")

    def __init__(
        self,
        name=None,
        path_prefix=None,
        unique_tag=None,
        script_id=0,
        flavour="a",
        session=None,
        paths=None,
        number_of_cores=1,
        **kwargs,
    ):
        self.script_id = script_id
        self.flavour = flavour
        super().__init__(
            name=name,
            path_prefix=path_prefix,
            unique_tag=unique_tag,
            session=session,
            paths=paths,
            number_of_cores=number_of_cores,
            **kwargs,
        )
        # not persisted: the scripts (set by the driver before `fit`).  Both lists are shared by the
        # shallow copies a grid search makes of its search, so cell k consumes scripts[k].
        self.scripts = []   # [{"vectors": [[float]], "logl": [float], "interrupt": None|"before_samples"|"after_samples"}]
        self.log = []       # one entry per `_fit` call: identifier / output path the real code chose

    @property
    def _class_config(self):
        return {
            "search": {},
            "run": {},
            "initialize": {"method": "prior"},
            "printing": {"silence": True},
            "updates": {"iterations_per_update": 2500, "remove_state_files_at_end": True},
            "settings": {},
        }

    @property
    def config_type(self):
        return {type(self).__name__: self._class_config}

    def _fit(self, model, analysis):
        k = len(self.log)
        script = self.scripts[k % len(self.scripts)]
        self.log.append({
            "k": k,
            "identifier": self.paths.identifier,
            "output_path": str(self.paths.output_path),
            "paths_name": str(self.paths.name),
            "prior_count": model.prior_count,
        })
        if script.get("interrupt") == "before_samples":
            raise Interrupt()
        n = model.prior_count
        internal = {
            "vectors": [[float(x) for x in v[:n]] for v in script["vectors"]],
            "logl": [float(x) for x in script["logl"]],
            "logp": [float(x) for x in script.get("logp", [0.0] * len(script["logl"]))],
        }
        if script.get("interrupt") == "after_samples":
            # a killed run that had already written an intermediate update
            self.perform_update(model=model, analysis=analysis, during_analysis=True, search_internal=internal)
            raise Interrupt()
        return internal

    def samples_from(self, model, search_internal=None):
        if search_internal is None:
            return self.paths.samples
        vectors = search_internal["vectors"]
        sample_list = Sample.from_lists(
            model=model,
            parameter_lists=vectors,
            log_likelihood_list=search_internal["logl"],
            log_prior_list=search_internal.get("logp") or [0.0] * len(vectors),
            weight_list=[1.0] * len(vectors),
        )
        return Samples(model=model, sample_list=sample_list, samples_info={"total_samples": len(vectors), "time": None})

    def output_search_internal(self, search_internal):
        pass

    def plot_results(self, samples):
        pass
