"""C13 implementation driver: replays abstract operation histories on real Model / Collection /
TuplePrior objects and reports the outcome of every operation (JSON in, JSON out).

Abstract values: ["p", pid] prior, ["c", int] float constant, ["r", oid] object reference.
Outcomes: {"ok": answer} | {"exc": name}.  For every query the driver also evaluates the same
query on an unfrozen deep copy (the "shadow"), which never sees a cache."""
import copy
import json
import logging
import sys

from vimpl_common import setup, exc_name

af, conf = setup()
logging.disable(logging.CRITICAL)

from autoconf.exc import ConfigException
from autofit.mapper import model as model_module
from autofit.mapper.model import ModelInstance
from autofit.mapper.prior.abstract import Prior
from autofit.mapper.prior.tuple_prior import TuplePrior
from autofit.mapper.prior_model.abstract import AbstractPriorModel
from autofit.mapper.prior_model.prior_model import Model
from autofit.mapper.prior_model.collection import Collection
from autofit.mapper.prior_model.recursion import DynamicRecursionCache
from autofit.mapper.prior_model.representative import find_groups
from autofit.text.formatter import TextFormatter
from autofit.tools.util import info_whitespace


def make_class(index, names, name, base):
    """A component class with the given constructor arguments.  `name` is its __name__ AND __qualname__ (module
    `__main__`): several classes of one history may carry the same name with different constructors, as classes
    returned by a class factory do; `base` (a class made earlier, or None) is its parent, whose constructor it
    overrides."""
    src = "def __init__(self, %s):\n" % ", ".join("%s=0.0" % n for n in names)
    for n in names:
        src += "    self.%s = %s\n" % (n, n)
    ns = {}
    exec(src, ns)
    ns["__init__"].__qualname__ = name + ".__init__"
    cls = type(name, (base,) if base is not None else (), {"__init__": ns["__init__"]})
    cls.__module__ = "__main__"          # picklable by reference (the first class of a name; see World.dumps)
    cls.__qualname__ = name
    return cls


def recursion_cache():
    """The process-wide cache object hidden in the closure of path_instances_of_class."""
    fn = model_module.path_instances_of_class
    for cell in fn.__closure__ or ():
        try:
            if isinstance(cell.cell_contents, DynamicRecursionCache):
                return cell.cell_contents
        except ValueError:
            pass
    return None      # refactored away: the driver then cannot clear / inspect it (reported as None)


SERIAL = [0]


class World:
    def __init__(self, case):
        # names are private to a history (suffix = number of the history in this process): what one history observes
        # never depends on the classes of another history, so every reported history replays alone
        SERIAL[0] += 1
        n = len(case["classes"])
        self.names = ["%s_%d" % (nm, SERIAL[0]) for nm in (case.get("class_names") or ["K%d" % i for i in range(n)])]
        bases = case.get("bases") or [None] * n
        self.classes = []
        for i, names in enumerate(case["classes"]):
            self.classes.append(make_class(i, names, self.names[i], None if bases[i] is None else self.classes[bases[i]]))
        self.registered = {}
        for nm, cls in zip(self.names, self.classes):
            if nm not in self.registered:            # `__main__.<name>` resolves to the FIRST class of that name
                self.registered[nm] = cls
                globals()[nm] = cls
        self.ctor = case["classes"]
        self.priors = {}
        self.pid_of = {}
        for pid, lo, hi in sorted(case["priors"]):
            p = af.UniformPrior(lower_limit=float(lo), upper_limit=float(hi), id_=pid)
            assert p.id == pid
            self.priors[pid] = p
        self.objs = []
        self.keep = []

    def close(self):
        for nm in self.registered:
            globals().pop(nm, None)

    def pickle_round_trip(self, obj):
        """pickle by reference where `__main__.<name>` is the class; the other classes of a shared name travel as
        persistent ids (a class is not the business of the model code under test)"""
        import io
        import pickle
        world = self

        class P(pickle.Pickler):
            def persistent_id(self, x):
                if isinstance(x, type):
                    for i, c in enumerate(world.classes):
                        if x is c and world.registered[world.names[i]] is not c:
                            return i
                return None

        class U(pickle.Unpickler):
            def persistent_load(self, pid):
                return world.classes[pid]

        buf = io.BytesIO()
        P(buf).dump(obj)
        return U(io.BytesIO(buf.getvalue())).load()

    def ctor_names_of(self, obj):
        """Model.constructor_argument_names as the model reports it now (None for other objects)"""
        if isinstance(obj, Model):
            return [str(x) for x in obj.constructor_argument_names]
        return None

    # -- abstract <-> concrete -------------------------------------------------
    def val(self, v):
        t, x = v
        if t == "p":
            return self.priors[x]
        if t == "c":
            return float(x)
        return self.objs[x]

    def oid_of(self, obj):
        for i, o in enumerate(self.objs):
            if o is obj:
                return i
        return getattr(self, "alias", {}).get(id(obj))

    def pair(self, orig, twin, acc):
        """objects of a deep copy answer under the object ids of their originals"""
        if not isinstance(orig, (AbstractPriorModel, TuplePrior)) or id(twin) in acc:
            return
        i = self.oid_of(orig)
        if i is None:
            return
        acc[id(twin)] = i
        for (k, v), (k2, v2) in zip(self.public(orig), self.public(twin)):
            self.pair(v, v2, acc)

    def leaf(self, x):
        if isinstance(x, Prior):
            return ["p", int(x.id)]          # priors are named by their CURRENT id
        if isinstance(x, bool):
            return ["x", "bool"]
        if isinstance(x, float):
            return ["c", int(x)] if x == int(x) else ["x", repr(x)]
        i = self.oid_of(x)
        if i is not None:
            return ["r", i]
        return ["x", type(x).__name__]

    def public(self, obj):
        return [(k, v) for k, v in obj.__dict__.items()
                if not k.startswith("_") and k not in ("id", "cls", "item_number")]

    def abstract_attrs(self, obj):
        return [[k, self.leaf(v)] for k, v in self.public(obj)]

    def register_graph(self, obj):
        """Number the objects of a fresh deep copy: preorder, attribute order, memoised."""
        if not isinstance(obj, (AbstractPriorModel, TuplePrior)):
            return
        if self.oid_of(obj) is not None:
            return
        self.objs.append(obj)
        for _, v in self.public(obj):
            self.register_graph(v)

    # -- answers -----------------------------------------------------------------
    def inst(self, x):
        if isinstance(x, bool):
            return {"raw": 1}
        if isinstance(x, float):
            return {"v": int(x)} if x == int(x) else {"raw": 1}
        if isinstance(x, tuple) and all(isinstance(y, float) and y == int(y) for y in x):
            return {"t": [int(y) for y in x]}
        for i, cls in enumerate(self.classes):
            if type(x) is cls:
                names = list(self.ctor[i])
                rest = [k for k in x.__dict__ if k not in names and k != "id" and not k.startswith("_")]
                return {"o": [[k, self.inst(getattr(x, k))] for k in names + rest]}
        if type(x) is ModelInstance:
            return {"o": [[k, self.inst(v)] for k, v in x.__dict__.items()
                          if not k.startswith("_") and k not in ("id", "item_number")]}
        return {"raw": 1}

    def info(self, m):
        text = m.info
        # the lists info was built from (second evaluation is idempotent: cache hit or same walk)
        raw_a = [t for t in m.path_instance_tuples_for_class(
            (Prior, float, int, tuple, ConfigException), ignore_children=True)
            if t[0][-1] not in ("id", "item_number")]
        count = m.prior_count
        raw_p = m.path_instance_tuples_for_class((Prior, float, tuple), ignore_children=True)
        ents, pairs = [], []
        for t in raw_p:
            for i in range(len(t[0])):
                path = t[0][:i]
                obj = m.object_for_path(path)
                if isinstance(obj, TuplePrior):
                    continue
                n = obj.prior_count if isinstance(obj, AbstractPriorModel) else 0
                if isinstance(obj, Model):
                    name = obj.cls.__name__
                    cls = self.classes.index(obj.cls) if obj.cls in self.classes else -1
                else:
                    name = type(obj).__name__
                    cls = None
                ents.append([list(path), cls, n])
                pairs.append((("model",) + tuple(path), "%s (N=%d)" % (name, n)))
        # render the text again from these lists with the library's own formatter
        f1 = TextFormatter(line_length=info_whitespace())
        for g in find_groups(pairs, limit=0):
            f1.add(*g)
        f2 = TextFormatter(line_length=info_whitespace())
        for t in find_groups(list(raw_a), limit=1):
            f2.add(*t)
        again = "\n\n".join(["Total Free Parameters = %d" % count, "%s" % f1.text, f2.text])
        return {"a": [[list(p), self.leaf(x)] for p, x in raw_a], "n": count, "b": ents,
                "render_ok": again == text, "text": text}

    def query(self, m, q):
        k = q[0]
        if k == "count":
            return m.prior_count
        if k == "paths":
            return [[list(p), self.leaf(x)] for p, x in m.path_priors_tuples]
        if k == "ordered":
            return [[[t.name], self.leaf(t.prior)] for t in m.prior_tuples_ordered_by_id]
        if k == "instance":
            return self.inst(m.instance_from_vector([float(x) for x in q[1]]))
        if k == "info":
            return self.info(m)
        if k == "unit":
            return self.inst(m.instance_from_unit_vector([x / 4.0 for x in q[1]]))
        if k == "allpaths":
            return [[list(p) for p in g] for g in m.all_paths]
        if k == "raw":
            return self.raw(m, q)
        if k == "models":
            cls = object if q[1] is None else self.classes[q[1]]
            return [[[], self.leaf(x)] for x in m.models_with_type(cls, include_zero_dimension=bool(q[2]))]
        raise ValueError(k)

    def raw_call(self, m, q):
        """the exact object one of the seven frozen_cache functions returns, spelled as the library spells the call"""
        what = q[1]
        if what == "pit":
            if q[2] == "prior":
                return m.path_instance_tuples_for_class(Prior)
            if q[2] == "tuple":
                return m.path_instance_tuples_for_class(TuplePrior)
            if q[2] == "param":
                return m.path_instance_tuples_for_class((Prior, float, tuple), ignore_children=True)
        if what == "attr":
            return m.attribute_tuples_with_type(Prior)
        if what == "unique":
            return m.unique_prior_tuples
        if what == "direct":
            return m.direct_tuples_with_type({"prior": Prior, "float": float, "tuple": TuplePrior, "pm": AbstractPriorModel}[q[2]])
        if what == "mtt":
            return m.model_tuples_with_type(object if q[2] is None else self.classes[q[2]], include_zero_dimension=bool(q[3]))
        raise ValueError(q)

    def raw(self, m, q):
        r = self.raw_call(m, q)
        if not isinstance(r, list):
            raise ValueError("not a list")
        if q[1] == "pit":
            return [[list(p), self.leaf(x)] for p, x in r]
        return [[[str(t[0])], self.leaf(t[1])] for t in r]

    def shadow(self, m, q):
        try:
            twin = copy.deepcopy(m)
            twin.unfreeze()
            self.keep.append(twin)
            self.alias = {}
            acc = {}
            self.pair(m, twin, acc)
            self.alias = acc
            return {"ok": self.query(twin, q)}
        except BaseException as e:  # noqa
            return {"exc": exc_name(e)}
        finally:
            self.alias = {}

    # -- operations ----------------------------------------------------------------
    def step(self, op):
        k = op[0]
        extra = {}
        if k == "new":
            _, kind, cls, attrs, nitems = op
            kw = {name: self.val(v) for name, v in attrs}
            if kind == "model":
                obj = Model(self.classes[cls], **kw)
            elif kind == "coll":
                obj = Collection([self.val(v) for _, v in attrs]) if nitems > 0 else Collection(**kw)
            else:
                obj = TuplePrior(**kw)
            obj.id = 1000 + len(self.objs)        # ModelObject.id, fixed by the harness (Model.v: oidn)
            self.objs.append(obj)
            extra["attrs"] = self.abstract_attrs(obj)
            extra["ctor"] = self.ctor_names_of(obj)
            return None, extra
        obj = self.objs[op[1]]
        if k == "query":
            try:
                ans = self.query(obj, op[2])
            finally:
                self.last_ctor = self.ctor_names_of(obj)
            extra["ctor"] = self.last_ctor
            return ans, extra
        if k == "freeze":
            obj.freeze()
        elif k == "unfreeze":
            obj.unfreeze()
        elif k == "set":
            setattr(obj, op[2], self.val(op[3]))
        elif k == "setitem":
            obj[op[2]] = self.val(op[3])
        elif k == "append":
            obj.append(self.val(op[2]))
        elif k == "del":
            delattr(obj, op[2])
        elif k == "restore":
            if op[2] == "shallow":
                twin = copy.copy(obj)
            else:
                from autofit import database as db
                twin = db.Object.from_object(obj)()
            first = len(self.objs)
            self.register_graph(twin)
            extra["new"] = [{"kind": "tuple" if isinstance(o, TuplePrior) else "coll" if isinstance(o, Collection) else "model",
                             "attrs": self.abstract_attrs(o), "frozen": bool(getattr(o, "_is_frozen", False)),
                             "cache_empty": len(getattr(o, "_frozen_cache", {}) or {}) == 0}
                            for o in self.objs[first:]]
            extra["flags"] = [bool(getattr(o, "_is_frozen", False)) for o in self.objs]
        elif k == "copy":
            how = op[2] if len(op) > 2 else "deep"
            if how == "pickle":
                twin = self.pickle_round_trip(obj)
            else:
                twin = obj.copy()
            first = len(self.objs)
            self.register_graph(twin)
            extra["new"] = [{"kind": "tuple" if isinstance(o, TuplePrior) else "coll" if isinstance(o, Collection) else "model",
                             "attrs": self.abstract_attrs(o), "frozen": bool(getattr(o, "_is_frozen", False)),
                             "cache_empty": len(getattr(o, "_frozen_cache", {})) == 0}
                            for o in self.objs[first:]]
            extra["flags"] = [bool(getattr(o, "_is_frozen", False)) for o in self.objs]
        elif k == "failwalk":
            obj.has_instance("not-a-type")
        elif k == "scramble":
            # a caller that edits the list it was handed (reverse, drop the last entry); the model is not touched
            r = self.raw_call(obj, op[2])
            if isinstance(r, list):
                r.reverse()
                if r:
                    r.pop()
            elif isinstance(r, dict):
                r.clear()
        elif k == "derive":
            try:
                self.keep.append(obj.mapper_from_prior_arguments({p: p for p in obj.priors}))
            finally:
                extra["flags"] = [bool(getattr(o, "_is_frozen", False)) for o in self.objs]
        else:
            raise ValueError(k)
        return None, extra


def run_case(case):
    rc = recursion_cache()
    if rc is not None:
        rc.cache.clear()
    # The history is replayed twice on fresh objects.  The FIRST replay is the history and nothing else: what is reported
    # and compared is its outcome.  The second replay additionally evaluates every query on an unfrozen deep copy (the
    # "shadow", which never sees a cache); copying and thawing are themselves accepted modifications of some model in
    # the process (they advance the modification counter that invalidates every frozen cache), so they must not happen
    # inside the replay whose caches are under test.  The direct outcomes of the second replay are reported as well
    # (`with_shadow`): unrelated copies in between must not change any answer either.
    w = World(case)
    try:
        res = run_ops(w, case, rc, shadows=False)
    finally:
        w.close()
    if rc is not None:
        rc.cache.clear()
    w = World(case)
    try:
        res2 = run_ops(w, case, rc, shadows=True)
    finally:
        w.close()
    for rec, rec2 in zip(res["outs"], res2["outs"]):
        if "shadow" in rec2:
            rec["shadow"] = rec2["shadow"]
            rec["with_shadow"] = {"exc": rec2["exc"]} if "exc" in rec2 else {"ok": rec2.get("ok")}
    return res


def run_ops(w, case, rc, shadows):
    outs = []
    for op in case["ops"]:
        rec = {}
        w.last_ctor = None
        if op[0] != "new" and not (0 <= op[1] < len(w.objs)) or any(
                isinstance(x, list) and len(x) == 2 and x[0] == "r" and not (0 <= x[1] < len(w.objs)) for x in op):
            outs.append({"exc": "Skipped", "msg": "refers to an object an earlier failed operation did not create"})
            continue
        try:
            ans, extra = w.step(op)
            rec["ok"] = ans
            rec.update(extra)
        except BaseException as e:  # noqa
            rec["exc"] = exc_name(e)
            rec["msg"] = str(e)[:160]
            if op[0] == "query":
                rec["ctor"] = w.last_ctor
            if op[0] == "derive":
                rec["flags"] = [bool(getattr(o, "_is_frozen", False)) for o in w.objs]
        if op[0] == "query" and shadows:
            rec["shadow"] = w.shadow(w.objs[op[1]], op[2])
        outs.append(rec)
    frozen = [bool(getattr(o, "_is_frozen", False)) for o in w.objs]
    comp = [w.abstract_attrs(o) for o in w.objs]
    left = None
    if rc is not None:
        left = len(rc.cache)
        rc.cache.clear()
    return {"outs": outs, "frozen": frozen, "comp": comp, "stale_recursion_entries": left}


def main():
    cases = json.load(open(sys.argv[1]))["cases"]
    out = []
    for c in cases:
        try:
            out.append(run_case(c))
        except BaseException as e:  # noqa
            import traceback
            out.append({"driver_error": traceback.format_exc()[-1500:]})
    json.dump({"results": out}, open(sys.argv[2], "w"))


main()
