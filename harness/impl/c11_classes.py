"""Importable model classes for the C11 scenarios (class paths must be importable so that the
model.json written by the real code can be read back by the real `from_dict`)."""


class K1:
    def __init__(self, u=0.0):
        self.u = u


class K2:
    def __init__(self, a=0.0, b=1.0):
        self.a = a
        self.b = b


class K3:
    def __init__(self, x=0.0, y=1.0, z=2.0):
        self.x = x
        self.y = y
        self.z = z


class KT:
    def __init__(self, c=0.0, pos=(0.0, 0.0)):
        self.c = c
        self.pos = pos


class KN:
    """holds a nested component"""

    def __init__(self, inner: K2 = None, s=1.0):
        self.inner = inner
        self.s = s


CLASSES = {c.__name__: c for c in (K1, K2, K3, KT, KN)}
ARGS = {"K1": ["u"], "K2": ["a", "b"], "K3": ["x", "y", "z"], "KT": ["c", "pos"], "KN": ["inner", "s"]}
