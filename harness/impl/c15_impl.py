"""C15 implementation driver: runs the real summed-analysis code on abstract cases.

Schedules of the parallel pool are steered from outside: after the real AnalysisPool has been
created (by the real `n_cores` setter or by the constructor reading general.yaml) the *main-process
side* of every `process.queue` is wrapped by a proxy whose `empty()` follows a scripted
availability mask (one list of booleans per pass of `for process in self.processes` in
AnalysisPool.results).  "not available" answers True (the item has not arrived yet - a legal
timing), "available" blocks until the worker really delivered the item and answers False.
Workers, queues, pickling, __call__, results and map are the real code.

Requires the fork start method (the harness analyses and model classes live in __main__).
"""
import json
import logging
import multiprocessing
import os
import queue as pyqueue
import shutil
import sys
import time
import zipfile

from vimpl_common import setup, exc_name

WAIT = float(os.environ.get("C15_WAIT", "20"))
CASE_LIMIT = int(os.environ.get("C15_CASE_LIMIT", "240"))


class SteerTimeout(BaseException):
    pass


# ---------------------------------------------------------------------------------------
# model classes (module level: instances travel through multiprocessing queues)
# ---------------------------------------------------------------------------------------
class P1:
    def __init__(self, a0=0.0):
        self.a0 = a0


class P2:
    def __init__(self, a0=0.0, a1=0.0):
        self.a0, self.a1 = a0, a1


class P3:
    def __init__(self, a0=0.0, a1=0.0, a2=0.0):
        self.a0, self.a1, self.a2 = a0, a1, a2


class P4:
    def __init__(self, a0=0.0, a1=0.0, a2=0.0, a3=0.0):
        self.a0, self.a1, self.a2, self.a3 = a0, a1, a2, a3


PCLS = {1: P1, 2: P2, 3: P3, 4: P4}
# what the members do in modify_before_fit: add `delta` to their own state, in place, and return self
# (the documented pattern); `log` = file to which every likelihood evaluation appends "j off"
MOD = {"delta": 0, "log": None}
af = conf = exc = None
CombinedAnalysis = IndexedAnalysis = FreeParameterAnalysis = ModelAnalysis = CombinedModelAnalysis = None
VA = None


def define_va():
    class _VA(af.Analysis):
        """Harness analysis j: (c + sum(w_k * value_k)) / scale; raises FitException (ValueError) when value_0 is
        in `fail` (`fail2`); visualize raises likewise for `vfail` / `vfail2`."""

        def __init__(self, j, ad, paths=None, scale=1):
            self.j = j
            self.c = ad.get("c", 0)
            self.w = list(ad.get("w", []))
            self.fail = list(ad.get("fail", []))
            self.fail2 = list(ad.get("fail2", []))
            self.vfail = list(ad.get("vfail", []))
            self.vfail2 = list(ad.get("vfail2", []))
            self.paths = paths
            self.scale = scale
            self.off = 0

        # analyses with equal content compare and hash equal although they are different objects (a dataclass-like
        # analysis): a container keyed by the analysis, or a de-duplication, would merge them.  The state set up in
        # modify_before_fit is not part of the content.
        def _content(self):
            return (self.c, tuple(self.w), tuple(self.fail), tuple(self.fail2), tuple(self.vfail), tuple(self.vfail2),
                    self.scale, repr(self.paths))

        def __eq__(self, other):
            return type(other) is type(self) and self._content() == other._content()

        def __hash__(self):
            return hash(self._content())

        def modify_before_fit(self, paths, model):
            self.off += MOD["delta"]
            return self

        def values(self, instance):
            if self.paths is None:
                return [instance]
            return [getattr(getattr(instance, comp), arg) for comp, arg in self.paths]

        def log_likelihood_function(self, instance):
            s = self.values(instance)
            if s and s[0] in self.fail:
                raise exc.FitException("scripted failure of analysis %d" % self.j)
            if s and s[0] in self.fail2:
                raise ValueError("scripted failure of analysis %d" % self.j)
            if MOD["log"]:
                with open(MOD["log"], "a") as f:
                    f.write("%d %d\n" % (self.j, self.off))
            return float(self.c + self.off + sum(a * b for a, b in zip(self.w, s))) / self.scale

        def save_attributes(self, paths):
            paths.save_json("tag_attr", {"j": self.j})

        def save_results(self, paths, result):
            paths.save_json("tag_res", {"j": self.j, "got": getattr(result, "va_tag", -1)})

        def visualize_before_fit(self, paths, model):
            os.makedirs(paths.output_path, exist_ok=True)
            with open(os.path.join(str(paths.output_path), "vbf_%d.txt" % self.j), "w") as f:
                f.write("x")

        def visualize(self, paths, instance, during_analysis):
            s = self.values(instance)
            if s and s[0] in self.vfail:
                raise exc.FitException("scripted visualize failure of analysis %d" % self.j)
            if s and s[0] in self.vfail2:
                raise ValueError("scripted visualize failure of analysis %d" % self.j)
            os.makedirs(paths.output_path, exist_ok=True)
            with open(os.path.join(str(paths.output_path), "viz_%d.txt" % self.j), "w") as f:
                f.write("x")

        def make_result(self, samples_summary, paths, samples=None, search_internal=None, analysis=None):
            r = super().make_result(samples_summary=samples_summary, paths=paths, samples=samples,
                                    search_internal=search_internal, analysis=analysis)
            r.va_tag = self.j
            return r

    _VA.__name__ = _VA.__qualname__ = "VA"
    return _VA


# ---------------------------------------------------------------------------------------
# steering proxies
# ---------------------------------------------------------------------------------------
class Steer:
    def __init__(self, pool, steered=True):
        self.pool = pool
        self.steered = steered
        self.sizes = [len(p.analyses) for p in pool.processes]
        self.pending = [0] * len(pool.processes)
        self.masks = []
        self.sweep = -1
        self.progress = time.time()
        self.real = []
        for i, p in enumerate(pool.processes):
            self.real.append(p.queue)
            if steered:
                p.queue = QProxy(self, i, p.queue)

    def begin_call(self, masks):
        if self.steered:
            for i, n in enumerate(self.sizes):
                self.pending[i] += n
        self.masks = masks
        self.sweep = -1
        self.progress = time.time()

    def residue(self):
        """Whatever is (or will shortly be) left on the real result queues."""
        out = []
        for i, q in enumerate(self.real):
            items = []
            for _ in range(max(0, self.pending[i])):
                try:
                    items.append(q.get(timeout=WAIT))
                except pyqueue.Empty:
                    break
            while True:
                try:
                    items.append(q.get(timeout=0.05 if self.steered else 0.3))
                except pyqueue.Empty:
                    break
            out.append([enc_result(x) for x in items])
        return out

    def close(self):
        pool = self.pool
        try:
            pool.terminate()
        except Exception:
            pass
        for p in pool.processes:
            try:
                if p.is_alive():
                    p.kill()
                    p.join(1)
            except Exception:
                pass
        pool.processes = []      # the pool's __del__ would terminate again; make that a no-op


class QProxy:
    def __init__(self, steer, idx, real):
        self.steer, self.idx, self.real = steer, idx, real

    def empty(self):
        st = self.steer
        if self.idx == 0:
            st.sweep += 1
        s = st.sweep
        allowed = True
        if 0 <= s < len(st.masks):
            row = st.masks[s]
            allowed = row[self.idx] if self.idx < len(row) else True
        if not allowed:
            return True
        if st.pending[self.idx] <= 0:
            if time.time() - st.progress > WAIT:
                raise SteerTimeout("results() keeps polling although every expected result was consumed")
            return self.real.empty()
        t0 = time.time()
        while self.real.empty():
            if time.time() - t0 > WAIT:
                raise SteerTimeout("process %d never delivered an expected result" % self.idx)
            time.sleep(0.0002)
        return False

    def get(self, *a, **kw):
        self.steer.pending[self.idx] -= 1
        self.steer.progress = time.time()
        return self.real.get(*a, **kw)

    def __getattr__(self, item):
        return getattr(self.real, item)


def enc_result(x):
    if isinstance(x, BaseException):
        return ["exc", exc_name(x)]
    if x is None:
        return ["val", (0.0).hex()]
    try:
        f = float(x)
    except Exception:
        return ["other", repr(x)[:60]]
    return ["val", f.hex()]


def kill_children():
    for p in multiprocessing.active_children():
        try:
            p.kill()
            p.join(1)
        except Exception:
            pass


# ---------------------------------------------------------------------------------------
# building analyses and models
# ---------------------------------------------------------------------------------------
def build_expr(node, leaf, free_args):
    if "j" in node:
        return leaf(node)
    if "add" in node:
        a, b = node["add"]
        return build_expr(a, leaf, free_args) + build_expr(b, leaf, free_args)
    if "sum" in node:
        return sum(build_expr(x, leaf, free_args) for x in node["sum"])
    if "free" in node:
        return build_expr(node["free"], leaf, free_args).with_free_parameters(*free_args())
    raise ValueError(node)


def describe(obj):
    def one(a):
        inner = a.analysis if type(a) is IndexedAnalysis else a
        hm = isinstance(inner, ModelAnalysis)
        j = inner.analysis.j if hm else inner.j
        if type(a) is IndexedAnalysis:
            return ["idx", j, hm, a.index]
        return ["plain", j, hm]

    if isinstance(obj, CombinedAnalysis):
        kind = {CombinedAnalysis: "plain", CombinedModelAnalysis: "model", FreeParameterAnalysis: "free"}.get(
            type(obj), type(obj).__name__)
        return {"kind": kind, "items": [one(a) for a in obj.analyses]}
    d = one(obj)
    return {"kind": "single", "items": [d]}


def slots(shape):
    return [("c%d" % ci, "a%d" % k) for ci, n in enumerate(shape) for k in range(n)]


def build_model(shape, pids, priors):
    """shape: args per component; pids: prior id per slot; priors: pid -> Prior (shared objects)."""
    comps = {}
    pos = 0
    for ci, n in enumerate(shape):
        kw = {}
        for k in range(n):
            pid = pids[pos]
            pos += 1
            if pid not in priors:
                priors[pid] = af.UniformPrior(lower_limit=-1000.0, upper_limit=1000.0)
            kw["a%d" % k] = priors[pid]
        comps["c%d" % ci] = af.Model(PCLS[n], **kw)
    return af.Collection(**comps)


def well_indexed(desc):
    return desc["kind"] in ("model", "free") and all(
        it[0] == "idx" and it[3] == k for k, it in enumerate(desc["items"]))


def written_folders(root, prefix):
    """[(folder index, analysis id)] of files <prefix><j>.txt below root"""
    out = []
    for r, _, files in os.walk(root):
        for fn in files:
            if fn.startswith(prefix) and fn.endswith(".txt"):
                rel = os.path.relpath(r, root).replace(os.sep, "/")
                folder = -1
                for part in rel.split("/"):
                    if part.startswith("analysis_"):
                        try:
                            folder = int(part.split("_")[1])
                        except ValueError:
                            pass
                out.append([folder, int(fn[len(prefix):-4])])
    return sorted(out)


def run_history(combined, ops, make_instance, tag, steered=True, model_arg=None):
    outs = []
    steer = None
    try:
        if (combined.n_cores or 1) > 1 and combined._analysis_pool is not None:
            steer = Steer(combined._analysis_pool, steered)       # pool created by the constructor (config n_cores)
        for k, op in enumerate(ops):
            if op[0] == "cores":
                if op[1] > 1 and steer is not None:
                    steer.close()
                    steer = None
                combined.n_cores = op[1]
                if op[1] > 1:
                    steer = Steer(combined._analysis_pool, steered)
                continue
            if op[0] == "modify":
                # what NonLinearSearch.fit does before any likelihood is evaluated
                MOD["delta"] = op[1]
                new = combined.modify_before_fit(af.DirectoryPaths(name="c15_%s_m%d" % (tag, k)), model_arg)
                MOD["delta"] = 0
                if new is not combined:
                    if steer is not None:
                        steer.close()
                        steer = None
                    combined = new
                    if (combined.n_cores or 1) > 1 and combined._analysis_pool is not None:
                        steer = Steer(combined._analysis_pool, steered)
                continue
            inst = make_instance(op[1])
            if steer is not None and (op[0] == "map" or combined.n_cores > 1):
                steer.begin_call(op[2])
            if op[0] == "eval":
                try:
                    outs.append({"ans": enc_result(combined.log_likelihood_function(inst))})
                except SteerTimeout:
                    raise
                except Exception as e:  # noqa
                    outs.append({"ans": ["exc", exc_name(e)]})
            else:
                paths = af.DirectoryPaths(name="c15_%s_%d" % (tag, k))
                try:
                    ans = enc_result(combined.visualize(paths, inst, False))
                except SteerTimeout:
                    raise
                except Exception as e:  # noqa
                    ans = ["exc", exc_name(e)]
                root = str(paths.output_path)
                outs.append({"ans": ans, "written": written_folders(root, "viz_")})
                shutil.rmtree(os.path.dirname(root), ignore_errors=True)
        residue = steer.residue() if steer is not None else []
        return {"outs": outs, "residue": residue}
    finally:
        if steer is not None:
            steer.close()


def run_case(c, idx):
    kind = c["kind"]
    scale = c.get("scale", 1)
    shape = c.get("shape")
    sl = slots(shape) if shape else None
    priors = {}
    default = build_model(shape, c["default"], priors) if shape else None
    models = {int(j): build_model(shape, pids, priors) for j, pids in c.get("own", {}).items()} if shape else {}
    cache = {}

    def leaf(node):
        j = node["j"]
        key = (j, bool(node.get("hm")))
        if key in cache:                      # the same object when an analysis is written twice
            return cache[key]
        ad = c["ads"][j] if "ads" in c else {}
        a = VA(j, ad, sl, scale)
        if node.get("hm"):
            a = a.with_model(models[j] if j in models else af.Model(P1, a0=af.UniformPrior(0.0, 1.0)))
        cache[key] = a
        return a

    def free_args():
        items = []
        for it in c.get("free") or [{"prior": 0}]:
            if "prior" in it:
                pid = it["prior"]
                if pid not in priors:
                    priors[pid] = af.UniformPrior(lower_limit=-1000.0, upper_limit=1000.0)
                items.append(priors[pid])
            else:
                items.append(getattr(default, "c%d" % it["component"]))
        return items

    general = conf.instance["general"]["analysis"]
    original = general["n_cores"]
    try:
        if c.get("conf_cores"):
            general["n_cores"] = c["conf_cores"]     # read by CombinedAnalysis.__init__
        try:
            comb = build_expr(c["expr"], leaf, free_args)
        except (TypeError, AttributeError) as e:
            return {"struct": {"kind": "error", "exc": exc_name(e), "items": []}, "classes": [], "count": 0,
                    "outs": [], "residue": []}
        try:
            desc = describe(comb)
        except AttributeError:
            # __new__ answered FreeParameterAnalysis(...) with an object whose __init__ never ran
            return {"struct": {"kind": "error", "exc": "uninitialised", "items": []}, "classes": [], "count": 0,
                    "outs": [], "residue": []}
        if kind == "struct":
            return {"struct": desc}
        if kind == "hist":
            out = {"struct": desc}
            out.update(run_history(comb, c["ops"], lambda x: x, "h%d" % idx, not c.get("unsteered")))
            return out
        if kind == "idx":
            out = {"struct": desc, "classes": [], "count": 0, "outs": [], "residue": []}
            if not well_indexed(desc):
                return out
            modified = comb.modify_model(default)
            numbering, classes, cls_prior = {}, [], {}
            for sub in modified:
                row = []
                for comp, arg in sl:
                    p = getattr(getattr(sub, comp), arg)
                    if p.id not in numbering:
                        numbering[p.id] = len(numbering)
                        cls_prior[numbering[p.id]] = p
                    row.append(numbering[p.id])
                classes.append(row)
            out["classes"] = classes
            out["count"] = modified.prior_count
            out["n_models"] = len(modified)

            def make_instance(vals):
                return modified.instance_for_arguments({p: float(vals[k]) for k, p in cls_prior.items()})

            out.update(run_history(comb, c["ops"], make_instance, "i%d" % idx, True, modified))
            return out
        if kind == "fit":
            search = af.m.MockSearch(name="c15_fit_%d" % idx)
            MOD["delta"] = c.get("mod_delta", 0)
            MOD["log"] = os.path.join(os.environ.get("VERIF_SCRATCH", "."), "c15_llf_%d.txt" % idx)
            try:
                result = search.fit(default, comb)
            finally:
                MOD["delta"] = 0
                log, MOD["log"] = MOD["log"], None
            seen = set()
            if os.path.exists(log):
                for ln in open(log):
                    j, off = ln.split()
                    seen.add((int(j), int(off)))
            fitted = search.paths.model
            subs = [fitted] if desc["kind"] == "plain" else list(fitted)
            numbering = {}
            for sub in subs:
                for comp, arg in sl:
                    p = getattr(getattr(sub, comp), arg)
                    numbering.setdefault(p.id, len(numbering))
            children = []
            for r in result.child_results:
                row = []
                for comp, arg in sl:
                    try:
                        row.append(numbering.get(getattr(getattr(r.model, comp), arg).id, -1))
                    except AttributeError:
                        row.append(-1)
                children.append([getattr(r, "va_tag", -1), row])
            names, vbf = {}, []
            zpath = str(search.paths.output_path) + ".zip"
            if os.path.exists(zpath):
                with zipfile.ZipFile(zpath) as z:
                    for nm in z.namelist():
                        if nm.endswith("tag_attr.json") or nm.endswith("tag_res.json"):
                            names[nm] = json.loads(z.read(nm))
                        base = nm.split("/")[-1]
                        if base.startswith("vbf_") and base.endswith(".txt"):
                            folder = -1
                            for part in nm.split("/"):
                                if part.startswith("analysis_"):
                                    folder = int(part.split("_")[1])
                            vbf.append([folder, int(base[4:-4])])
            else:
                root = str(search.paths.output_path)
                vbf = written_folders(root, "vbf_")
                for r_, _, files in os.walk(root):
                    for fn in files:
                        if fn in ("tag_attr.json", "tag_res.json"):
                            nm = os.path.relpath(os.path.join(r_, fn), root).replace(os.sep, "/")
                            names[nm] = json.load(open(os.path.join(r_, fn)))
            attr, res = [], []
            for nm in sorted(names):
                folder = -1
                for part in nm.split("/"):
                    if part.startswith("analysis_"):
                        folder = int(part.split("_")[1])
                if nm.endswith("tag_attr.json"):
                    attr.append([folder, names[nm]["j"]])
                else:
                    res.append([folder, names[nm]["j"], names[nm].get("got", -1)])
            return {"struct": desc, "attr": sorted(attr), "vbf": sorted(vbf), "res": sorted(res), "children": children,
                    "n_models": len(subs), "offs": sorted([j, off] for j, off in seen)}
        raise ValueError(kind)
    finally:
        general["n_cores"] = original


def _alarm(signum, frame):
    raise SteerTimeout("case exceeded %d s (the pool never returned)" % CASE_LIMIT)


def main():
    global af, conf, exc, VA
    global CombinedAnalysis, IndexedAnalysis, FreeParameterAnalysis, ModelAnalysis, CombinedModelAnalysis
    import signal
    af, conf = setup()
    logging.disable(logging.CRITICAL)
    import autofit.exc as exc_
    exc = exc_
    from autofit.non_linear.analysis.combined import CombinedAnalysis as CA
    from autofit.non_linear.analysis.indexed import IndexedAnalysis as IA
    from autofit.non_linear.analysis.free_parameter import FreeParameterAnalysis as FA
    from autofit.non_linear.analysis.model_analysis import ModelAnalysis as MA, CombinedModelAnalysis as CMA
    CombinedAnalysis, IndexedAnalysis, FreeParameterAnalysis, ModelAnalysis, CombinedModelAnalysis = CA, IA, FA, MA, CMA
    VA = define_va()
    globals()["VA"] = VA          # picklable by reference as __main__.VA

    cases = json.load(open(sys.argv[1]))["cases"]
    out = []
    signal.signal(signal.SIGALRM, _alarm)
    for i, c in enumerate(cases):
        try:
            signal.alarm(CASE_LIMIT)
            try:
                out.append({"ok": run_case(c, c.get("idx", i))})
            finally:
                signal.alarm(0)
        except SteerTimeout as e:
            out.append({"timeout": str(e)})
        except BaseException as e:  # noqa
            out.append({"exc": exc_name(e), "msg": str(e)[:300]})
        kill_children()
    with open(sys.argv[2], "w") as f:
        json.dump({"results": out, "env": {k: os.environ[k] for k in ("C15_WAIT", "C15_CASE_LIMIT") if k in os.environ},
                   "start_method": multiprocessing.get_start_method()}, f)
    sys.stdout.flush()
    os._exit(0)


if __name__ == "__main__":
    main()
