"""C15 implementation driver: runs the real summed-analysis code on abstract cases.

Schedules of the parallel pool are steered from outside: after the real AnalysisPool has been
created (by the real `n_cores` setter) the *main-process side* of every `process.queue` is wrapped
by a proxy whose `empty()` follows a scripted availability mask (one list of booleans per pass of
`for process in self.processes` in AnalysisPool.results).  "not available" answers True (the item
has not arrived yet - a legal timing), "available" blocks until the worker really delivered the
item and answers False.  Workers, queues, pickling, __call__, results and map are the real code.
"""
import json
import logging
import os
import queue as pyqueue
import sys
import time
import zipfile

from vimpl_common import setup, exc_name

af, conf = setup()
logging.disable(logging.CRITICAL)

import autofit.exc as exc  # noqa: E402
from autofit.non_linear.analysis.combined import CombinedAnalysis  # noqa: E402
from autofit.non_linear.analysis.indexed import IndexedAnalysis, IndexCollectionAnalysis  # noqa: E402
from autofit.non_linear.analysis.free_parameter import FreeParameterAnalysis  # noqa: E402
from autofit.non_linear.analysis.model_analysis import ModelAnalysis, CombinedModelAnalysis  # noqa: E402

WAIT = float(os.environ.get("C15_WAIT", "30"))
CASE_LIMIT = int(os.environ.get("C15_CASE_LIMIT", "240"))


class SteerTimeout(BaseException):
    pass


# ---------------------------------------------------------------------------------------
# model classes (module level: instances travel through multiprocessing queues)
# ---------------------------------------------------------------------------------------
class P1:
    def __init__(self, a0=0.0):
        self.a0 = a0


class P2:
    def __init__(self, a0=0.0, a1=0.0):
        self.a0, self.a1 = a0, a1


class P3:
    def __init__(self, a0=0.0, a1=0.0, a2=0.0):
        self.a0, self.a1, self.a2 = a0, a1, a2


class P4:
    def __init__(self, a0=0.0, a1=0.0, a2=0.0, a3=0.0):
        self.a0, self.a1, self.a2, self.a3 = a0, a1, a2, a3


PCLS = {1: P1, 2: P2, 3: P3, 4: P4}


class VA(af.Analysis):
    """Harness analysis j: c + sum(w_k * value_k); raises FitException when value_0 is listed."""

    def __init__(self, j, c, w, fail, paths=None):
        self.j = j
        self.c = c
        self.w = list(w)
        self.fail = list(fail)
        self.paths = paths

    def values(self, instance):
        if self.paths is None:
            return [instance]
        out = []
        for comp, arg in self.paths:
            out.append(getattr(getattr(instance, comp), arg))
        return out

    def log_likelihood_function(self, instance):
        s = self.values(instance)
        if s and s[0] in self.fail:
            raise exc.FitException("scripted failure of analysis %d" % self.j)
        return float(self.c + sum(a * b for a, b in zip(self.w, s)))

    def save_attributes(self, paths):
        paths.save_json("tag_attr", {"j": self.j})

    def save_results(self, paths, result):
        paths.save_json("tag_res", {"j": self.j})

    def visualize(self, paths, instance, during_analysis):
        os.makedirs(paths.output_path, exist_ok=True)
        with open(os.path.join(str(paths.output_path), "viz_%d.txt" % self.j), "w") as f:
            f.write("x")

    def make_result(self, samples_summary, paths, samples=None, search_internal=None, analysis=None):
        r = super().make_result(samples_summary=samples_summary, paths=paths, samples=samples,
                                search_internal=search_internal, analysis=analysis)
        r.va_tag = self.j
        return r


# ---------------------------------------------------------------------------------------
# steering proxies
# ---------------------------------------------------------------------------------------
class Steer:
    def __init__(self, pool):
        self.pool = pool
        self.sizes = [len(p.analyses) for p in pool.processes]
        self.pending = [0] * len(pool.processes)
        self.masks = []
        self.sweep = -1
        self.progress = time.time()
        self.real = []
        for i, p in enumerate(pool.processes):
            self.real.append(p.queue)
            p.queue = QProxy(self, i, p.queue)

    def begin_call(self, masks):
        for i, n in enumerate(self.sizes):
            self.pending[i] += n
        self.masks = masks
        self.sweep = -1
        self.progress = time.time()

    def residue(self):
        """Whatever is (or will shortly be) left on the real result queues."""
        out = []
        for i, q in enumerate(self.real):
            items = []
            for _ in range(max(0, self.pending[i])):
                try:
                    items.append(q.get(timeout=WAIT))
                except pyqueue.Empty:
                    break
            while True:
                try:
                    items.append(q.get(timeout=0.03))
                except pyqueue.Empty:
                    break
            out.append([enc_result(x) for x in items])
        return out

    def close(self):
        pool = self.pool
        try:
            pool.terminate()
        except Exception:
            pass
        for p in pool.processes:
            try:
                if p.is_alive():
                    p.kill()
                    p.join(1)
            except Exception:
                pass
        # the pool's __del__ would terminate again; make that a no-op
        pool.processes = []


class QProxy:
    def __init__(self, steer, idx, real):
        self.steer, self.idx, self.real = steer, idx, real

    def empty(self):
        st = self.steer
        if self.idx == 0:
            st.sweep += 1
        s = st.sweep
        allowed = True
        if 0 <= s < len(st.masks):
            row = st.masks[s]
            allowed = row[self.idx] if self.idx < len(row) else True
        if not allowed:
            return True
        if st.pending[self.idx] <= 0:
            if time.time() - st.progress > WAIT:
                raise SteerTimeout("results() keeps polling although every expected result was consumed")
            return self.real.empty()
        t0 = time.time()
        while self.real.empty():
            if time.time() - t0 > WAIT:
                raise SteerTimeout("process %d never delivered an expected result" % self.idx)
            time.sleep(0.0002)
        return False

    def get(self, *a, **kw):
        self.steer.pending[self.idx] -= 1
        self.steer.progress = time.time()
        return self.real.get(*a, **kw)

    def __getattr__(self, item):
        return getattr(self.real, item)


def enc_result(x):
    if isinstance(x, BaseException):
        return ["exc", exc_name(x)]
    try:
        f = float(x)
    except Exception:
        return ["other", repr(x)[:60]]
    return ["val", f.hex()]


# ---------------------------------------------------------------------------------------
# building analyses and models
# ---------------------------------------------------------------------------------------
def build_expr(node, leaf):
    if "j" in node:
        return leaf(node)
    if "add" in node:
        a, b = node["add"]
        return build_expr(a, leaf) + build_expr(b, leaf)
    if "sum" in node:
        return sum(build_expr(x, leaf) for x in node["sum"])
    raise ValueError(node)


def describe(obj):
    def one(a):
        inner = a.analysis if type(a) is IndexedAnalysis else a
        hm = isinstance(inner, ModelAnalysis)
        j = inner.analysis.j if hm else inner.j
        if type(a) is IndexedAnalysis:
            return ["idx", j, hm, a.index]
        return ["plain", j, hm]

    if isinstance(obj, CombinedAnalysis):
        kind = {CombinedAnalysis: "plain", CombinedModelAnalysis: "model", FreeParameterAnalysis: "free"}.get(
            type(obj), type(obj).__name__)
        return {"kind": kind, "items": [one(a) for a in obj.analyses]}
    d = one(obj)
    return {"kind": "single", "items": [d]}


def slots(shape):
    return [("c%d" % ci, "a%d" % k) for ci, n in enumerate(shape) for k in range(n)]


def build_model(shape, pids, priors):
    """shape: args per component; pids: prior id per slot; priors: pid -> Prior (shared objects)."""
    comps = {}
    pos = 0
    for ci, n in enumerate(shape):
        kw = {}
        for k in range(n):
            pid = pids[pos]
            pos += 1
            if pid not in priors:
                priors[pid] = af.UniformPrior(lower_limit=-1000.0, upper_limit=1000.0)
            kw["a%d" % k] = priors[pid]
        comps["c%d" % ci] = af.Model(PCLS[n], **kw)
    return af.Collection(**comps)


def well_indexed(desc):
    return desc["kind"] in ("model", "free") and all(
        it[0] == "idx" and it[3] == k for k, it in enumerate(desc["items"]))


def run_history(combined, ops, make_instance):
    answers = []
    steer = None
    try:
        if (combined.n_cores or 1) > 1 and combined._analysis_pool is not None:
            steer = Steer(combined._analysis_pool)       # pool created by the constructor (config n_cores)
        for op in ops:
            if op[0] == "cores":
                if steer is not None:
                    steer.close()
                    steer = None
                combined.n_cores = op[1]
                if op[1] > 1:
                    steer = Steer(combined._analysis_pool)
            else:
                inst = make_instance(op[1])
                if steer is not None:
                    steer.begin_call(op[2])
                try:
                    v = combined.log_likelihood_function(inst)
                    answers.append(enc_result(v))
                except SteerTimeout:
                    raise
                except Exception as e:  # noqa
                    answers.append(["exc", exc_name(e)])
        residue = steer.residue() if steer is not None else []
        return {"answers": answers, "residue": residue}
    finally:
        if steer is not None:
            steer.close()


def mk_leaf(c, paths=None, models=None):
    ads = c["ads"]

    def leaf(node):
        j = node["j"]
        a = VA(j, ads[j]["c"], ads[j]["w"], ads[j]["fail"], paths)
        if node.get("hm"):
            return a.with_model(models[j])
        return a
    return leaf


def run_case(c, idx):
    kind = c["kind"]
    if kind == "struct":
        comb = build_expr(c["expr"], lambda n: (VA(n["j"], 0, [], []).with_model(af.Model(P1, a0=af.UniformPrior(0.0, 1.0)))
                                                  if n.get("hm") else VA(n["j"], 0, [], [])))
        if c.get("free"):
            comb = comb.with_free_parameters(af.UniformPrior(0.0, 1.0))
        return {"struct": describe(comb)}
    if kind == "hist":
        general = conf.instance["general"]["analysis"]
        original = general["n_cores"]
        try:
            if c.get("conf_cores"):
                general["n_cores"] = c["conf_cores"]     # read by CombinedAnalysis.__init__
            comb = build_expr(c["expr"], mk_leaf(c))
        finally:
            general["n_cores"] = original
        out = {"struct": describe(comb)}
        out.update(run_history(comb, c["ops"], lambda x: x))
        return out
    if kind == "idx":
        shape = c["shape"]
        priors = {}
        default = build_model(shape, c["default"], priors)
        models = {int(j): build_model(shape, pids, priors) for j, pids in c.get("own", {}).items()}
        sl = slots(shape)
        comb = build_expr(c["expr"], mk_leaf(c, sl, models))
        if c.get("free") is not None:
            items = []
            for it in c["free"]:
                if "prior" in it:
                    pid = it["prior"]
                    if pid not in priors:
                        priors[pid] = af.UniformPrior(lower_limit=-1000.0, upper_limit=1000.0)
                    items.append(priors[pid])
                else:
                    items.append(getattr(default, "c%d" % it["component"]))
            comb = comb.with_free_parameters(*items)
        desc = describe(comb)
        out = {"struct": desc, "classes": [], "count": 0, "answers": [], "residue": []}
        if not well_indexed(desc):
            return out
        modified = comb.modify_model(default)
        numbering = {}
        classes = []
        cls_prior = {}
        for sub in modified:
            row = []
            for comp, arg in sl:
                p = getattr(getattr(sub, comp), arg)
                if p.id not in numbering:
                    numbering[p.id] = len(numbering)
                    cls_prior[numbering[p.id]] = p
                row.append(numbering[p.id])
            classes.append(row)
        out["classes"] = classes
        out["count"] = modified.prior_count
        out["n_models"] = len(modified)

        def make_instance(vals):
            args = {p: float(vals[k]) for k, p in cls_prior.items()}
            return modified.instance_for_arguments(args)

        out.update(run_history(comb, c["ops"], make_instance))
        return out
    if kind == "folders":
        ids = c["ids"]
        comb = build_expr({"sum": [{"j": j} for j in ids]}, lambda n: VA(n["j"], 0, [], []))
        steer_pool = None
        try:
            comb.n_cores = c["cores"]
            steer_pool = comb._analysis_pool if c["cores"] > 1 else None
            paths = af.DirectoryPaths(name="c15_folders_%d" % idx)
            comb.visualize(paths, None, False)
            found = {}
            root = str(paths.output_path)
            for r, _, files in os.walk(root):
                for fn in files:
                    if fn.startswith("viz_"):
                        rel = os.path.relpath(r, root).replace(os.sep, "/")
                        found.setdefault(int(fn[4:-4]), []).append(rel)
            obs = []
            for j in ids:
                for rel in sorted(found.get(j, [])):
                    if rel.startswith("analyses/analysis_"):
                        obs.append([int(rel.split("_")[-1]), j])
                    else:
                        obs.append([-1, j])
            return {"folders": obs}
        finally:
            if steer_pool is not None:
                try:
                    steer_pool.terminate()
                    for p in steer_pool.processes:
                        if p.is_alive():
                            p.kill()
                    steer_pool.processes = []
                except Exception:
                    pass
    if kind == "fit":
        shape = c["shape"]
        priors = {}
        default = build_model(shape, c["default"], priors)
        sl = slots(shape)
        ids = c["ids"]
        c2 = dict(c)
        comb = build_expr({"sum": [{"j": j} for j in ids]}, mk_leaf(c2, sl, {}))
        comb = comb.with_free_parameters(*[priors[pid] for pid in c["free"]])
        search = af.m.MockSearch(name="c15_fit_%d" % idx)
        result = search.fit(default, comb)
        fitted = search.paths.model
        sub_ids = [[p.id for p in sub.priors_ordered_by_id] for sub in fitted]
        children = []
        for r in result.child_results:
            ids_r = [p.id for p in r.model.priors_ordered_by_id]
            k = [i for i, s in enumerate(sub_ids) if s == ids_r]
            children.append([getattr(r, "va_tag", -1), k[0] if len(k) == 1 else -1])
        attr, res = [], []
        zpath = str(search.paths.output_path) + ".zip"
        names = {}
        if os.path.exists(zpath):
            with zipfile.ZipFile(zpath) as z:
                for nm in z.namelist():
                    if nm.endswith("tag_attr.json") or nm.endswith("tag_res.json"):
                        names[nm] = json.loads(z.read(nm))
        else:
            root = str(search.paths.output_path)
            for r_, _, files in os.walk(root):
                for fn in files:
                    if fn in ("tag_attr.json", "tag_res.json"):
                        nm = os.path.relpath(os.path.join(r_, fn), root).replace(os.sep, "/")
                        names[nm] = json.load(open(os.path.join(r_, fn)))
        for nm in sorted(names):
            parts = nm.split("/")
            folder = -1
            for part in parts:
                if part.startswith("analysis_"):
                    folder = int(part.split("_")[1])
            (attr if nm.endswith("tag_attr.json") else res).append([folder, names[nm]["j"]])
        return {"attr": sorted(attr), "res": sorted(res), "children": children, "n_models": len(fitted)}
    raise ValueError(kind)


def _alarm(signum, frame):
    raise SteerTimeout("case exceeded %d s (the pool never returned)" % CASE_LIMIT)


def main():
    import signal
    cases = json.load(open(sys.argv[1]))["cases"]
    out = []
    signal.signal(signal.SIGALRM, _alarm)
    for i, c in enumerate(cases):
        try:
            signal.alarm(CASE_LIMIT)
            try:
                out.append({"ok": run_case(c, c.get("idx", i))})
            finally:
                signal.alarm(0)
        except SteerTimeout as e:
            out.append({"exc": "SteerTimeout", "msg": str(e)})
        except BaseException as e:  # noqa
            out.append({"exc": exc_name(e), "msg": str(e)[:300]})
    with open(sys.argv[2], "w") as f:
        json.dump({"results": out}, f)
    sys.stdout.flush()
    os._exit(0)


main()
