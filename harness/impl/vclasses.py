"""Importable model classes used by the generated composition programs (C01 family)."""


class G2:
    def __init__(self, a=0.0, b=1.0):
        self.a = a
        self.b = b


class G3:
    def __init__(self, x=0.0, y=1.0, z=2.0):
        self.x = x
        self.y = y
        self.z = z


class T2:
    def __init__(self, c=0.0, pos=(0.0, 0.0)):
        self.c = c
        self.pos = pos


class T3:
    def __init__(self, pos=(0.0, 0.0, 0.0)):
        self.pos = pos


class T11:
    def __init__(self, pos=(0.0,) * 11, w=1.0):
        self.pos = pos
        self.w = w


class T13:
    def __init__(self, pos=(0.0,) * 13):
        self.pos = pos


class N1:
    def __init__(self, inner: G2, s=1.0):
        self.inner = inner
        self.s = s


class N2:
    def __init__(self, left: G2, right: T2, k=0.0):
        self.left = left
        self.right = right
        self.k = k


# -- added for C01 (opt-in in modelgen.Gen): constructor-argument names containing "_", deeper nesting,
#    a list-valued argument
class CE:
    def __init__(self, centre=(0.0, 0.0), centre_err=0.5):
        self.centre = centre
        self.centre_err = centre_err


class LC:
    def __init__(self, light_centre=(0.0, 0.0), q=1.0):
        self.light_centre = light_centre
        self.q = q


class N3:
    def __init__(self, inner: N1, t=0.0):
        self.inner = inner
        self.t = t


class L1:
    def __init__(self, items: list, s=1.0):
        self.items = items
        self.s = s


CLASSES = {c.__name__: c for c in (G2, G3, T2, T3, T11, T13, N1, N2, CE, LC, N3, L1)}

# name -> ordered constructor arguments: (arg, kind, extra) ; kind in float|tuple|class
SIGNATURES = {
    "G2": [("a", "float", None), ("b", "float", None)],
    "G3": [("x", "float", None), ("y", "float", None), ("z", "float", None)],
    "T2": [("c", "float", None), ("pos", "tuple", 2)],
    "T3": [("pos", "tuple", 3)],
    "T11": [("pos", "tuple", 11), ("w", "float", None)],
    "T13": [("pos", "tuple", 13)],
    "N1": [("inner", "class", "G2"), ("s", "float", None)],
    "N2": [("left", "class", "G2"), ("right", "class", "T2"), ("k", "float", None)],
    "CE": [("centre", "tuple", 2), ("centre_err", "float", None)],
    "LC": [("light_centre", "tuple", 2), ("q", "float", None)],
    "N3": [("inner", "class", "N1"), ("t", "float", None)],
    "L1": [("items", "list", None), ("s", "float", None)],
}
