"""Model component classes used by the C09 driver (importable by class path for model.json round trips)."""


class F1:
    def __init__(self, a=0.0):
        self.a = a


class F2:
    def __init__(self, a=0.0, b=1.0):
        self.a = a
        self.b = b


class F3:
    def __init__(self, a=0.0, b=1.0, c=2.0):
        self.a = a
        self.b = b
        self.c = c


class T1:
    """tuple then float (the shape of a 2D profile with a centre)"""

    def __init__(self, pos=(0.0, 0.0), s=1.0):
        self.pos = pos
        self.s = s


class T2:
    """tuples only"""

    def __init__(self, pos=(0.0, 0.0), vel=(0.0, 0.0, 0.0)):
        self.pos = pos
        self.vel = vel


class TF:
    """float then tuple"""

    def __init__(self, s=1.0, pos=(0.0, 0.0)):
        self.s = s
        self.pos = pos


class RW:
    """a parameter whose name is also a column of samples.csv"""

    def __init__(self, weight=1.0, centre=0.0):
        self.weight = weight
        self.centre = centre


class RL:
    def __init__(self, log_likelihood=1.0, x=0.0):
        self.log_likelihood = log_likelihood
        self.x = x


CLASSES = {
    "F1": (F1, [("a", 0)]),
    "F2": (F2, [("a", 0), ("b", 0)]),
    "F3": (F3, [("a", 0), ("b", 0), ("c", 0)]),
    "T1": (T1, [("pos", 2), ("s", 0)]),
    "T2": (T2, [("pos", 2), ("vel", 3)]),
    "TF": (TF, [("s", 0), ("pos", 2)]),
    "RW": (RW, [("weight", 0), ("centre", 0)]),
    "RL": (RL, [("log_likelihood", 0), ("x", 0)]),
}
