"""C19 implementation driver: real SQLite files at historical schema revisions, opened through
autofit.database.open_database / Aggregator.from_database, observed through independent raw
sqlite3 connections.  Modes (payload["mode"]):

  "meta"  : ORM schema (Base.metadata), runtime step strings / ids, artifact schema
  "cases" : run abstract cases (see vcheck/c19.py gen_cases) and return observables
"""
import json
import logging
import os
import shutil
import sqlite3
import sys
import traceback

from vimpl_common import setup

af, conf = setup()
logging.disable(logging.CRITICAL)

import numpy as np
import autofit.database as db
from autofit.database.sqlalchemy_ import sa
from sqlalchemy import text
from autofit.database.model.model import Base
from autofit.database.migration.steps import migrator
import c19_ddl as D

REPO = os.environ.get("VERIF_REPO", "/repo")
SCRATCH = os.environ["VERIF_SCRATCH"]
CORPUS = os.path.join(os.environ.get("VERIF_DIR", "/verif"), "corpus", "C19")
# PINNED history (committed, never regenerated): released step texts / ids, the schema before the first step
# with its DDL, and a copy of the repository's historical test database
PIN = json.load(open(os.path.join(CORPUS, "pinned_history.json")))
ARTIFACT = os.path.join(CORPUS, "historical_database.sqlite")

RUNTIME_STEPS = [list(s.strings) for s in migrator._steps]
PARSED = None          # set in main (fail closed -> reported)
STMT_INDEX = {}        # statement text -> (step index, statement index)

def released_steps(k):
    """Statements that produced schema revision k: the texts as RELEASED (pinned) as far as they go, the
    current ones for steps appended since."""
    pin = PIN["steps"]
    return [list(s) for s in pin[:k]] + [list(s) for s in RUNTIME_STEPS[len(pin):k]]


def released_revision_id(j):
    """Stamp a released version wrote at revision j (pinned; computed only for steps appended since)."""
    ids = PIN["revision_ids"]
    return ids[j - 1] if 1 <= j <= len(ids) else D.revision_id(released_steps(j))


# --------------------------------------------------------------------------------------------
# statement trace (class-level engine events: open_database creates its own engine)
# --------------------------------------------------------------------------------------------
TRACE = []


@sa.event.listens_for(sa.engine.Engine, "before_cursor_execute")
def _before(conn, cursor, statement, parameters, context, executemany):
    TRACE.append([statement, True])


@sa.event.listens_for(sa.engine.Engine, "handle_error")
def _err(ctx):
    for ent in reversed(TRACE):
        if ent[0] == ctx.statement:
            ent[1] = False
            break


AUX = {
    "SELECT revision_id FROM revision": "select_rev",
    "SELECT 1 FROM revision": "select_one",
    "CREATE TABLE revision (revision_id VARCHAR PRIMARY KEY)": "create_rev",
    "INSERT INTO revision (revision_id) VALUES (null)": "insert_null",
    "INSERT INTO revision (revision_id) VALUES (?)": "insert_rev",
}


def classify_trace():
    """-> list of [kind, i, j, ok]; kind 'step' (i, j = step / statement index) or an aux kind or 'other'."""
    out = []
    for stmt, ok in TRACE:
        if stmt in STMT_INDEX:
            i, j = STMT_INDEX[stmt]
            out.append(["step", i, j, ok])
        elif stmt in AUX:
            out.append([AUX[stmt], 0, 0, ok])
        elif stmt.startswith("UPDATE revision SET revision_id"):
            out.append(["update_rev", 0, 0, ok])
        elif stmt.startswith("PRAGMA") or stmt.startswith("\nCREATE TABLE") or stmt.startswith("CREATE INDEX") or stmt.startswith("CREATE TABLE"):
            out.append(["create_all", 0, 0, ok])
        else:
            out.append(["other", 0, 0, ok])
    # collapse the create_all burst
    res = []
    for e in out:
        if e[0] == "create_all" and res and res[-1][0] == "create_all":
            res[-1][3] = res[-1][3] and e[3]
            continue
        res.append(e)
    return res


# --------------------------------------------------------------------------------------------
# observation
# --------------------------------------------------------------------------------------------

def _observe(execute):
    tables = [r[0] for r in execute("SELECT name FROM sqlite_master WHERE type='table' ORDER BY name")]
    schema = []
    rev = "notable"
    for t in tables:
        if t.startswith("sqlite_"):
            continue
        cols = [r[1] for r in execute("PRAGMA table_info('%s')" % t)]
        if t == "revision":
            rev = [r[0] for r in execute("SELECT revision_id FROM revision")]
            if cols != ["revision_id"]:
                rev = "odd-revision-table"
            continue
        schema.append([t, cols])
    nfit = None
    if any(t == "fit" for t, _ in schema):
        nfit = [r[0] for r in execute("SELECT count(*) FROM fit")][0]
    rows = {t: [r[0] for r in execute('SELECT count(*) FROM "%s"' % t)][0] for t, _ in schema}
    return {"schema": schema, "rev": rev, "nfit": nfit, "rows": rows}


def observe_file(path):
    if not os.path.exists(path):
        return {"schema": [], "rev": "nofile", "nfit": None, "rows": {}}
    con = sqlite3.connect(path)
    try:
        return _observe(lambda q: con.execute(q).fetchall())
    finally:
        con.close()


def observe_session(session):
    n = len(TRACE)
    try:
        return _observe(lambda q: list(session.execute(text(q))))
    finally:
        del TRACE[n:]


# --------------------------------------------------------------------------------------------
# historical files
# --------------------------------------------------------------------------------------------

def orm_schema():
    return [[t.name, [c.name for c in t.columns]] for t in Base.metadata.sorted_tables]


def orm_dict():
    return {t: list(c) for t, c in orm_schema()}


def derived_base_tables():
    """ORM tables with the effect of every migration step undone (columns kept, with their DDL)."""
    base = D.reverse_steps(orm_dict(), PARSED)
    md = sa.MetaData()
    tabs = []
    for t in Base.metadata.sorted_tables:
        if t.name not in base:
            continue
        cols = []
        for c in t.columns:
            if c.name in base[t.name]:
                cols.append(c._copy())
            else:
                # a column renamed by a step: present under its old name
                pass
        new = sa.Table(t.name, md, *cols)
        extra = [n for n in base[t.name] if n not in [c.name for c in cols]]
        for n in extra:
            new.append_column(sa.Column(n, sa.Integer))
        tabs.append(new)
    from sqlalchemy.schema import CreateTable
    from sqlalchemy.dialects import sqlite as sqlite_dialect
    return [str(CreateTable(t).compile(dialect=sqlite_dialect.dialect())) for t in tabs]


_FULL = {}


def full_db(nfits):
    """A database written by the current code (create_all + ORM) holding `nfits` plain fits."""
    if nfits in _FULL:
        return _FULL[nfits]
    path = os.path.join(SCRATCH, "full_%d.sqlite" % nfits)
    session = db.open_database(path)
    for i in range(nfits):
        fit = db.Fit(
            id="old_fit_%d" % i,
            is_complete=(i == 0),
            unique_tag="tag%d" % i,
            info={"key%d" % i: "value%d" % i},
            model=af.Model(af.Gaussian, centre=af.UniformPrior(lower_limit=0.0, upper_limit=float(i + 1))),
            instance=af.Gaussian(centre=float(i) + 0.5, normalization=2.0, sigma=3.0),
        )
        fit["old_pickle"] = {"n": i}
        session.add(fit)
    session.commit()
    session.close()
    session.get_bind().dispose()
    _FULL[nfits] = path
    return path


def expected_old_fits(nfits):
    return [{"id": "old_fit_%d" % i, "is_complete": i == 0, "unique_tag": "tag%d" % i,
             "info": {"key%d" % i: "value%d" % i}, "prior_count": 3, "centre": float(i) + 0.5,
             "upper": float(i + 1), "pickle": {"n": i}} for i in range(nfits)]


def read_fit(fit):
    model = fit.model
    inst = fit.instance
    return {"id": fit.id, "is_complete": fit.is_complete, "unique_tag": fit.unique_tag, "info": fit.info,
            "prior_count": model.prior_count if model is not None else None,
            "centre": getattr(inst, "centre", None),
            "upper": model.centre.upper_limit if model is not None else None,
            "pickle": fit["old_pickle"]}


def build_file(path, base, k, rev, nfits):
    """Historical database: base schema + first k steps (applied here with raw sqlite3, NOT by the
    code under test) + revision table state + rows copied from a database written by the ORM."""
    if base == "artifact":
        shutil.copy(ARTIFACT, path)
        con = sqlite3.connect(path)
        have = {t: [r[1] for r in con.execute("PRAGMA table_info('%s')" % t)]
                for (t,) in con.execute("SELECT name FROM sqlite_master WHERE type='table'")}
    else:
        con = sqlite3.connect(path)
        for ddl in PIN["base_ddl"]:
            con.execute(ddl)
        have = None
    for i, step in enumerate(released_steps(k)):
        for j, stmt in enumerate(step):
            try:
                con.execute(stmt)
            except sqlite3.OperationalError:
                # the artifact already contains the effect of its first step(s)
                if base != "artifact":
                    raise
    con.commit()
    if nfits:
        src = full_db(nfits)
        con.execute("ATTACH DATABASE '%s' AS src" % src)
        tables = [t for (t,) in con.execute("SELECT name FROM main.sqlite_master WHERE type='table'")]
        src_tables = [t for (t,) in con.execute("SELECT name FROM src.sqlite_master WHERE type='table'")]
        for t in src_tables:
            if t == "revision":
                continue
            n = con.execute('SELECT count(*) FROM src."%s"' % t).fetchone()[0]
            if t not in tables:
                if n:
                    raise RuntimeError("pre-populated fit uses table %s absent at this revision" % t)
                continue
            tc = [r[1] for r in con.execute("PRAGMA main.table_info('%s')" % t)]
            sc = [r[1] for r in con.execute("PRAGMA src.table_info('%s')" % t)]
            common = [c for c in sc if c in tc]
            if n:
                cl = ", ".join('"%s"' % c for c in common)
                con.execute('INSERT INTO main."%s" (%s) SELECT %s FROM src."%s"' % (t, cl, cl, t))
        con.commit()
        con.execute("DETACH DATABASE src")
    if rev != "notable":
        con.execute("CREATE TABLE revision (revision_id VARCHAR PRIMARY KEY)")
        if rev == "null":
            con.execute("INSERT INTO revision (revision_id) VALUES (null)")
        elif rev.startswith("stamp:"):
            j = int(rev.split(":")[1])
            con.execute("INSERT INTO revision (revision_id) VALUES (?)", (released_revision_id(j),))
        elif rev.startswith("unknown:"):
            con.execute("INSERT INTO revision (revision_id) VALUES (?)", (rev.split(":", 1)[1],))
        elif rev != "empty":
            raise RuntimeError("bad rev " + rev)
        con.commit()
    con.close()


# --------------------------------------------------------------------------------------------
# sessions
# --------------------------------------------------------------------------------------------

def open_via(via, path):
    if not path.endswith(".sqlite"):
        # a case of the URL branch of open_database (names that do not end in ".sqlite"): every session of
        # such a case has to name the file by its URL
        assert path.startswith("/")
        path = "sqlite:///" + path
    if via == "aggregator":
        agg = af.Aggregator.from_database(path)
        return agg.session
    return db.open_database(path)


def end_session(session):
    try:
        session.close()
    finally:
        session.get_bind().dispose()


def make_samples(model):
    return af.Samples(
        model=model,
        sample_list=[
            af.Sample(log_likelihood=-1.0 - i, log_prior=0.0, weight=1.0,
                      kwargs={"centre": 0.25 * i, "normalization": 1.0, "sigma": 2.0})
            for i in range(3)
        ],
    )


def feature_ops():
    from astropy.io import fits as afits

    def basic(session, fit):
        pass

    def naming(session, fit):
        fit.name = "the_name"
        fit.path_prefix = "some/prefix"

    def max_ll(session, fit):
        fit.max_log_likelihood = 1.5

    def json_(session, fit):
        fit.set_json("j", {"a": 1, "b": [1, 2]})

    def array(session, fit):
        fit.set_array("arr", np.array([[1.0, 2.0], [3.0, 4.0]]))

    def hdu(session, fit):
        fit.set_hdu("hdu", afits.PrimaryHDU(np.array([[3.0, 3.0], [3.0, 3.0]], dtype=np.dtype(">f8")), afits.Header()))

    def samples(session, fit):
        fit.samples = make_samples(af.Model(af.Gaussian))

    def latent(session, fit):
        fit.latent_samples = make_samples(af.Model(af.Gaussian))

    def named(session, fit):
        fit.named_instances["best"] = af.Gaussian(centre=7.0, normalization=8.0, sigma=9.0)

    return [("basic", basic), ("naming", naming), ("max_log_likelihood", max_ll), ("json", json_), ("array", array),
            ("hdu", hdu), ("samples", samples), ("latent_samples", latent), ("named_instance", named)]


def feature_checks():
    def naming(agg, fit):
        got = agg.query(agg.search.name == "the_name").fits
        return fit.name == "the_name" and fit.path_prefix == "some/prefix" and [f.id for f in got] == ["feature_fit"]

    def max_ll(agg, fit):
        return fit.max_log_likelihood == 1.5

    def json_(agg, fit):
        return fit.get_json("j") == {"a": 1, "b": [1, 2]} and fit["j"] == {"a": 1, "b": [1, 2]}

    def array(agg, fit):
        return bool((fit.get_array("arr") == np.array([[1.0, 2.0], [3.0, 4.0]])).all())

    def hdu(agg, fit):
        return bool((fit.get_hdu("hdu").data == 3.0).all())

    def samples(agg, fit):
        s = fit.samples
        return s is not None and [x.log_likelihood for x in s.sample_list] == [-1.0, -2.0, -3.0]

    def latent(agg, fit):
        s = fit.latent_samples
        return s is not None and [x.log_likelihood for x in s.sample_list] == [-1.0]  # minimise() keeps the best sample

    def named(agg, fit):
        inst = fit.named_instances["best"]
        return inst is not None and inst.centre == 7.0 and inst.sigma == 9.0

    def basic(agg, fit):
        return fit.instance.centre == 0.125 and fit.model.prior_count == 3 and fit.info == {"k": "v"}

    return {"basic": basic, "naming": naming, "max_log_likelihood": max_ll, "json": json_, "array": array, "hdu": hdu,
            "samples": samples, "latent_samples": latent, "named_instance": named}


def short_exc(e):
    return "exc:%s:%s" % (type(e).__name__, " ".join(str(e).split())[:160])


def exercise_features(path, nfits):
    """Oracle part: every current feature must work on the database (each in a session of its own,
    committed, then read back in a fresh session); pre-existing fits must still read back."""
    res = {"write": {}, "read": {}, "old_fits": None}
    for name, op in feature_ops():
        session = None
        try:
            session = db.open_database(path)
            fit = session.query(db.Fit).filter(db.Fit.id == "feature_fit").one_or_none()
            if fit is None:
                fit = db.Fit(id="feature_fit", is_complete=True, unique_tag="ft", info={"k": "v"},
                             model=af.Model(af.Gaussian), instance=af.Gaussian(centre=0.125, normalization=1.0, sigma=1.0))
                session.add(fit)
            op(session, fit)
            session.commit()
            res["write"][name] = "ok"
        except Exception as e:
            res["write"][name] = short_exc(e)
        finally:
            if session is not None:
                try:
                    end_session(session)
                except Exception:
                    pass
    checks = feature_checks()
    for name, _ in feature_ops():
        session = None
        try:
            agg = af.Aggregator.from_database(path)
            session = agg.session
            fits = [f for f in agg.fits if f.id == "feature_fit"]
            if len(fits) != 1:
                res["read"][name] = "missing-fit"
            else:
                res["read"][name] = "ok" if checks[name](agg, fits[0]) else "mismatch"
        except Exception as e:
            res["read"][name] = short_exc(e)
        finally:
            if session is not None:
                try:
                    end_session(session)
                except Exception:
                    pass
    res["old_fits"] = read_old_fits(path)
    return res


def read_old_fits(path, via="aggregator"):
    """Fits stored before the migration, read back through the ORM."""
    session = None
    try:
        session = open_via(via, path)
        fits = af.Aggregator(session).fits
        return sorted((read_fit(f) for f in fits if f.id.startswith("old_fit_")), key=lambda d: d["id"])
    except Exception as e:
        return short_exc(e)
    finally:
        if session is not None:
            try:
                end_session(session)
            except Exception:
                pass


_counter = [0]


def build_toy(path, c):
    con = sqlite3.connect(path)
    for t, cols in c["schema"]:
        defs = ", ".join("%s %s" % (col, "VARCHAR NOT NULL" if col == "id" else "VARCHAR") for col in cols)
        con.execute("CREATE TABLE %s (%s, PRIMARY KEY (id))" % (t, defs))
    for i in range(c["nfits"]):
        con.execute("INSERT INTO fit (id) VALUES (?)", ("pre%d" % i,))
    rev = c["rev"]
    if rev != "notable":
        con.execute("CREATE TABLE revision (revision_id VARCHAR PRIMARY KEY)")
        if rev == "null":
            con.execute("INSERT INTO revision (revision_id) VALUES (null)")
        elif rev.startswith("stamp:"):
            j = int(rev.split(":")[1])
            con.execute("INSERT INTO revision (revision_id) VALUES (?)", (D.revision_id(c["steps"][:j]),))
        elif rev.startswith("unknown:"):
            con.execute("INSERT INTO revision (revision_id) VALUES (?)", (rev.split(":", 1)[1],))
        elif rev != "empty":
            raise RuntimeError("bad rev " + rev)
    con.commit()
    con.close()


def run_toy(c, idx):
    from autofit.database.migration import Step, Migrator
    path = os.path.join(SCRATCH, "toy_%d.sqlite" % idx)
    if os.path.exists(path):
        os.remove(path)
    build_toy(path, c)
    toy = Migrator(*[Step(*strs) for strs in c["steps"]])
    index = {}
    for i, step in enumerate(c["steps"]):
        for j, s in enumerate(step):
            index.setdefault(s, (i, j))
    saved = dict(STMT_INDEX)
    STMT_INDEX.clear()
    STMT_INDEX.update(index)
    out = {"initial": observe_file(path), "sessions": []}
    try:
        for s in c["sessions"]:
            del TRACE[:]
            engine = sa.create_engine("sqlite:///" + path)
            session = sa.orm.sessionmaker(bind=engine)()
            toy.migrate(session)
            rec = {"trace": classify_trace(), "after_open": observe_session(session)}
            for op in s["ops"]:
                if op == "commit":
                    session.commit()
                elif op == "rollback":
                    session.rollback()
                else:
                    _counter[0] += 1
                    session.execute(text("INSERT INTO fit (id) VALUES (:i)"), {"i": "w%d" % _counter[0]})
            rec["before_close"] = observe_session(session)
            end_session(session)
            rec["after_close"] = observe_file(path)
            out["sessions"].append(rec)
    finally:
        STMT_INDEX.clear()
        STMT_INDEX.update(saved)
        os.remove(path)
    return out


def run_get_steps(c):
    from autofit.database.migration import Step, Migrator
    m = migrator if c.get("steps") is None else Migrator(*[Step(*strs) for strs in c["steps"]])
    return {"ids": [s.id for s in m.get_steps(c["rid"])]}


def run_case(c, idx):
    kind = c.get("kind", "history")
    if kind == "toy":
        return run_toy(c, idx)
    if kind == "get_steps":
        return run_get_steps(c)
    if kind == "ids":
        return {"step_ids": [s.id for s in migrator._steps], "revision_ids": [r.id for r in migrator.revisions],
                "latest": migrator.latest_revision.id}
    uses_url = any(s_["via"] == "url" for s_ in c["sessions"])
    path = os.path.join(SCRATCH, "case_%d.%s" % (idx, "db" if uses_url else "sqlite"))
    name = path
    if c.get("relpath") and not uses_url:
        # a name relative to the configured output path (open_database prefixes conf.instance.output_path)
        name = "c19_rel_%d/nested/case.sqlite" % idx
        path = os.path.join(str(conf.instance.output_path), name)
        if c["start"] != "fresh":
            os.makedirs(os.path.dirname(path), exist_ok=True)
    if os.path.exists(path):
        os.remove(path)
    if c["start"] == "emptyfile":
        open(path, "wb").close()          # an existing zero-byte file: a valid, empty SQLite database
    elif c["start"] != "fresh":
        build_file(path, c["base"], c["k"], c["rev"], c["nfits"])
    out = {"initial": observe_file(path), "sessions": []}
    for s in c["sessions"]:
        del TRACE[:]
        session = open_via(s["via"], name)
        rec = {"trace": classify_trace(), "after_open": observe_session(session), "ops": []}
        for op in s["ops"]:
            if op == "commit":
                session.commit()
            elif op == "rollback":
                session.rollback()
            elif op == "write":
                _counter[0] += 1
                session.execute(text("INSERT INTO fit (id) VALUES (:i)"), {"i": "w%d" % _counter[0]})
            else:
                raise RuntimeError("bad op " + op)
        rec["before_close"] = observe_session(session)
        end_session(session)
        rec["after_close"] = observe_file(path)
        out["sessions"].append(rec)
    last_via = "url" if uses_url else "aggregator"
    if c["nfits"] and c["start"] == "file" and not c.get("features", True):
        # existing fits must stay readable after every history (one more open, after the modelled sessions)
        out["old_fits"] = read_old_fits(name, last_via)
    if uses_url and c.get("features", True):
        out["old_fits"] = read_old_fits(name, last_via)
    elif c.get("features", True):
        # pre-existing rows written through raw INSERTs (ids w*) are not ORM fits with models; they stay readable as rows
        out["features"] = exercise_features(name, c["nfits"])
        out["final"] = observe_file(path)
    os.remove(path)
    return out


def meta():
    art = None
    if os.path.exists(ARTIFACT):
        art = observe_file(ARTIFACT)
    return {
        "orm": orm_schema(),
        "steps": RUNTIME_STEPS,
        "step_ids": [s.id for s in migrator._steps],
        "revision_ids": [r.id for r in migrator.revisions],
        "latest": migrator.latest_revision.id,
        "artifact": art,
        "pinned_ok": {"steps_prefix": RUNTIME_STEPS[:len(PIN["steps"])] == PIN["steps"]},
    }


def main():
    global PARSED
    payload = json.load(open(sys.argv[1]))
    # the working directory must differ from the configured output path, otherwise a relative database
    # name resolves to the same file with or without open_database's prefixing
    cwd = os.path.join(SCRATCH, "cwd_elsewhere")
    os.makedirs(cwd, exist_ok=True)
    os.chdir(cwd)
    res = {}
    try:
        PARSED = [[D.parse_stmt(s) for s in step] for step in RUNTIME_STEPS]
        for i, step in enumerate(RUNTIME_STEPS):
            for j, s in enumerate(step):
                STMT_INDEX.setdefault(s, (i, j))
    except D.DDLError as e:
        res["parse_error"] = str(e)
    if payload.get("mode") == "meta":
        res["meta"] = meta()
    else:
        res["meta"] = meta()
        # differential references, read through the same ORM from databases written by create_all (decouples the
        # oracle from unrelated code: Samples.minimise, astropy, ...)
        res["expected_old"] = {"0": []}
        for n_ in sorted(set(c.get("nfits", 0) for c in payload["cases"] if c.get("kind", "history") == "history") - {0}):
            res["expected_old"][str(n_)] = read_old_fits(full_db(n_))
        if any(c.get("kind", "history") == "history" and c.get("features", True) for c in payload["cases"]):
            fp = os.path.join(SCRATCH, "baseline.sqlite")
            s0 = db.open_database(fp)
            end_session(s0)
            base = exercise_features(fp, 0)
            res["features_baseline"] = {"write": base["write"], "read": base["read"]}
            os.remove(fp)
        results = []
        for idx, c in enumerate(payload["cases"]):
            try:
                results.append({"ok": run_case(c, idx)})
            except Exception as e:
                results.append({"exc": type(e).__name__, "msg": str(e)[:500], "tb": traceback.format_exc()[-1500:]})
        res["results"] = results
    with open(sys.argv[2], "w") as f:
        json.dump(res, f)


if __name__ == "__main__":
    main()
