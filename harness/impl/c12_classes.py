"""Model classes of the C12 check whose attribute names collide between parent and child (a, s), a subclass that
inherits its prior configuration, and non-float constants held by collections. Config: harness/config/priors/c12_classes.yaml."""


class K2:
    def __init__(self, a=0.0, s=1.0):
        self.a = a
        self.s = s


class K2S(K2):
    """No configuration of its own: found through its parent K2."""


class KN:
    def __init__(self, inner: K2, s=1.0, a=0.5):
        self.inner = inner
        self.s = s
        self.a = a


class Marker:
    """An arbitrary non-numeric object held as a fixed value."""

    def __init__(self, tag):
        self.tag = tag

    def __eq__(self, other):
        return isinstance(other, Marker) and other.tag == self.tag

    def __hash__(self):
        return hash(self.tag)


CLASSES = {c.__name__: c for c in (K2, K2S, KN)}
SIGNATURES = {
    "K2": [("a", "float", None), ("s", "float", None)],
    "K2S": [("a", "float", None), ("s", "float", None)],
    "KN": [("inner", "class", "K2"), ("s", "float", None), ("a", "float", None)],
}
INHERITS = {"K2S": "K2"}
