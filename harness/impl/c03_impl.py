"""C03 implementation driver: models with assertions; verdicts of instance construction."""
import json
import sys
import logging

from vimpl_common import setup, hexf, unhex, exc_name

af, conf = setup()
logging.disable(logging.CRITICAL)
import vbuild
from autofit import exc


def operand(e, pool):
    return vbuild.build_expr(af, e, pool)


def compare(op, x, y):
    if op == "<":
        return x < y
    if op == "<=":
        return x <= y
    if op == ">":
        return x > y
    if op == ">=":
        return x >= y
    raise ValueError(op)


def build_assertion(a, pool):
    k = a["k"]
    if k == "lit":
        return bool(a["v"])
    if k == "cmp":
        return compare(a["op"], operand(a["l"], pool), operand(a["r"], pool))
    if k == "chain":
        first = build_assertion(a["first"], pool)
        return compare(a["op"], first, operand(a["other"], pool))
    raise ValueError(k)


def abstract_assertion(a, idmap):
    from autofit.mapper.prior.arithmetic.assertion import (
        GreaterThanLessThanAssertion, GreaterThanLessThanEqualAssertion, CompoundAssertion)
    if isinstance(a, bool):
        return {"k": "lit", "v": a}
    if isinstance(a, CompoundAssertion):
        return {"k": "and", "a": abstract_assertion(a.assertion_1, idmap), "b": abstract_assertion(a.assertion_2, idmap)}
    if isinstance(a, GreaterThanLessThanEqualAssertion):
        return {"k": "le", "l": vbuild.abstract_model(af, a._left, idmap), "g": vbuild.abstract_model(af, a._right, idmap)}
    if isinstance(a, GreaterThanLessThanAssertion):
        return {"k": "lt", "l": vbuild.abstract_model(af, a._left, idmap), "g": vbuild.abstract_model(af, a._right, idmap)}
    return {"k": "other", "repr": type(a).__name__}


def collect_assertions(obj, idmap, out):
    from autofit.mapper.prior_model.prior_model import Model
    from autofit.mapper.prior_model.collection import Collection
    if isinstance(obj, (Model, Collection)):
        for a in obj._assertions:
            out.append(abstract_assertion(a, idmap))
        for k, v in obj.__dict__.items():
            if not k.startswith("_") and k not in ("id", "cls"):
                collect_assertions(v, idmap, out)


def verdict(f):
    try:
        return {"ok": vbuild.abstract_instance(af, f())}
    except exc.PriorLimitException:
        return {"v": "limit"}
    except exc.FitException:
        return {"v": "assert"}
    except AssertionError:
        return {"v": "length"}
    except BaseException as e:  # noqa
        return {"v": "other", "exc": type(e).__name__, "msg": str(e)[:200]}


def run_case(c):
    prog = c["program"]
    model, pool = vbuild.build(af, prog)
    idmap = {p.id: i for i, p in enumerate(pool)}
    for a in c["asserts"]:
        level = model
        for k in a["level"]:
            level = getattr(level, k)
        level.add_assertion(build_assertion(a["a"], pool))
    out = {"tree": vbuild.abstract_model(af, model, idmap)}
    found = []
    collect_assertions(model, idmap, found)
    out["asserts"] = found
    out["limits"] = [[hexf(p.lower_limit), hexf(p.upper_limit)] for p in pool]
    out["count"] = model.prior_count
    out["upaths"] = [list(map(str, p)) for p in model.unique_prior_paths]
    out["ids"] = [idmap.get(p.id, -1) for p in model.priors_ordered_by_id]
    out["runs"] = []
    for v in c["vectors"]:
        vec = [unhex(x) for x in v]
        r = {"strict": verdict(lambda: model.instance_from_vector(vec)),
             "ignored": verdict(lambda: model.instance_from_vector(vec, ignore_prior_limits=True))}
        out["runs"].append(r)
    out["unit_runs"] = []
    for u in c["units"]:
        unit = [unhex(x) for x in u]
        r = {"strict": verdict(lambda: model.instance_from_unit_vector(unit)),
             "ignored": verdict(lambda: model.instance_from_unit_vector(unit, ignore_prior_limits=True))}
        try:
            r["vec"] = [hexf(x) for x in model.vector_from_unit_vector(unit, ignore_prior_limits=True)]
        except BaseException as e:  # noqa
            r["vec"] = None
        out["unit_runs"].append(r)
    import random as _r
    import numpy as np
    out["random"] = []
    for s in range(c.get("n_random", 0)):
        _r.seed(s)
        np.random.seed(s)
        out["random"].append(verdict(lambda: model.random_instance()))
    return out


def main():
    cases = json.load(open(sys.argv[1]))["cases"]
    out = []
    for c in cases:
        try:
            out.append({"ok": run_case(c)})
        except BaseException as e:  # noqa
            import traceback
            out.append({"exc": exc_name(e), "msg": traceback.format_exc()[-600:]})
    json.dump({"results": out}, open(sys.argv[2], "w"))


main()
