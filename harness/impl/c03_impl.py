"""C03 implementation driver: models with assertions; verdicts of instance construction.

For every case: build the composition program (vbuild), attach the assertions at their levels (Model,
Collection or CompoundPrior objects), optionally wrap / copy the model afterwards, then report
  * the abstract tree of the live model and the `_assertions` of every level WITH ITS PATH (raw __dict__ walk),
  * for every add_assertion: the live operand objects, the comparison written and the object the
    operators returned (or the exception they raised),
  * verdicts of instance_from_vector (strict / ignore_prior_limits), instance_from_path_arguments,
    instance_from_unit_vector, random_instance; each verdict says whether the exception was a FitException."""
import json
import sys
import logging

from vimpl_common import setup, hexf, unhex, exc_name

af, conf = setup()
logging.disable(logging.CRITICAL)
import vbuild
from autofit import exc
from autofit.mapper.prior.abstract import Prior
from autofit.mapper.prior.arithmetic.compound import CompoundPrior, ModifiedPrior, NegativePrior, AbsolutePrior
from autofit.mapper.prior.arithmetic.assertion import (
    GreaterThanLessThanAssertion, GreaterThanLessThanEqualAssertion, CompoundAssertion, ComparisonAssertion)
from autofit.mapper.prior_model.prior_model import Model
from autofit.mapper.prior_model.collection import Collection


def build_operand(e, pool, foreign):
    """Operand of a comparison. Beyond vbuild.build_expr: foreign priors (not part of the model), subtraction,
    unary minus / abs, constant-on-the-left forms (all through the real operators)."""
    t = e["t"]
    if t == "foreign":
        return foreign[e["i"]]
    if t == "unary":
        x = build_operand(e["a"], pool, foreign)
        return -x if e["op"] == "neg" else abs(x)
    if t == "arith":
        x = build_operand(e["l"], pool, foreign)
        y = build_operand(e["r"], pool, foreign)
        return vbuild.arith(e["op"], x, y)
    return vbuild.build_expr(af, e, pool)


def abstract_operand(obj, idmap):
    if isinstance(obj, NegativePrior):
        return {"t": "unary", "op": "neg", "name": obj._prior_name, "a": abstract_operand(obj.prior, idmap)}
    if isinstance(obj, AbsolutePrior):
        return {"t": "unary", "op": "abs", "name": obj._prior_name, "a": abstract_operand(obj.prior, idmap)}
    if isinstance(obj, ComparisonAssertion) or isinstance(obj, CompoundAssertion):
        return {"t": "assertion", "a": abstract_assertion(obj, idmap)}
    if isinstance(obj, CompoundPrior):
        op = {"SumPrior": "+", "MultiplePrior": "*", "DivisionPrior": "/", "ModPrior": "%", "FloorDivPrior": "//"}.get(
            type(obj).__name__, type(obj).__name__)
        return {"t": "arith", "op": op, "ln": obj._left_name, "rn": obj._right_name,
                "l": abstract_operand(obj._left, idmap), "r": abstract_operand(obj._right, idmap)}
    return vbuild.abstract_model(af, obj, idmap)


def compare(op, x, y):
    if op == "<":
        return x < y
    if op == "<=":
        return x <= y
    if op == ">":
        return x > y
    if op == ">=":
        return x >= y
    raise ValueError(op)


class NotBuilt(Exception):
    """The comparison operators raised TypeError; carries the recipe (what was written, on which live operands)."""
    def __init__(self, recipe, msg):
        Exception.__init__(self, msg)
        self.recipe = recipe


def build_assertion(a, pool, foreign, idmap):
    """Returns (object, recipe) -- the recipe holds the abstractions of the LIVE operand objects."""
    k = a["k"]
    if k == "lit":
        return bool(a["v"]), {"k": "lit", "v": bool(a["v"])}
    if k == "cmp" and a.get("vars"):
        # the operands are held in caller variables with the given names when the comparison is written (the library
        # derives attribute names from caller variable names); no outer frame holds the operand objects
        ns = {"mk_l": lambda: build_operand(a["l"], pool, foreign), "mk_r": lambda: build_operand(a["r"], pool, foreign),
              "abstract_": lambda o: abstract_operand(o, idmap)}
        ln, rn = a["vars"]
        rec = {"k": "cmp", "op": a["op"], "vars": [ln, rn]}
        code = "%s = mk_l()\n%s = mk_r()\nrec_l_ = abstract_(%s)\nrec_r_ = abstract_(%s)\nres_ = %s %s %s\n" % (
            ln, rn, ln, rn, ln, a["op"], rn)
        try:
            exec(code, ns)
        except TypeError as e:
            rec.update({"l": ns.get("rec_l_"), "r": ns.get("rec_r_")})
            raise NotBuilt(rec, str(e))
        rec.update({"l": ns["rec_l_"], "r": ns["rec_r_"]})
        return ns["res_"], rec
    if k == "cmp":
        x, y = build_operand(a["l"], pool, foreign), build_operand(a["r"], pool, foreign)
        rec = {"k": "cmp", "op": a["op"], "l": abstract_operand(x, idmap), "r": abstract_operand(y, idmap)}
        try:
            return compare(a["op"], x, y), rec
        except TypeError as e:
            raise NotBuilt(rec, str(e))
    if k == "chain":
        first, frec = build_assertion(a["first"], pool, foreign, idmap)
        o = build_operand(a["other"], pool, foreign)
        rec = {"k": "chain", "first": frec, "op": a["op"], "other": abstract_operand(o, idmap)}
        try:
            return compare(a["op"], first, o), rec
        except TypeError as e:
            raise NotBuilt(rec, str(e))
    if k == "native":
        # Python's own chained comparison  x < y < z  ==  (x < y) and (y < z)
        x, y, z = (build_operand(a[s], pool, foreign) for s in ("x", "y", "z"))
        rec = {"k": "native", "op": a["op"], "x": abstract_operand(x, idmap), "y": abstract_operand(y, idmap),
               "z": abstract_operand(z, idmap)}
        if a["op"] == "<":
            return (x < y < z), rec
        return (x <= y <= z), rec
    raise ValueError(k)


def abstract_assertion(a, idmap):
    if isinstance(a, bool):
        return {"k": "lit", "v": a}
    if isinstance(a, CompoundAssertion):
        return {"k": "and", "a": abstract_assertion(a.assertion_1, idmap), "b": abstract_assertion(a.assertion_2, idmap)}
    if isinstance(a, (GreaterThanLessThanEqualAssertion, GreaterThanLessThanAssertion)):
        strict = not isinstance(a, GreaterThanLessThanEqualAssertion)
        if isinstance(a._left, CompoundAssertion):
            return {"k": "lowb", "strict": strict, "a": abstract_assertion(a._left, idmap), "g": abstract_operand(a._right, idmap)}
        if isinstance(a._right, CompoundAssertion):
            return {"k": "grb", "strict": strict, "l": abstract_operand(a._left, idmap), "a": abstract_assertion(a._right, idmap)}
        return {"k": "lt" if strict else "le", "l": abstract_operand(a._left, idmap), "g": abstract_operand(a._right, idmap)}
    return {"k": "other", "repr": type(a).__name__}


def collect_levels(obj, idmap, path, out):
    """`_assertions` of every level (Model, Collection, CompoundPrior, ModifiedPrior) with its path; raw __dict__ walk."""
    if isinstance(obj, (Model, Collection, CompoundPrior, ModifiedPrior)):
        if obj._assertions:
            out.append({"path": list(path), "asserts": [abstract_assertion(a, idmap) for a in obj._assertions]})
        for k, v in obj.__dict__.items():
            if not k.startswith("_") and k not in ("id", "cls", "item_number"):
                collect_levels(v, idmap, path + [str(k)], out)


def verdict(f):
    try:
        return {"ok": vbuild.abstract_instance(af, f())}
    except exc.PriorLimitException as e:
        return {"v": "limit", "fit": isinstance(e, exc.FitException), "exc": type(e).__name__}
    except exc.FitException as e:
        return {"v": "assert", "fit": True, "exc": type(e).__name__}
    except AssertionError as e:
        return {"v": "length", "fit": isinstance(e, exc.FitException), "exc": type(e).__name__}
    except BaseException as e:  # noqa
        return {"v": "error", "fit": isinstance(e, exc.FitException), "exc": type(e).__name__, "msg": str(e)[:200]}


def run_case(c):
    prog = c["program"]
    model, pool = vbuild.build(af, prog)
    foreign = [af.UniformPrior(lower_limit=0.0, upper_limit=1.0) for _ in range(c.get("n_foreign", 0))]
    idmap = {p.id: i for i, p in enumerate(pool)}
    for j in range(len(foreign)):
        idmap[foreign[j].id] = len(pool) + j
    attaches = []
    for a in c["asserts"]:
        level = model
        for k in a["level"]:
            level = getattr(level, k)
        rec = {"level": list(a["level"])}
        try:
            obj, recipe = build_assertion(a["a"], pool, foreign, idmap)
        except NotBuilt as e:
            rec.update({"recipe": e.recipe, "built": None, "exc": "TypeError", "msg": str(e)[:200]})
            attaches.append(rec)
            continue
        rec["recipe"] = recipe
        rec["built"] = abstract_assertion(obj, idmap)
        lo, hi = getattr(obj, "_left", None), getattr(obj, "_right", None)
        rec["ends"] = None if (isinstance(obj, bool) or lo is None or hi is None) else \
            [abstract_operand(lo, idmap), abstract_operand(hi, idmap)]
        level.add_assertion(obj)
        attaches.append(rec)
    wrap = c.get("wrap")
    if wrap == "list":
        model = af.Collection([model])
    elif wrap == "dict":
        model = af.Collection(w=model)
    elif wrap == "copy":
        model = type(model).copy(model)      # (a collection item may be called "copy")
    out = {"tree": vbuild.abstract_model(af, model, idmap), "attaches": attaches}
    levels = []
    collect_levels(model, idmap, [], levels)
    out["levels"] = levels
    by_id = {p.id: p for p in model.priors_ordered_by_id}
    out["limits"] = [[hexf(by_id[p.id].lower_limit), hexf(by_id[p.id].upper_limit)] if p.id in by_id else None for p in pool]
    out["count"] = model.prior_count
    out["upaths"] = [list(map(str, p)) for p in model.unique_prior_paths]
    out["ids"] = [idmap.get(p.id, -1) for p in model.priors_ordered_by_id]
    out["runs"] = []
    for v in c["vectors"]:
        vec = [unhex(x) for x in v]
        r = {"strict": verdict(lambda: model.instance_from_vector(vec)),
             "ignored": verdict(lambda: model.instance_from_vector(vec, ignore_prior_limits=True))}
        if len(vec) == model.prior_count:
            pa = {tuple(p): x for p, x in zip(model.unique_prior_paths, vec)}
            r["paths"] = verdict(lambda: model.instance_from_path_arguments(pa))
            r["paths_ignored"] = verdict(lambda: model.instance_from_path_arguments(pa, ignore_assertions=True))
        if c.get("numpy"):
            import numpy as np
            r["numpy"] = verdict(lambda: model.instance_from_vector(np.array(vec)))
        out["runs"].append(r)
    out["unit_runs"] = []
    for u in c["units"]:
        unit = [unhex(x) for x in u]
        r = {"strict": verdict(lambda: model.instance_from_unit_vector(unit)),
             "ignored": verdict(lambda: model.instance_from_unit_vector(unit, ignore_prior_limits=True))}
        try:
            r["vec"] = [hexf(x) for x in model.vector_from_unit_vector(unit, ignore_prior_limits=True)]
        except BaseException as e:  # noqa
            r["vec"] = None
        # the values the strict route itself uses (value_for may round differently when limits are not ignored)
        sv = verdict(lambda: tuple(float(x) for x in model.vector_from_unit_vector(unit)))
        r["vec_strict"] = [hexf(unhex(x["v"])) for x in sv["ok"]["vs"]] if "ok" in sv and sv["ok"].get("t") == "tup" else None
        r["vec_strict_verdict"] = None if "ok" in sv else sv
        out["unit_runs"].append(r)
    import random as _r
    import numpy as np
    out["random"] = []
    for s in range(c.get("n_random", 0)):
        _r.seed(s)
        np.random.seed(s)
        out["random"].append(verdict(lambda: model.random_instance()))
    return out


def main():
    cases = json.load(open(sys.argv[1]))["cases"]
    out = []
    for c in cases:
        try:
            out.append({"ok": run_case(c)})
        except BaseException as e:  # noqa
            import traceback
            out.append({"exc": exc_name(e), "msg": traceback.format_exc()[-600:]})
    json.dump({"results": out}, open(sys.argv[2], "w"))


main()
