"""C12 implementation driver: prior passing on composed models.

For every case: build the model from the composition program, apply one passing mode through the
real API (mapper_from_prior_means / mapper_from_uniform_floats / with_limits / replacing /
copy_with_fixed_priors, and the same through af.Result / SamplesSummary), and report the abstraction
of the new model, its priors in id order, its paths, instances at a probe vector, or the exception."""
import json
import sys
import logging

from vimpl_common import setup, hexf, unhex, exc_name

af, conf = setup()
logging.disable(logging.CRITICAL)
import vbuild
import vclasses
import c12_classes
vclasses.CLASSES.update(c12_classes.CLASSES)          # this process only: the interpreter of programs knows the C12 classes
vclasses.SIGNATURES.update(c12_classes.SIGNATURES)
from autofit.mapper.prior.abstract import Prior


def spec_of(p):
    name = type(p).__name__
    d = {"lo": hexf(p.lower_limit), "hi": hexf(p.upper_limit)}
    if name == "UniformPrior":
        d["family"] = "uniform"
    elif name == "GaussianPrior":
        d["family"] = "gaussian"
        d["mean"] = hexf(p.mean)
        d["sigma"] = hexf(p.sigma)
    elif name == "LogUniformPrior":
        d["family"] = "loguniform"
    elif name == "LogGaussianPrior":
        d["family"] = "loggaussian"
    else:
        d["family"] = name
    # where the prior maps the unit interval (its message), not only the limit attributes
    vf = []
    for u in (0.1, 0.5, 0.9):
        try:
            vf.append(hexf(p.value_for(u)))
        except BaseException as e:  # noqa
            vf.append(type(e).__name__)
    d["vf"] = vf
    try:
        d["median"] = hexf(p.value_for(0.5, ignore_prior_limits=True))
    except BaseException as e:  # noqa
        d["median"] = type(e).__name__
    wm = getattr(p, "width_modifier", None)
    d["wm"] = None if wm is None else {"type": wm.name_of_class(), "value": hexf(wm.value)}
    return d


def make_wm(d):
    cls = {"Absolute": af.AbsoluteWidthModifier, "Relative": af.RelativeWidthModifier}[d["type"]]
    return cls(unhex(d["value"]))


def make_prior(s):
    if s["family"] == "loggaussian":
        return af.LogGaussianPrior(mean=unhex(s["mean"]), sigma=unhex(s["sigma"]),
                                   lower_limit=unhex(s["lo"]), upper_limit=unhex(s["hi"]))
    return vbuild.make_prior(af, s)


def extra_value(kind):
    return {"int": 3, "str": "txt", "none": None, "obj": c12_classes.Marker(7), "bool": True}[kind]


def follow(obj, path):
    for k in path:
        obj = getattr(obj, k)
    return obj


def same_extra(a, b):
    return type(a) is type(b) and a == b


def make_new_prior(s):
    p = make_prior(s)
    if s.get("wm"):
        p.width_modifier = make_wm(s["wm"])
    return p


def exc_kind(e):
    import autofit.exc as exc
    if isinstance(e, exc.MessageException):
        return "MessageException"
    if isinstance(e, exc.PriorException):
        return "PriorException"
    if isinstance(e, IndexError):
        return "IndexError"
    if isinstance(e, TypeError):
        return "TypeError"
    if isinstance(e, KeyError):
        return "KeyError"
    return type(e).__name__


def abstract_any(obj, idmap):
    """vbuild.abstract_model, plus realised tuples of floats (copy_with_fixed_priors)."""
    t = vbuild.abstract_model(af, obj, idmap)
    return t


def abstract_fixed(obj, idmap, key=None):
    from autofit.mapper.prior_model.prior_model import Model
    from autofit.mapper.prior_model.collection import Collection
    if isinstance(obj, tuple) and all(isinstance(x, float) for x in obj):
        return {"t": "tuple", "members": [["%s_%d" % (key, i), {"t": "const", "v": hexf(x)}] for i, x in enumerate(obj)]}
    if isinstance(obj, Model):
        attrs = []
        for k, v in obj.__dict__.items():
            if k.startswith("_") or k in ("id", "cls"):
                continue
            attrs.append([k, abstract_fixed(v, idmap, k)])
        return {"t": "model", "cls": obj.cls.__name__, "attrs": attrs}
    if isinstance(obj, Collection):
        attrs = []
        for k, v in obj.__dict__.items():
            if k.startswith("_") or k in ("id", "item_number"):
                continue
            attrs.append([k, abstract_fixed(v, idmap, k)])
        return {"t": "coll", "attrs": attrs}
    return vbuild.abstract_model(af, obj, idmap)


def guarded(f):
    try:
        return {"ok": f()}
    except BaseException as e:  # noqa
        return {"exc": exc_kind(e), "msg": str(e)[:160]}


def item_numbers(obj, out, path=()):
    from autofit.mapper.prior_model.collection import Collection
    from autofit.mapper.prior_model.abstract import AbstractPriorModel
    if isinstance(obj, Collection):
        out.append([list(path), obj.item_number])
    if isinstance(obj, AbstractPriorModel):
        for k, v in obj.__dict__.items():
            if not k.startswith("_") and k not in ("id", "cls"):
                item_numbers(v, out, path + (k,))


def describe(model, idmap, probe):
    """Observables of a (new) model."""
    out = {"tree": vbuild.abstract_model(af, model, idmap)}
    out["paths"] = [list(map(str, p)) for p in model.paths]
    out["path_priors"] = [[list(map(str, p)), idmap.get(q.id, -1)] for p, q in model.path_priors_tuples]
    out["count"] = model.prior_count
    pri = model.priors_ordered_by_id
    out["ids"] = [idmap.get(p.id, -1) for p in pri]
    out["priors"] = [[idmap.get(p.id, -1), spec_of(p)] for p in pri]
    nums = []
    item_numbers(model, nums)
    out["item_numbers"] = nums
    # every advertised path resolves to the prior it is advertised for
    res = []
    for path, prior in model.path_priors_tuples:
        try:
            res.append(model.object_for_path(path) is prior)
        except BaseException:  # noqa
            res.append(False)
    out["paths_resolve"] = all(res)
    return out


def run_case(c):
    prog = c["program"]
    # priors first (some carry their own width modifier), then the composition: component copies made by the program
    # (Model.copy() deep-copies prior objects, keeping their ids) then carry the modifier as well
    pool = [make_prior(s) for s in prog["pool"]]
    for k, d in (c.get("wms") or {}).items():
        pool[int(k)].width_modifier = make_wm(d)
    model = vbuild.build_expr(af, prog["root"], pool)
    # non-float constants held directly by collections (ints, strings, None, objects, bools)
    extras = c.get("extras") or []
    try:
        for path, key, kind in extras:
            setattr(follow(model, path), key, extra_value(kind))
        extras_set = all(same_extra(getattr(follow(model, path), key, KeyError), extra_value(kind)) for path, key, kind in extras)
    except BaseException:  # noqa
        extras_set = False
    idmap = {p.id: i for i, p in enumerate(pool)}
    npool = len(pool)
    mode = c["mode"]
    out = {"orig": describe(model, idmap, None), "extras_set": extras_set}
    out["orig"]["specs"] = [spec_of(p) for p in pool]
    out["id_order_ok"] = all(pool[i].id < pool[i + 1].id for i in range(npool - 1))
    probe = [unhex(x) for x in c["probe"]]
    out["orig_inst"] = guarded(lambda: vbuild.abstract_instance(af, model.instance_from_vector(probe, ignore_prior_limits=True)))
    k = mode["k"]
    news = []          # priors created for this case (replace mode), in creation order
    if k == "means":
        means = [unhex(x) for x in mode["means"]]
        a = None if mode["a"] is None else unhex(mode["a"])
        r = None if mode["r"] is None else unhex(mode["r"])
        f = lambda: model.mapper_from_prior_means(means, a=a, r=r, no_limits=bool(mode.get("no_limits")))
    elif k == "bounded":
        floats = [unhex(x) for x in mode["floats"]]
        b = unhex(mode["b"])
        f = lambda: model.mapper_from_uniform_floats(floats, b)
    elif k == "limits":
        lims = [(unhex(lo), unhex(hi)) for lo, hi in mode["limits"]]
        f = lambda: model.with_limits(lims)
    elif k == "replace":
        arguments = {}
        for old, new in mode["map"]:
            if "pool" in new:
                arguments[pool[old]] = pool[new["pool"]]
            else:
                p = make_new_prior(new["new"])
                news.append(p)
                arguments[pool[old]] = p
        if mode.get("foreign"):
            stranger = af.UniformPrior(0.0, 1.0)
            arguments[stranger] = af.UniformPrior(0.0, 2.0)
        f = lambda: model.replacing(arguments)
    elif k == "fixed":
        vec = [unhex(x) for x in mode["vec"]]
        instance = model.instance_from_vector(vec, ignore_prior_limits=True)
        f = lambda: model.copy_with_fixed_priors(instance)
    else:
        raise ValueError(k)
    if c.get("frozen"):
        model.freeze()          # searches freeze the model; results are built from that model
    try:
        new_model = f()
    except BaseException as e:  # noqa
        import traceback
        out["out"] = {"exc": exc_kind(e), "msg": traceback.format_exc()[-500:]}
        new_model = None
    if new_model is not None:
        # ids of priors that are not pool priors: created priors first (creation order), then any other by id
        idmap2 = dict(idmap)
        for p in news:
            idmap2.setdefault(p.id, len(idmap2))
        fresh = sorted({p.id for _, p in new_model.path_instance_tuples_for_class(Prior) if p.id not in idmap2})
        for i in fresh:
            idmap2[i] = len(idmap2)
        if k == "fixed":
            d = {"tree": abstract_fixed(new_model, idmap2), "count": new_model.prior_count,
                 "inst": guarded(lambda: vbuild.abstract_instance(af, new_model.instance_from_vector([])))}
            d["best_fit"] = vbuild.abstract_instance(af, instance)
        else:
            d = describe(new_model, idmap2, probe)
            d["n_new"] = len(news)
        out["out"] = {"ok": d}
        ex = []
        try:
            ninst = new_model.instance_from_vector([unhex(x) for x in (c.get("new_probe") or [])] if k != "fixed" else [],
                                                   ignore_prior_limits=True) if (k == "fixed" or c.get("new_probe") is not None) else None
        except BaseException:  # noqa
            ninst = None
        for path, key, kind in extras:
            def present(root):
                try:
                    return same_extra(getattr(follow(root, path), key), extra_value(kind))
                except BaseException:  # noqa
                    return False
            ex.append([path, key, kind, present(new_model), True if ninst is None else present(ninst)])
        out["extras"] = ex
        # the original model is left as it was
        after = describe(model, idmap, None)
        out["orig_unchanged"] = (after["tree"] == out["orig"]["tree"] and after["ids"] == out["orig"]["ids"]
                                 and [spec_of(p) for p in pool] == out["orig"]["specs"])
    # the same through a search result (means / bounded modes): result.model, .model_absolute, .model_relative, .model_bounded
    variant = c.get("via_result")
    if k in ("means", "bounded") and variant:
        values = means if k == "means" else floats
        if len(values) == npool and not (k == "means" and (mode.get("no_limits") or (a is not None and r is not None))):
            def via():
                from autofit.non_linear.samples.sample import Sample
                from autofit.non_linear.samples.summary import SamplesSummary
                # means come from the median PDF sample, model_bounded from the maximum likelihood sample:
                # the other sample carries different numbers so that a mix-up is visible
                other = [v + 0.5 if abs(v) < 1e15 else v / 2.0 for v in values]
                if variant == "names" and all(len(p) == 1 for p in model.paths):
                    # keyed by parameter names, as samples read back from samples.csv are
                    names = [p[0] for p in model.unique_prior_paths]
                    sample = Sample(0.0, 0.0, 1.0, kwargs=dict(zip(names, values)))
                    decoy = Sample(-1.0, 0.0, 1.0, kwargs=dict(zip(names, other)))
                else:
                    sample = Sample.from_lists(model, [values], [0.0], [0.0], [1.0])[0]
                    decoy = Sample.from_lists(model, [other], [-1.0], [0.0], [1.0])[0]
                if variant == "no-median":
                    # a maximum likelihood search has no median PDF sample: everything comes from the best sample
                    summary = SamplesSummary(max_log_likelihood_sample=sample, model=model, median_pdf_sample=None)
                elif k == "bounded":
                    summary = SamplesSummary(max_log_likelihood_sample=sample, model=model, median_pdf_sample=decoy)
                else:
                    summary = SamplesSummary(max_log_likelihood_sample=decoy, model=model, median_pdf_sample=sample)
                result = af.Result(samples_summary=summary)
                if k == "bounded":
                    nm = result.model_bounded(b)
                elif a is not None:
                    nm = result.model_absolute(a)
                elif r is not None:
                    nm = result.model_relative(r)
                else:
                    nm = result.model
                dd = describe(nm, idmap, probe)
                return {"tree": dd["tree"], "priors": dd["priors"], "paths": dd["paths"]}
            out["via_result"] = guarded(via)
    if new_model is not None and k != "fixed":
        nprobe = c.get("new_probe")
        if nprobe is not None and len(nprobe) == new_model.prior_count:
            nv = [unhex(x) for x in nprobe]
            out["new_inst"] = guarded(lambda: vbuild.abstract_instance(af, new_model.instance_from_vector(nv, ignore_prior_limits=True)))
    return out


# ---------------------------------------------------------------------------
# sessions: results / summaries are stateful (caches `_paths`, `_names`, `_instance`, Result.model); child results of
# combined / free-parameter analyses are made by SamplesSummary.subsamples from a summary that may have been read before
# ---------------------------------------------------------------------------
class SessionAnalysis(af.Analysis):
    def log_likelihood_function(self, instance):
        return -1.0


def sub_models(model):
    """Every prior model strictly inside `model` holding at least one prior: [(attribute path, object)], sorted by path."""
    from autofit.mapper.prior_model.abstract import AbstractPriorModel
    out = []

    def rec(obj, path):
        for k, v in obj.__dict__.items():
            if k.startswith("_") or k in ("id", "cls"):
                continue
            if isinstance(v, AbstractPriorModel):
                if v.prior_count > 0:
                    out.append((path + (k,), v))
                rec(v, path + (k,))
    rec(model, ())
    out.sort(key=lambda t: t[0])
    return out


def build_joint(c, model, pool):
    """The joint model of a session and (when the library offers one) the combined analysis that makes child results."""
    shape = c["shape"]
    analysis = None
    if shape == "free":
        free = [pool[i] for i in c["free"]]
        total = SessionAnalysis()
        for _ in range(c["n_children"] - 1):
            total = total + SessionAnalysis()
        analysis = total.with_free_parameters(*free)
        joint = analysis.modify_model(model)
    elif shape == "renamed":
        joint = af.Collection(m=model)
        for key, i in c["rename"]:
            setattr(joint, key, pool[i])
    elif shape == "items":
        from autofit.mapper.prior_model.abstract import AbstractPriorModel
        from autofit.mapper.prior_model.collection import Collection
        from autofit.non_linear.analysis.indexed import IndexCollectionAnalysis
        joint = model
        if isinstance(model, Collection) and len(model) > 0 and all(isinstance(v, AbstractPriorModel) and v.prior_count > 0 for v in model):
            analysis = IndexCollectionAnalysis(*[SessionAnalysis() for _ in model])
    else:
        raise ValueError(shape)
    return joint, analysis


def session_read(result, op, c, others):
    """One read of a result / its summary. Returns a JSON observable (vectors as hex lists, otherwise a marker)."""
    summary = result.samples_summary
    if op == "maxl_vec":
        return {"vec": [hexf(v) for v in summary.max_log_likelihood(as_instance=False)]}
    if op == "median_vec":
        return {"vec": [hexf(v) for v in summary.median_pdf(as_instance=False)]}
    if op == "prior_means":
        return {"means": [hexf(v) for v in summary.prior_means]}
    if op == "maxl_inst":
        summary.max_log_likelihood()
        return {}
    if op == "instance":
        result.instance
        summary.instance
        return {}
    if op == "max_log_likelihood_instance":
        result.max_log_likelihood_instance
        return {}
    if op == "paths":
        return {"n": len(summary.paths)}
    if op == "names":
        return {"n": len(summary.names)}
    if op == "model":
        return {"count": result.model.prior_count}
    if op == "model_absolute":
        return {"count": result.model_absolute(0.5).prior_count}
    if op == "model_relative":
        return {"count": result.model_relative(0.25).prior_count}
    if op == "model_bounded":
        return {"count": result.model_bounded(0.75).prior_count}
    if op == "subsamples_other":
        if others:
            o = summary.subsamples(others[0])
            jm = {p.id: i for i, p in enumerate(summary.model.priors_ordered_by_id)}
            return {"other_means": [hexf(v) for v in o.prior_means],
                    "other_to_joint": [jm.get(p.id, -1) for p in others[0].priors_ordered_by_id]}
        return {}
    raise ValueError(op)


def run_session(c):
    from autofit.non_linear.samples.sample import Sample
    from autofit.non_linear.samples.summary import SamplesSummary
    prog = c["program"]
    pool = [make_prior(s) for s in prog["pool"]]
    model = vbuild.build_expr(af, prog["root"], pool)
    joint, analysis = build_joint(c, model, pool)
    jpriors = joint.priors_ordered_by_id
    nj = len(jpriors)
    jmap = {p.id: i for i, p in enumerate(jpriors)}
    maxl = [unhex(x) for x in c["maxl"]][:nj]
    med = [unhex(x) for x in c["median"]][:nj]
    out = {"n_joint": nj, "enough_values": len(maxl) == nj and len(med) == nj}
    if not out["enough_values"] or nj == 0:
        return out
    s_max = Sample.from_lists(joint, [maxl], [1.0], [0.0], [1.0])[0]
    s_med = None if c.get("no_median") else Sample.from_lists(joint, [med], [0.5], [0.0], [1.0])[0]
    summary = SamplesSummary(max_log_likelihood_sample=s_max, median_pdf_sample=s_med, model=joint)
    parent = af.Result(samples_summary=summary, paths=None)
    cands = sub_models(joint)
    out["n_candidates"] = len(cands)
    if not cands:
        return out
    # the chain of children: each step picks a prior model inside the current one
    chain = []
    cur = joint
    for pick in c["chain"]:
        cc = sub_models(cur)
        if not chain and c.get("top"):
            cc = [x for x in cc if len(x[0]) == 1] or cc
        if not cc:
            break
        path, cur = cc[pick % len(cc)]
        chain.append((path, cur))
    out["chain"] = [list(p) for p, _ in chain]
    child_model = chain[-1][1]
    sib = [m for p, m in cands if m is not chain[0][1]]
    state = {"child": None, "route": None}

    def make_child():
        first_path, first = chain[0]
        res = None
        if c["route"] == "make_result" and analysis is not None and len(first_path) == 1:
            combined = analysis.make_result(samples_summary=summary, paths=None)
            kids = list(combined.child_results)
            idx = [i for i, m in enumerate(joint) if m is first]
            if len(idx) == 1 and len(kids) == len(joint):
                res = kids[idx[0]]          # whether it really is the result for `first` is reported (child_is_model)
                state["route"] = "make_result"
        if res is None:
            res = af.Result(samples_summary=summary.subsamples(first), paths=None)
            state["route"] = "subsamples"
        for step in c.get("chain_reads") or []:          # reads on the intermediate result before going deeper
            if len(chain) > 1:
                session_read(res, step, c, [])
        for _, deeper in chain[1:]:
            res = af.Result(samples_summary=res.samples_summary.subsamples(deeper), paths=None)
        state["child"] = res

    log = []
    for target, op in c["steps"]:
        if target == "mk":
            log.append(["mk", op, guarded(make_child)])
        elif target == "P":
            log.append(["P", op, guarded(lambda: session_read(parent, op, c, sib))])
        elif target == "C" and state["child"] is not None:
            log.append(["C", op, guarded(lambda: session_read(state["child"], op, c, []))])
    if state["child"] is None:
        log.append(["mk", "late", guarded(make_child)])
    out["log"] = log
    out["route"] = state["route"]
    child = state["child"]
    if child is None:
        return out
    cpri = child_model.priors_ordered_by_id
    cmap = {p.id: i for i, p in enumerate(cpri)}
    out["to_joint"] = [jmap.get(p.id, -1) for p in cpri]
    corig = describe(child_model, cmap, None)
    corig["specs"] = [spec_of(p) for p in cpri]
    out["orig"] = corig
    out["child_is_model"] = child.samples_summary.model is child_model
    # the values the joint fit inferred for the child's parameters, by parameter identity
    if all(j >= 0 for j in out["to_joint"]):
        want_max = [maxl[j] for j in out["to_joint"]]
        want_med = want_max if c.get("no_median") else [med[j] for j in out["to_joint"]]
    else:
        want_max = want_med = None
    mode = c["mode"]
    k = mode["k"]
    a = None if mode.get("a") is None else unhex(mode["a"])
    r = None if mode.get("r") is None else unhex(mode["r"])
    b = None if mode.get("b") is None else unhex(mode["b"])

    def passing():
        if k == "bounded":
            return child.model_bounded(b)
        if a is not None:
            return child.model_absolute(a)
        if r is not None:
            return child.model_relative(r)
        return child.model
    try:
        nm = passing()
        out["out"] = {"ok": describe(nm, cmap, None)}
        out["orig_unchanged"] = describe(child_model, cmap, None)["tree"] == corig["tree"]
    except BaseException as e:  # noqa
        import traceback
        out["out"] = {"exc": exc_kind(e), "msg": traceback.format_exc()[-500:]}
    # the same passing call made directly on the child's model with the child's own values (stateless route)
    if want_max is not None:
        def direct():
            if k == "bounded":
                dm = child_model.mapper_from_uniform_floats(want_max, b)
            else:
                dm = child_model.mapper_from_prior_means(want_med, a=a, r=r)
            dd = describe(dm, cmap, None)
            return {"tree": dd["tree"], "priors": dd["priors"], "paths": dd["paths"]}
        out["direct"] = guarded(direct)
        out["inst_expected"] = guarded(lambda: vbuild.abstract_instance(af, child_model.instance_from_vector(want_max, ignore_prior_limits=True)))
    out["vec_maxl"] = guarded(lambda: [hexf(v) for v in child.samples_summary.max_log_likelihood(as_instance=False)])
    out["vec_means"] = guarded(lambda: [hexf(v) for v in child.samples_summary.prior_means])
    out["inst"] = guarded(lambda: vbuild.abstract_instance(af, child.instance))
    # the parent still answers for the joint model after the children were made and read
    out["parent_after"] = guarded(lambda: {"maxl": [hexf(v) for v in summary.max_log_likelihood(as_instance=False)],
                                           "means": [hexf(v) for v in summary.prior_means],
                                           "model_is_joint": summary.model is joint})
    # for the Coq model of the summary: joint tree and child tree under the joint numbering, the samples as (path, value)
    jid = dict(jmap)
    out["joint_tree"] = vbuild.abstract_model(af, joint, jid)
    out["child_tree_joint_ids"] = vbuild.abstract_model(af, child_model, jid)
    out["chain_trees"] = [vbuild.abstract_model(af, m, jid) for _, m in chain]
    out["kw_max"] = [[list(map(str, p)), hexf(v)] for p, v in s_max.kwargs.items()]
    return out


def main():
    cases = json.load(open(sys.argv[1]))["cases"]
    res = []
    for c in cases:
        try:
            res.append({"ok": run_session(c) if c.get("kind") == "session" else run_case(c)})
        except BaseException as e:  # noqa
            import traceback
            res.append({"exc": exc_name(e), "msg": traceback.format_exc()[-700:]})
    json.dump({"results": res}, open(sys.argv[2], "w"))


main()
