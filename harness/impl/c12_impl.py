"""C12 implementation driver: prior passing on composed models.

For every case: build the model from the composition program, apply one passing mode through the
real API (mapper_from_prior_means / mapper_from_uniform_floats / with_limits / replacing /
copy_with_fixed_priors, and the same through af.Result / SamplesSummary), and report the abstraction
of the new model, its priors in id order, its paths, instances at a probe vector, or the exception."""
import json
import sys
import logging

from vimpl_common import setup, hexf, unhex, exc_name

af, conf = setup()
logging.disable(logging.CRITICAL)
import vbuild
import vclasses
import c12_classes
vclasses.CLASSES.update(c12_classes.CLASSES)          # this process only: the interpreter of programs knows the C12 classes
vclasses.SIGNATURES.update(c12_classes.SIGNATURES)
from autofit.mapper.prior.abstract import Prior


def spec_of(p):
    name = type(p).__name__
    d = {"lo": hexf(p.lower_limit), "hi": hexf(p.upper_limit)}
    if name == "UniformPrior":
        d["family"] = "uniform"
    elif name == "GaussianPrior":
        d["family"] = "gaussian"
        d["mean"] = hexf(p.mean)
        d["sigma"] = hexf(p.sigma)
    elif name == "LogUniformPrior":
        d["family"] = "loguniform"
    elif name == "LogGaussianPrior":
        d["family"] = "loggaussian"
    else:
        d["family"] = name
    # where the prior maps the unit interval (its message), not only the limit attributes
    vf = []
    for u in (0.1, 0.5, 0.9):
        try:
            vf.append(hexf(p.value_for(u)))
        except BaseException as e:  # noqa
            vf.append(type(e).__name__)
    d["vf"] = vf
    try:
        d["median"] = hexf(p.value_for(0.5, ignore_prior_limits=True))
    except BaseException as e:  # noqa
        d["median"] = type(e).__name__
    wm = getattr(p, "width_modifier", None)
    d["wm"] = None if wm is None else {"type": wm.name_of_class(), "value": hexf(wm.value)}
    return d


def make_wm(d):
    cls = {"Absolute": af.AbsoluteWidthModifier, "Relative": af.RelativeWidthModifier}[d["type"]]
    return cls(unhex(d["value"]))


def make_prior(s):
    if s["family"] == "loggaussian":
        return af.LogGaussianPrior(mean=unhex(s["mean"]), sigma=unhex(s["sigma"]),
                                   lower_limit=unhex(s["lo"]), upper_limit=unhex(s["hi"]))
    return vbuild.make_prior(af, s)


def extra_value(kind):
    return {"int": 3, "str": "txt", "none": None, "obj": c12_classes.Marker(7), "bool": True}[kind]


def follow(obj, path):
    for k in path:
        obj = getattr(obj, k)
    return obj


def same_extra(a, b):
    return type(a) is type(b) and a == b


def make_new_prior(s):
    p = make_prior(s)
    if s.get("wm"):
        p.width_modifier = make_wm(s["wm"])
    return p


def exc_kind(e):
    import autofit.exc as exc
    if isinstance(e, exc.MessageException):
        return "MessageException"
    if isinstance(e, exc.PriorException):
        return "PriorException"
    if isinstance(e, IndexError):
        return "IndexError"
    if isinstance(e, TypeError):
        return "TypeError"
    if isinstance(e, KeyError):
        return "KeyError"
    return type(e).__name__


def abstract_any(obj, idmap):
    """vbuild.abstract_model, plus realised tuples of floats (copy_with_fixed_priors)."""
    t = vbuild.abstract_model(af, obj, idmap)
    return t


def abstract_fixed(obj, idmap, key=None):
    from autofit.mapper.prior_model.prior_model import Model
    from autofit.mapper.prior_model.collection import Collection
    if isinstance(obj, tuple) and all(isinstance(x, float) for x in obj):
        return {"t": "tuple", "members": [["%s_%d" % (key, i), {"t": "const", "v": hexf(x)}] for i, x in enumerate(obj)]}
    if isinstance(obj, Model):
        attrs = []
        for k, v in obj.__dict__.items():
            if k.startswith("_") or k in ("id", "cls"):
                continue
            attrs.append([k, abstract_fixed(v, idmap, k)])
        return {"t": "model", "cls": obj.cls.__name__, "attrs": attrs}
    if isinstance(obj, Collection):
        attrs = []
        for k, v in obj.__dict__.items():
            if k.startswith("_") or k in ("id", "item_number"):
                continue
            attrs.append([k, abstract_fixed(v, idmap, k)])
        return {"t": "coll", "attrs": attrs}
    return vbuild.abstract_model(af, obj, idmap)


def guarded(f):
    try:
        return {"ok": f()}
    except BaseException as e:  # noqa
        return {"exc": exc_kind(e), "msg": str(e)[:160]}


def item_numbers(obj, out, path=()):
    from autofit.mapper.prior_model.collection import Collection
    from autofit.mapper.prior_model.abstract import AbstractPriorModel
    if isinstance(obj, Collection):
        out.append([list(path), obj.item_number])
    if isinstance(obj, AbstractPriorModel):
        for k, v in obj.__dict__.items():
            if not k.startswith("_") and k not in ("id", "cls"):
                item_numbers(v, out, path + (k,))


def describe(model, idmap, probe):
    """Observables of a (new) model."""
    out = {"tree": vbuild.abstract_model(af, model, idmap)}
    out["paths"] = [list(map(str, p)) for p in model.paths]
    out["path_priors"] = [[list(map(str, p)), idmap.get(q.id, -1)] for p, q in model.path_priors_tuples]
    out["count"] = model.prior_count
    pri = model.priors_ordered_by_id
    out["ids"] = [idmap.get(p.id, -1) for p in pri]
    out["priors"] = [[idmap.get(p.id, -1), spec_of(p)] for p in pri]
    nums = []
    item_numbers(model, nums)
    out["item_numbers"] = nums
    # every advertised path resolves to the prior it is advertised for
    res = []
    for path, prior in model.path_priors_tuples:
        try:
            res.append(model.object_for_path(path) is prior)
        except BaseException:  # noqa
            res.append(False)
    out["paths_resolve"] = all(res)
    return out


def run_case(c):
    prog = c["program"]
    # priors first (some carry their own width modifier), then the composition: component copies made by the program
    # (Model.copy() deep-copies prior objects, keeping their ids) then carry the modifier as well
    pool = [make_prior(s) for s in prog["pool"]]
    for k, d in (c.get("wms") or {}).items():
        pool[int(k)].width_modifier = make_wm(d)
    model = vbuild.build_expr(af, prog["root"], pool)
    # non-float constants held directly by collections (ints, strings, None, objects, bools)
    extras = c.get("extras") or []
    try:
        for path, key, kind in extras:
            setattr(follow(model, path), key, extra_value(kind))
        extras_set = all(same_extra(getattr(follow(model, path), key, KeyError), extra_value(kind)) for path, key, kind in extras)
    except BaseException:  # noqa
        extras_set = False
    idmap = {p.id: i for i, p in enumerate(pool)}
    npool = len(pool)
    mode = c["mode"]
    out = {"orig": describe(model, idmap, None), "extras_set": extras_set}
    out["orig"]["specs"] = [spec_of(p) for p in pool]
    out["id_order_ok"] = all(pool[i].id < pool[i + 1].id for i in range(npool - 1))
    probe = [unhex(x) for x in c["probe"]]
    out["orig_inst"] = guarded(lambda: vbuild.abstract_instance(af, model.instance_from_vector(probe, ignore_prior_limits=True)))
    k = mode["k"]
    news = []          # priors created for this case (replace mode), in creation order
    if k == "means":
        means = [unhex(x) for x in mode["means"]]
        a = None if mode["a"] is None else unhex(mode["a"])
        r = None if mode["r"] is None else unhex(mode["r"])
        f = lambda: model.mapper_from_prior_means(means, a=a, r=r, no_limits=bool(mode.get("no_limits")))
    elif k == "bounded":
        floats = [unhex(x) for x in mode["floats"]]
        b = unhex(mode["b"])
        f = lambda: model.mapper_from_uniform_floats(floats, b)
    elif k == "limits":
        lims = [(unhex(lo), unhex(hi)) for lo, hi in mode["limits"]]
        f = lambda: model.with_limits(lims)
    elif k == "replace":
        arguments = {}
        for old, new in mode["map"]:
            if "pool" in new:
                arguments[pool[old]] = pool[new["pool"]]
            else:
                p = make_new_prior(new["new"])
                news.append(p)
                arguments[pool[old]] = p
        if mode.get("foreign"):
            stranger = af.UniformPrior(0.0, 1.0)
            arguments[stranger] = af.UniformPrior(0.0, 2.0)
        f = lambda: model.replacing(arguments)
    elif k == "fixed":
        vec = [unhex(x) for x in mode["vec"]]
        instance = model.instance_from_vector(vec, ignore_prior_limits=True)
        f = lambda: model.copy_with_fixed_priors(instance)
    else:
        raise ValueError(k)
    if c.get("frozen"):
        model.freeze()          # searches freeze the model; results are built from that model
    try:
        new_model = f()
    except BaseException as e:  # noqa
        import traceback
        out["out"] = {"exc": exc_kind(e), "msg": traceback.format_exc()[-500:]}
        new_model = None
    if new_model is not None:
        # ids of priors that are not pool priors: created priors first (creation order), then any other by id
        idmap2 = dict(idmap)
        for p in news:
            idmap2.setdefault(p.id, len(idmap2))
        fresh = sorted({p.id for _, p in new_model.path_instance_tuples_for_class(Prior) if p.id not in idmap2})
        for i in fresh:
            idmap2[i] = len(idmap2)
        if k == "fixed":
            d = {"tree": abstract_fixed(new_model, idmap2), "count": new_model.prior_count,
                 "inst": guarded(lambda: vbuild.abstract_instance(af, new_model.instance_from_vector([])))}
            d["best_fit"] = vbuild.abstract_instance(af, instance)
        else:
            d = describe(new_model, idmap2, probe)
            d["n_new"] = len(news)
        out["out"] = {"ok": d}
        ex = []
        try:
            ninst = new_model.instance_from_vector([unhex(x) for x in (c.get("new_probe") or [])] if k != "fixed" else [],
                                                   ignore_prior_limits=True) if (k == "fixed" or c.get("new_probe") is not None) else None
        except BaseException:  # noqa
            ninst = None
        for path, key, kind in extras:
            def present(root):
                try:
                    return same_extra(getattr(follow(root, path), key), extra_value(kind))
                except BaseException:  # noqa
                    return False
            ex.append([path, key, kind, present(new_model), True if ninst is None else present(ninst)])
        out["extras"] = ex
        # the original model is left as it was
        after = describe(model, idmap, None)
        out["orig_unchanged"] = (after["tree"] == out["orig"]["tree"] and after["ids"] == out["orig"]["ids"]
                                 and [spec_of(p) for p in pool] == out["orig"]["specs"])
    # the same through a search result (means / bounded modes): result.model, .model_absolute, .model_relative, .model_bounded
    variant = c.get("via_result")
    if k in ("means", "bounded") and variant:
        values = means if k == "means" else floats
        if len(values) == npool and not (k == "means" and (mode.get("no_limits") or (a is not None and r is not None))):
            def via():
                from autofit.non_linear.samples.sample import Sample
                from autofit.non_linear.samples.summary import SamplesSummary
                # means come from the median PDF sample, model_bounded from the maximum likelihood sample:
                # the other sample carries different numbers so that a mix-up is visible
                other = [v + 0.5 if abs(v) < 1e15 else v / 2.0 for v in values]
                if variant == "names" and all(len(p) == 1 for p in model.paths):
                    # keyed by parameter names, as samples read back from samples.csv are
                    names = [p[0] for p in model.unique_prior_paths]
                    sample = Sample(0.0, 0.0, 1.0, kwargs=dict(zip(names, values)))
                    decoy = Sample(-1.0, 0.0, 1.0, kwargs=dict(zip(names, other)))
                else:
                    sample = Sample.from_lists(model, [values], [0.0], [0.0], [1.0])[0]
                    decoy = Sample.from_lists(model, [other], [-1.0], [0.0], [1.0])[0]
                if variant == "no-median":
                    # a maximum likelihood search has no median PDF sample: everything comes from the best sample
                    summary = SamplesSummary(max_log_likelihood_sample=sample, model=model, median_pdf_sample=None)
                elif k == "bounded":
                    summary = SamplesSummary(max_log_likelihood_sample=sample, model=model, median_pdf_sample=decoy)
                else:
                    summary = SamplesSummary(max_log_likelihood_sample=decoy, model=model, median_pdf_sample=sample)
                result = af.Result(samples_summary=summary)
                if k == "bounded":
                    nm = result.model_bounded(b)
                elif a is not None:
                    nm = result.model_absolute(a)
                elif r is not None:
                    nm = result.model_relative(r)
                else:
                    nm = result.model
                dd = describe(nm, idmap, probe)
                return {"tree": dd["tree"], "priors": dd["priors"], "paths": dd["paths"]}
            out["via_result"] = guarded(via)
    if new_model is not None and k != "fixed":
        nprobe = c.get("new_probe")
        if nprobe is not None and len(nprobe) == new_model.prior_count:
            nv = [unhex(x) for x in nprobe]
            out["new_inst"] = guarded(lambda: vbuild.abstract_instance(af, new_model.instance_from_vector(nv, ignore_prior_limits=True)))
    return out


def main():
    cases = json.load(open(sys.argv[1]))["cases"]
    res = []
    for c in cases:
        try:
            res.append({"ok": run_case(c)})
        except BaseException as e:  # noqa
            import traceback
            res.append({"exc": exc_name(e), "msg": traceback.format_exc()[-700:]})
    json.dump({"results": res}, open(sys.argv[2], "w"))


main()
