"""C10 implementation driver: builds real in-memory SQLite databases of Fit objects from
abstract descriptions, builds real query objects through the aggregator API, runs
Aggregator.query / order_by / slicing (in any order), and evaluates the same predicates
directly on the objects read back from the database (fit.instance, fit.info, fit columns)."""
import json
import logging
import operator
import sys

from vimpl_common import setup, exc_name

af, conf = setup()
logging.disable(logging.CRITICAL)

from autofit import database as db                      # noqa: E402
from autofit.database.model import sa                   # noqa: E402
from autofit.database.aggregator.aggregator import Aggregator   # noqa: E402
import c10_classes as K                                 # noqa: E402

OPS = {"=": operator.eq, "<": operator.lt, "<=": operator.le, ">": operator.gt, ">=": operator.ge}
MISSING = object()


# ---------------------------------------------------------------- objects
def build_obj(o):
    if "v" in o:
        return o["v"]                 # int, float or bool exactly as generated
    if "s" in o:
        return o["s"]
    if "none" in o:
        return None
    cls = o["cls"]
    kids = [(n, build_obj(c)) for n, c in o["kids"]]
    if cls in ("list", "tuple"):
        assert [n for n, _ in kids] == [str(i) for i in range(len(kids))]
        seq = [v for _, v in kids]
        return seq if cls == "list" else tuple(seq)
    if cls == "dict":
        return dict(kids)
    return K.CLASSES[cls](**dict(kids))


def make_session(dbdesc):
    engine = sa.create_engine("sqlite://")
    session = sa.orm.sessionmaker(bind=engine)()
    db.Base.metadata.create_all(engine)
    for f in dbdesc:
        fit = db.Fit(
            id=f["id"], instance=build_obj(f["inst"]), name=f["name"], unique_tag=f["unique_tag"],
            path_prefix=f["path_prefix"], is_complete=f["is_complete"], is_grid_search=f["is_grid_search"],
            max_log_likelihood=f["mll"], info=f["info"], parent_id=f["parent"],
        )
        session.add(fit)
        session.commit()
    return engine, session


def dump_object(o):
    t = type(o).__name__
    if t == "Value":
        return {"v": o.value}
    if t == "StringValue":
        return {"s": o.value}
    if t == "NoneInstance":
        return {"none": 1}
    return {"row": t, "class_path": o.class_path,
            "kids": sorted(([c.name, dump_object(c)] for c in o.children), key=lambda kv: kv[0])}


def dump_db(session):
    out = []
    for fit in session.query(db.Fit).order_by(db.Fit.id).all():
        root = session.query(db.Object).filter(db.Object.id == fit.instance_id).one()
        out.append({
            "id": fit.id, "tree": dump_object(root), "name": fit.name, "unique_tag": fit.unique_tag,
            "path_prefix": fit.path_prefix, "is_complete": fit.is_complete, "is_grid_search": fit.is_grid_search,
            "mll": fit.max_log_likelihood, "info": dict(fit.info), "parent": fit.parent_id,
        })
    return out


# ---------------------------------------------------------------- predicates -> real query objects
def const_value(c):
    if "n" in c:
        return c["n"]
    if "s" in c:
        return c["s"]
    if "none" in c:
        return None
    return K.CLASSES[c["t"]]


def build_query(agg, p):
    tag = p[0]
    if tag in ("cmp", "ne"):
        q = agg.model
        for n in p[1]:
            q = getattr(q, n)
        if tag == "ne":
            return q != const_value(p[2])
        sym, c = p[2], const_value(p[3])
        if sym == "=":
            return q == c
        return OPS[sym](q, c)
    if tag in ("attr_eq", "attr_eqn", "attr_eqb"):
        return getattr(agg.search, p[1]) == p[2]
    if tag == "attr_contains":
        return getattr(agg.search, p[1]).contains(p[2])
    if tag == "attr_in":
        return getattr(agg.search, p[1]).in_(p[2])
    if tag == "attr_bool":
        return getattr(agg.search, p[1])
    if tag == "info":
        return agg.info[p[1]] == p[2]
    if tag == "and":
        left = build_query(agg, p[1])
        right = build_query(agg, p[2])
        return left & right
    if tag == "or":
        left = build_query(agg, p[1])
        right = build_query(agg, p[2])
        return left | right
    if tag == "not":
        return ~build_query(agg, p[1])
    raise ValueError(tag)


# ---------------------------------------------------------------- the predicate on the stored Python objects
def resolve(obj, path):
    cur = obj
    for n in path:
        if isinstance(cur, (list, tuple)):
            if not n.isdigit() or int(n) >= len(cur):
                return MISSING
            cur = cur[int(n)]
        elif isinstance(cur, dict):
            if n not in cur:
                return MISSING
            cur = cur[n]
        elif hasattr(cur, "__dict__") and not isinstance(cur, type):
            if n not in cur.__dict__:
                return MISSING
            cur = cur.__dict__[n]
        else:
            return MISSING
    return cur


def const_holds(sym, c, x):
    if x is MISSING:
        return False
    if "n" in c:
        return isinstance(x, (int, float)) and bool(OPS[sym](x, c["n"]))
    if "s" in c:
        return isinstance(x, str) and bool(OPS[sym](x, c["s"]))
    if "none" in c:
        return sym == "=" and x is None
    return sym == "=" and type(x) is K.CLASSES[c["t"]]


def direct(p, fit, inst):
    tag = p[0]
    if tag == "cmp":
        return const_holds(p[2], p[3], resolve(inst, p[1]))
    if tag == "ne":
        return not const_holds("=", p[2], resolve(inst, p[1]))
    if tag == "attr_eq":
        return getattr(fit, p[1]) == p[2]
    if tag in ("attr_eqn", "attr_eqb"):
        v = getattr(fit, p[1])
        return v is not None and v == p[2]
    if tag == "attr_contains":
        v = getattr(fit, p[1])
        return v is not None and p[2] in v
    if tag == "attr_in":
        v = getattr(fit, p[1])
        return v is not None and v in p[2]
    if tag == "attr_bool":
        return bool(getattr(fit, p[1]))
    if tag == "info":
        return fit.info.get(p[1]) == p[2]
    if tag == "and":
        return direct(p[1], fit, inst) and direct(p[2], fit, inst)
    if tag == "or":
        return direct(p[1], fit, inst) or direct(p[2], fit, inst)
    if tag == "not":
        return not direct(p[1], fit, inst)
    raise ValueError(tag)


# ---------------------------------------------------------------- cases
_cache = {}


def session_for(dbdesc):
    key = json.dumps(dbdesc, sort_keys=True)
    if key not in _cache:
        if len(_cache) > 4:
            for eng, ses, _ in _cache.values():
                ses.close()
                eng.dispose()
            _cache.clear()
        engine, session = make_session(dbdesc)
        all_fits = session.query(db.Fit).all()
        loaded = [(f, f.instance) for f in all_fits]
        _cache[key] = (engine, session, loaded)
        return _cache[key], True
    return _cache[key], False


def fail(out, e, stage):
    out["exc"] = exc_name(e)
    out["msg"] = str(e)[:200]
    out["stage"] = stage
    return out


def run_ops_case(c, agg, loaded, out):
    preds = [o[1] for o in c["ops"] if o[0] == "query"]
    out["direct_ops"] = [sorted(f.id for f, inst in loaded if direct(p, f, inst)) for p in preds]
    try:
        built = [build_query(agg, p) for p in preds]
    except BaseException as e:  # noqa
        return fail(out, e, "construct")
    res = agg
    k = 0
    for o in c["ops"]:
        if o[0] == "query":
            try:
                res = res.query(built[k]) if k % 2 == 0 else res(built[k])
            except BaseException as e:  # noqa
                return fail(out, e, "construct")
            k += 1
        elif o[0] == "order":
            try:
                res = res.order_by(getattr(agg.search, o[1]), reverse=o[2])
            except BaseException as e:  # noqa
                return fail(out, e, "construct")
        else:
            try:
                res = res[slice(o[1], o[2], o[3])]
            except BaseException as e:  # noqa
                return fail(out, e, "execute")
    try:
        out["ids"] = [f.id for f in res.fits]
        out["len"] = len(res)
        out["iter_ids"] = [f.id for f in res]
        i = c.get("index")
        if i is not None and -len(out["ids"]) <= i < len(out["ids"]):
            out["index_id"] = res[i].id
    except BaseException as e:  # noqa
        return fail(out, e, "execute")
    return out


def run_gops_case(c, agg, loaded, out):
    """query / order_by / slice / grid_searches / children / best_fits in any order; every predicate is built when
    its operation is applied"""
    preds = [o[1] for o in c["ops"] if o[0] == "query"]
    out["direct_ops"] = [sorted(f.id for f, inst in loaded if direct(p, f, inst)) for p in preds]
    res = agg
    k = 0
    for o in c["ops"]:
        if o[0] == "query":
            try:
                q = build_query(agg, o[1])
                res = res.query(q) if k % 2 == 0 else res(q)
            except BaseException as e:  # noqa
                return fail(out, e, "construct")
            k += 1
        elif o[0] == "order":
            try:
                res = res.order_by(getattr(agg.search, o[1]), reverse=o[2])
            except BaseException as e:  # noqa
                return fail(out, e, "construct")
        elif o[0] == "slice":
            try:
                res = res[slice(o[1], o[2], o[3])]
            except BaseException as e:  # noqa
                return fail(out, e, "execute")
        else:
            try:
                res = res.grid_searches() if o[0] == "grid" else res.children() if o[0] == "children" else res.best_fits()
            except AttributeError as e:
                return fail(out, e, "grid")
            except BaseException as e:  # noqa
                return fail(out, e, "construct")
    try:
        out["ids"] = [f.id for f in res.fits]
        out["len"] = len(res)
        out["iter_ids"] = [f.id for f in res]
        i = c.get("index")
        if i is not None and -len(out["ids"]) <= i < len(out["ids"]):
            out["index_id"] = res[i].id
    except BaseException as e:  # noqa
        return fail(out, e, "execute")
    return out


def run_case(c):
    (engine, session, loaded), fresh = session_for(c["db"])
    out = {}
    if fresh or c.get("want_dump"):
        out["dump"] = dump_db(session)
    out["all"] = [f.id for f, _ in loaded]
    top_only = c.get("top_only", False)
    agg = Aggregator(session, top_level_only=top_only)
    if c["kind"] == "ops":
        return run_ops_case(c, agg, loaded, out)
    if c["kind"] == "grid":
        return run_gops_case(c, agg, loaded, out)
    # the predicate evaluated directly on every stored fit
    out["direct"] = sorted(f.id for f, inst in loaded if direct(c["pred"], f, inst))
    chain = bool(c.get("chain")) and c["pred"][0] == "and"
    try:
        if chain:
            # agg.query(left).query(right): Aggregator.query and-s the predicates itself
            left = build_query(agg, c["pred"][1])
            right = build_query(agg, c["pred"][2])
            q = None
        else:
            q = build_query(agg, c["pred"])
        res = agg.query(left).query(right) if chain else agg.query(q)
    except BaseException as e:  # noqa
        return fail(out, e, "construct")
    try:
        if c["kind"] == "order":
            for attr, rev in c["keys"]:
                res = res.order_by(getattr(agg.search, attr), reverse=rev)
            base = [f.id for f in res.fits]
            out["base"] = base
            for start, stop in c["slices"]:
                res = res[slice(start, stop)]
            out["ids"] = [f.id for f in res.fits]
            out["len"] = len(res)
            if c.get("index") is not None and base:
                i = c["index"]
                out["index_id"] = res[i].id if -len(out["ids"]) <= i < len(out["ids"]) else None
        else:
            fits = res.fits
            out["ids"] = [f.id for f in fits]
            # __call__ is the concise syntax for query
            out["ids_call"] = [f.id for f in (agg(left)(right) if chain else agg(q)).fits]
    except BaseException as e:  # noqa
        return fail(out, e, "execute")
    return out


def main():
    cases = json.load(open(sys.argv[1]))["cases"]
    results = []
    for c in cases:
        try:
            results.append(run_case(c))
        except BaseException as e:  # noqa
            results.append({"driver_exc": type(e).__name__, "msg": str(e)[:300]})
    json.dump({"results": results}, open(sys.argv[2], "w"))


main()
