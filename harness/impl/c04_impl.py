"""C04 implementation driver: runs the real Fitness / FitnessPySwarms on abstract call sequences.

Input  {"cases": [case, ...]}  (format: see harness/vcheck/c04.py gen_case)
Output {"results": [{"ok": {...}} | {"exc": name, "msg": text}, ...]}
"""
import json
import logging
import os
import pickle
import sys
import warnings

from vimpl_common import setup, hexf, unhex, exc_name

af, conf = setup()
logging.disable(logging.CRITICAL)
warnings.filterwarnings("ignore")

import numpy as np

np.seterr(all="ignore")

from autofit import exc
from autofit.non_linear.fitness import Fitness
from autofit.non_linear.search.mle.pyswarms.search.abstract import FitnessPySwarms


def _mk(n, children=()):
    """Component class with n float constructor arguments a.. and one constructor argument per nested model."""
    names = ["a", "b", "c", "d"][:n]
    args = ["%s=0.0" % x for x in names] + ["%s=None" % x for x in children]
    src = "def __init__(self, %s):\n" % ", ".join(args)
    src += "".join("    self.%s = %s\n" % (x, x) for x in names + list(children)) or "    pass\n"
    ns = {}
    exec(src, ns)
    cls = type("K%d%s" % (n, "".join("_" + c for c in children)), (), {"__init__": ns["__init__"]})
    globals()[cls.__name__] = cls        # picklable by reference (fitness objects are pickled by pooled searches)
    return cls


KS = {}


def component_class(n, children=()):
    key = (n, tuple(children))
    if key not in KS:
        KS[key] = _mk(n, tuple(children))
    return KS[key]


ATTRS = ["a", "b", "c", "d"]


def make_prior(p):
    k = p["kind"]
    lo, hi = unhex(p["lo"]), unhex(p["hi"])
    if k == "U":
        return af.UniformPrior(lower_limit=lo, upper_limit=hi)
    if k == "LU":
        return af.LogUniformPrior(lower_limit=lo, upper_limit=hi)
    if k == "G":
        return af.GaussianPrior(mean=unhex(p["a"]), sigma=unhex(p["b"]), lower_limit=lo, upper_limit=hi)
    if k == "LG":
        return af.LogGaussianPrior(mean=unhex(p["a"]), sigma=unhex(p["b"]), lower_limit=lo, upper_limit=hi)
    raise ValueError(k)


def operand(o, priors):
    return priors[o["p"]] if "p" in o else unhex(o["c"])


def build_model(md):
    """Priors are created in id order first, then attached in the (shuffled) order of comps/attrs."""
    priors = [make_prior(p) for p in md["priors"]]
    root = af.Collection()
    comps = [None] * len(md["comps"])

    def build(i):
        """A component model; components whose `parent` is i are nested in it as constructor arguments."""
        comp = md["comps"][i]
        kw = {name: operand(o, priors) for name, o in comp["attrs"]}
        kids = [(j, cj["pattr"]) for j, cj in enumerate(md["comps"]) if cj.get("parent") == i]
        for j, pattr in kids:
            kw[pattr] = build(j)
        comps[i] = af.Model(component_class(len(comp["attrs"]), [pa for _, pa in kids]), **kw)
        return comps[i]

    for i, comp in enumerate(md["comps"]):
        if comp.get("parent") is not None:
            continue
        mdl = build(i)
        node = root
        for key in comp["path"][:-1]:
            if not hasattr(node, key):
                setattr(node, key, af.Collection())
            node = getattr(node, key)
        setattr(node, comp["path"][-1], mdl)
    for a in md["asserts"]:
        l, r = operand(a["l"], priors), operand(a["r"], priors)
        op = a["op"]
        asr = (l < r) if op == "lt" else (l <= r) if op == "le" else (l > r) if op == "gt" else (l >= r)
        target = root if a["at"] == -1 else getattr(root, "sub") if a["at"] == -2 else comps[a["at"]]
        target.add_assertion(asr)
    return root, priors


class ScriptAnalysis(af.Analysis):
    """log_likelihood_function reads every slot of the instance, in slot order."""

    def __init__(self, md, script):
        self.paths_ = [(comp["path"], name) for comp in md["comps"] for name, _ in comp["attrs"]]
        self.bias = unhex(script["bias"])
        self.weights = [unhex(w) for w in script["weights"]]
        self.exc_rule = script["exc"] and (script["exc"][0], unhex(script["exc"][1]))
        self.nan_rule = script["nan"] and (script["nan"][0], unhex(script["nan"][1]))
        self.ret = script["ret"]
        self.calls = 0

    def log_likelihood_function(self, instance):
        self.calls += 1
        vals = []
        for path, name in self.paths_:
            obj = instance
            for key in path:
                obj = getattr(obj, key)
            vals.append(getattr(obj, name))
        if self.exc_rule and vals[self.exc_rule[0]] > self.exc_rule[1]:
            raise exc.FitException("scripted")
        if self.nan_rule and vals[self.nan_rule[0]] > self.nan_rule[1]:
            acc = float("nan")
        else:
            acc = self.bias
            for w, v in zip(self.weights, vals):
                acc = acc + w * v
        if self.ret == "arr0":
            return np.array(float(acc))
        if self.ret == "np64":
            return np.float64(acc)
        return float(acc)


class FakePaths:
    """What Fitness.check_log_likelihood needs from the paths of a fit that is being resumed."""

    class _Sample:
        def __init__(self, parameters, log_likelihood):
            self._parameters = parameters
            self.log_likelihood = log_likelihood

        def parameter_lists_for_model(self, model):
            return self._parameters

    class _Summary:
        pass

    def __init__(self, parameters, old):
        self._summary = FakePaths._Summary()
        self._summary.max_log_likelihood_sample = FakePaths._Sample(parameters, old)

    def load_samples_summary(self):
        return self._summary


_CHECK_DIR = []


def check_config_dir():
    """A copy of harness/config/general.yaml with check_likelihood_function switched on (under VERIF_SCRATCH)."""
    if not _CHECK_DIR:
        import os
        src = os.path.join(os.environ.get("VERIF_DIR", "/verif"), "harness", "config", "general.yaml")
        d = os.path.join(os.environ["VERIF_SCRATCH"], "config_check")
        os.makedirs(d, exist_ok=True)
        import yaml
        cfg = yaml.safe_load(open(src))
        cfg.setdefault("test", {})["check_likelihood_function"] = True
        with open(os.path.join(d, "general.yaml"), "w") as f:
            yaml.safe_dump(cfg, f)
        _CHECK_DIR.append(d)
    return _CHECK_DIR[0]


def res_of(call):
    try:
        v = call()
    except BaseException as e:  # noqa: the property is about what escapes
        return None, [{"esc": exc_name(e), "msg": str(e)[:120]}]
    return v, None


def scalar(v):
    a = np.asarray(v)
    if a.shape != ():
        raise TypeError("figure of merit is not a scalar: shape %s" % (a.shape,))
    return hexf(float(a))


def run_case(c):
    import autofit.jax_wrapper as jw
    saved_jax = jw.use_jax
    # USE_JAX=1 without jax: the only thing the evaluation path consults is this module flag
    # (Prior.assert_within_limits); jit stays the identity it was defined as at import
    jw.use_jax = bool(c.get("jax"))
    try:
        return _run_case(c)
    finally:
        jw.use_jax = saved_jax


def _run_case(c):
    container = c["container"]
    nd = container == "nd"
    ints = bool(c.get("ints")) and not nd
    root, priors = build_model(c["model"])
    ids = [p.id for p in priors]
    ordered = [p.id for p in root.priors_ordered_by_id]
    analysis = ScriptAnalysis(c["model"], c["script"])
    fl = c["flags"]
    cls = FitnessPySwarms if c["ps"] else Fitness
    kw = dict(fom_is_log_likelihood=fl["like"], resample_figure_of_merit=unhex(c["resample"]),
              convert_to_chi_squared=fl["chi2"], store_history=fl["store"])
    if c.get("defaults"):
        # rely on the documented constructor defaults wherever the case asks for exactly those
        documented = dict(fom_is_log_likelihood=True, resample_figure_of_merit=-np.inf,
                          convert_to_chi_squared=False, store_history=False)
        kw = {k: v for k, v in kw.items() if v != documented[k]}

    def typed(x):
        v = unhex(x)
        if nd:
            return np.float64(v)
        if ints and v == v and v != 0 and abs(v) < 2.0 ** 53 and v == int(v):
            return int(v)          # an integral entry proposed as a Python int
        return v

    ctor = c.get("ctor")
    ctor_raised = None
    if ctor:
        # a resumed fit: paths hold a samples summary whose best sample is buffer ctor["pbuf"]; the shipped
        # default `check_likelihood_function: true` is switched on for this construction only
        best = [unhex(x) for x in c["buffers"][ctor["pbuf"]]]
        kw["paths"] = FakePaths(np.array(best) if nd else best, unhex(ctor["old"]))
        saved = list(conf.instance.configs)
        saved_mode = os.environ.pop("PYAUTOFIT_TEST_MODE", None)
        conf.instance.push(new_path=check_config_dir())
        try:
            fitness = cls(model=root, analysis=analysis, **kw)
        except BaseException as e:  # noqa
            ctor_raised = {"esc": exc_name(e), "msg": str(e)[:160]}
        finally:
            conf.instance.configs = saved
            if saved_mode is not None:
                os.environ["PYAUTOFIT_TEST_MODE"] = saved_mode
        if ctor_raised:
            return {"ctor_raised": ctor_raised, "out": [], "hist_p": [], "hist_l": [],
                    "ids_ascending": all(a < b for a, b in zip(ids, ids[1:])), "ordered_is_creation": ordered == ids,
                    "prior_count": root.prior_count, "lp": [], "sums": [], "lik_calls": analysis.calls}
    else:
        fitness = cls(model=root, analysis=analysis, **kw)

    # caller buffers.  pyswarms + arrays: one persistent 2-D position array whose rows ARE the buffers (views),
    # as pyswarms keeps swarm.position; otherwise independent lists / arrays / tuples
    lens = {len(b) for b in c["buffers"]}
    pool = None
    if nd and c["ps"] and len(lens) == 1:
        pool = np.array([[unhex(x) for x in b] for b in c["buffers"]], dtype=float).reshape(len(c["buffers"]), -1)
        bufs = [pool[i] for i in range(len(c["buffers"]))]
    elif nd:
        bufs = [np.array([unhex(x) for x in b], dtype=float) for b in c["buffers"]]
    elif container == "tuple":
        bufs = [tuple(typed(x) for x in b) for b in c["buffers"]]
    else:
        bufs = [[typed(x) for x in b] for b in c["buffers"]]
    # oracle table: prior k . log_prior_from_value at every value that is ever at position k of a buffer
    # and the interpreter's own sum() of those terms (typed as the implementation would see them:
    # Python floats / ints for list and tuple buffers, numpy scalars for array buffers)
    seen = [dict() for _ in priors]
    sums = {}

    def note(vals):
        terms = []
        for k, x in enumerate(vals[:len(priors)]):
            try:
                t = priors[k].log_prior_from_value(typed(x))
                terms.append(t)
                seen[k][x] = hexf(t)
            except Exception:
                terms = None
                seen[k][x] = "nan"
                break
        if terms is not None and len(vals) == len(priors):
            key = json.dumps([hexf(t) for t in terms])
            sums[key] = hexf(sum(terms))

    for b in c["buffers"]:
        note(b)
    out = []
    for op in c["ops"]:
        if op[0] == "write":
            note(op[2])
            if nd:
                bufs[op[1]][:] = np.array([unhex(x) for x in op[2]], dtype=float)
            elif container == "tuple":
                bufs[op[1]] = tuple(typed(x) for x in op[2])       # immutable: the caller rebinds
            else:
                bufs[op[1]][:] = [typed(x) for x in op[2]]
            out.append([])
        elif op[0] == "call":
            v, esc = res_of(lambda: fitness(bufs[op[1]]))
            if esc:
                out.append(esc)
            elif c["ps"]:
                out.append([{"v": hexf(x)} for x in np.asarray(v, dtype=float).ravel().tolist()])
            else:
                out.append([{"v": scalar(v)}])
        elif op[0] == "batch":
            bs = op[1]
            if pool is not None and bs == list(range(bs[0], bs[0] + len(bs))):
                arg = pool[bs[0]:bs[0] + len(bs)]                  # a view: rows alias the buffers
            elif nd:
                arg = np.array([list(bufs[b]) for b in bs], dtype=float)
            else:
                arg = [bufs[b] for b in bs]                        # the caller's own row objects
            v, esc = res_of(lambda: fitness(arg))
            out.append(esc or [{"v": hexf(x)} for x in np.asarray(v, dtype=float).ravel().tolist()])
        elif op[0] == "pickle":
            fitness = pickle.loads(pickle.dumps(fitness))
            out.append([])
        else:
            raise ValueError(op[0])
    hist_p = [[hexf(x) for x in list(p)] for p in fitness.parameters_history_list]
    hist_l = [scalar(x) for x in fitness.log_likelihood_history_list]
    return {
        "ctor_raised": None, "out": out, "hist_p": hist_p, "hist_l": hist_l,
        "ids_ascending": all(a < b for a, b in zip(ids, ids[1:])),
        "ordered_is_creation": ordered == ids,
        "prior_count": root.prior_count,
        "lp": [sorted(d.items()) for d in seen],
        "sums": sorted((json.loads(k), v) for k, v in sums.items()),
        "lik_calls": fitness.analysis.calls,
    }


def main():
    payload = json.load(open(sys.argv[1]))
    results = []
    for c in payload["cases"]:
        try:
            results.append({"ok": run_case(c)})
        except BaseException as e:
            import traceback
            results.append({"exc": type(e).__name__, "msg": (str(e) + " | " + traceback.format_exc()[-600:])})
    with open(sys.argv[2], "w") as f:
        json.dump({"results": results}, f)


if __name__ == "__main__":
    main()
