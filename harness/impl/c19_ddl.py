"""C19: fail-closed parser for the three DDL statement forms used by
autofit/database/migration/steps.py, and pure-Python helpers shared by the
translator (vcheck/c19.py) and the implementation driver (impl/c19_impl.py).

Nothing in this file imports autofit.
"""
import ast
import hashlib
import re


class DDLError(Exception):
    pass


IDENT = r"[a-z_][a-z0-9_]*"
TYPES = ("VARCHAR", "INTEGER", "FLOAT", "BLOB", "BOOLEAN")
RESERVED = {"revision", "sqlite_master", "sqlite_sequence", "table", "select", "from", "where", "primary",
            "foreign", "references", "constraint", "unique", "check", "default", "not", "null", "index"}

_ADD = re.compile(r"^ALTER TABLE (%s) ADD (?:COLUMN )?(%s) (%s);$" % (IDENT, IDENT, "|".join(TYPES)))
_REN = re.compile(r"^ALTER TABLE (%s) RENAME COLUMN (%s) TO (%s);$" % (IDENT, IDENT, IDENT))
_CRE = re.compile(r"^CREATE TABLE (%s) \((.*)\);$" % IDENT)
_COL = re.compile(r"^(%s) (%s)( NOT NULL)?$" % (IDENT, "|".join(TYPES)))
_PK = re.compile(r"^PRIMARY KEY \((%s)\)$" % IDENT)
_FK = re.compile(r"^FOREIGN KEY \((%s)\) REFERENCES (%s) \((%s)\)$" % (IDENT, IDENT, IDENT))


def _ident_ok(*names):
    for n in names:
        if n in RESERVED:
            raise DDLError("identifier %r is reserved / not modelled" % n)


def parse_stmt(s):
    """One SQL statement -> ("add", t, c) | ("rename", t, a, b) | ("create", t, [cols]).
    Anything outside the three forms raises DDLError (fail closed)."""
    if not isinstance(s, str):
        raise DDLError("statement is not a string literal")
    m = _ADD.match(s)
    if m:
        _ident_ok(m.group(1), m.group(2))
        return ("add", m.group(1), m.group(2))
    m = _REN.match(s)
    if m:
        _ident_ok(*m.groups())
        if m.group(2) == m.group(3):
            raise DDLError("rename of a column to itself is not modelled: %r" % s)
        return ("rename", m.group(1), m.group(2), m.group(3))
    m = _CRE.match(s)
    if m:
        t = m.group(1)
        _ident_ok(t)
        cols, pks, fks = [], [], []
        for part in [p.strip() for p in _split_top(m.group(2))]:
            part = re.sub(r"\s+", " ", part)
            mc = _COL.match(part)
            if mc:
                cols.append(mc.group(1))
                continue
            mp = _PK.match(part)
            if mp:
                pks.append(mp.group(1))
                continue
            mf = _FK.match(part)
            if mf:
                fks.append(mf.group(1))
                continue
            raise DDLError("unsupported table element %r in %r" % (part, s))
        _ident_ok(*cols)
        if not cols or len(set(cols)) != len(cols):
            raise DDLError("empty or duplicate column list in %r" % s)
        if len(pks) > 1 or any(c not in cols for c in pks + fks):
            raise DDLError("key over an undefined column in %r" % s)
        return ("create", t, cols)
    raise DDLError("unsupported statement form: %r" % s)


def _split_top(body):
    out, depth, cur = [], 0, ""
    for ch in body:
        if ch == "(":
            depth += 1
        elif ch == ")":
            depth -= 1
        if ch == "," and depth == 0:
            out.append(cur)
            cur = ""
        else:
            cur += ch
    if depth != 0:
        raise DDLError("unbalanced parentheses")
    out.append(cur)
    return out


def extract_steps_source(path):
    """Read `steps = [Step("...", ...), ...]` and `migrator = Migrator(*steps)` from steps.py by AST.
    Returns (list of list of str, line of the assignment). Fail closed on any other shape."""
    src = open(path).read()
    tree = ast.parse(src)
    steps, line, migr = None, None, False
    for node in tree.body:
        if isinstance(node, (ast.Import, ast.ImportFrom)):
            continue
        if isinstance(node, ast.Expr) and isinstance(node.value, ast.Constant) and isinstance(node.value.value, str):
            continue  # docstring
        if isinstance(node, ast.Assign) and len(node.targets) == 1 and isinstance(node.targets[0], ast.Name):
            name = node.targets[0].id
            if name == "steps":
                if steps is not None or not isinstance(node.value, ast.List):
                    raise DDLError("`steps` is not a single list literal")
                steps, line = [], node.lineno
                for el in node.value.elts:
                    if not (isinstance(el, ast.Call) and isinstance(el.func, ast.Name) and el.func.id == "Step"
                            and not el.keywords):
                        raise DDLError("element of `steps` is not Step(<string literals>) at line %d" % el.lineno)
                    strs = []
                    for a in el.args:
                        if not (isinstance(a, ast.Constant) and isinstance(a.value, str)):
                            raise DDLError("Step argument is not a string literal at line %d" % a.lineno)
                        strs.append(a.value)
                    steps.append(strs)
                continue
            if name == "migrator":
                v = node.value
                if not (isinstance(v, ast.Call) and isinstance(v.func, ast.Name) and v.func.id == "Migrator"
                        and len(v.args) == 1 and isinstance(v.args[0], ast.Starred)
                        and isinstance(v.args[0].value, ast.Name) and v.args[0].value.id == "steps" and not v.keywords):
                    raise DDLError("`migrator` is not Migrator(*steps)")
                if steps is None:
                    raise DDLError("`migrator` defined before `steps`")
                migr = True
                continue
        raise DDLError("unexpected top-level statement in steps.py at line %d" % node.lineno)
    if steps is None or not migr:
        raise DDLError("steps.py does not define `steps` and `migrator`")
    return steps, line


def md5(s):
    return hashlib.md5(s.encode("utf-8")).hexdigest()


def step_id(strings):
    return md5(":".join(strings))


def revision_id(steps):
    return md5(":".join(step_id(s) for s in steps))


# ---- plain-Python reference semantics of the three statements (used only to DERIVE historical schemas
# ---- and by the independent oracle; the Coq model is the one compared with the code) ----------------

def apply_stmt(schema, st):
    """schema: dict table -> list of columns (insertion ordered). Returns True when the statement succeeds."""
    if st[0] == "add":
        _, t, c = st
        if t not in schema or c in schema[t]:
            return False
        schema[t] = schema[t] + [c]
        return True
    if st[0] == "rename":
        _, t, a, b = st
        if t not in schema or a not in schema[t] or b in schema[t]:
            return False
        schema[t] = [b if x == a else x for x in schema[t]]
        return True
    _, t, cols = st
    if t in schema:
        return False
    schema[t] = list(cols)
    return True


def reverse_steps(schema, parsed_steps):
    """Undo the steps on a schema (dict table -> cols): the schema a database had before any step."""
    s = {t: list(c) for t, c in schema.items()}
    for step in reversed(parsed_steps):
        for st in reversed(step):
            if st[0] == "create":
                s.pop(st[1], None)
            elif st[0] == "add":
                if st[1] in s and st[2] in s[st[1]]:
                    s[st[1]] = [c for c in s[st[1]] if c != st[2]]
            else:
                _, t, a, b = st
                if t in s and b in s[t] and a not in s[t]:
                    s[t] = [a if x == b else x for x in s[t]]
    return s
