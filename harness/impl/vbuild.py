"""Interpreter of composition programs against the real PyAutoFit API, and abstraction
of live model objects / instances into JSON trees (raw __dict__ walks)."""
import vclasses
from vimpl_common import hexf, unhex


def make_prior(af, spec):
    f = spec["family"]
    if f == "uniform":
        return af.UniformPrior(lower_limit=unhex(spec["lo"]), upper_limit=unhex(spec["hi"]))
    if f == "gaussian":
        return af.GaussianPrior(mean=unhex(spec["mean"]), sigma=unhex(spec["sigma"]),
                                lower_limit=unhex(spec["lo"]), upper_limit=unhex(spec["hi"]))
    if f == "loguniform":
        return af.LogUniformPrior(lower_limit=unhex(spec["lo"]), upper_limit=unhex(spec["hi"]))
    raise ValueError(f)


def build(af, program):
    pool = [make_prior(af, s) for s in program["pool"]]
    return build_expr(af, program["root"], pool), pool


def arith(op, x, y):
    if op == "+":
        return x + y
    if op == "-":
        return x - y
    if op == "*":
        return x * y
    if op == "/":
        return x / y
    if op == "**":
        return x ** y
    if op == "%":
        return x % y
    if op == "//":
        return x // y
    raise ValueError(op)


def build_expr(af, e, pool):
    t = e["t"]
    if t == "prior":
        return pool[e["ref"]]
    if t == "const":
        if e.get("int"):                     # opt-in: an int constant (C01)
            return int(unhex(e["v"]))
        return unhex(e["v"])
    if t == "unary":                         # opt-in node kind (C01): -x, abs(x)
        x = build_expr(af, e["a"], pool)
        if e["op"] in ("log", "log10"):      # af.Log(x) / af.Log10(x): ModifiedPrior forms computed with numpy
            return af.Log(x) if e["op"] == "log" else af.Log10(x)
        return -x if e["op"] == "neg" else abs(x)
    if t == "arith":
        x = build_expr(af, e["l"], pool)
        y = build_expr(af, e["r"], pool)
        return arith(e["op"], x, y)
    if t == "model":
        cls = vclasses.CLASSES[e["cls"]]
        kw = {}
        tuples = []
        for arg, kind, extra in vclasses.SIGNATURES[e["cls"]]:
            sub = e["kw"].get(arg)
            if sub is None or sub.get("default") or sub.get("implicit"):
                continue                     # omitted keyword argument: the library supplies config-default priors
            if kind == "tuple":
                if sub.get("whole"):         # opt-in: a whole TuplePrior as keyword argument, members in the given order
                    kw[arg] = af.TuplePrior(**{"%s_%d" % (arg, i): build_expr(af, sub["members"][i], pool) for i in sub["order"]})
                else:
                    tuples.append((arg, sub))
            else:
                kw[arg] = build_expr(af, sub, pool)
        m = af.Model(cls, **kw)
        for arg, sub in tuples:
            for i, member in enumerate(sub["members"]):
                if member.get("default"):
                    continue
                setattr(m, "%s_%d" % (arg, i), build_expr(af, member, pool))
        for name, sub in e.get("extra", []):
            setattr(m, name, build_expr(af, sub, pool))
        return m
    if t == "array":
        import itertools
        arr = af.Array(tuple(e["shape"]))
        indices = list(itertools.product(*[range(d) for d in e["shape"]]))
        for j in e["order"]:
            arr[indices[j]] = build_expr(af, e["elems"][j], pool)
        return arr
    if t == "coll":
        items = []
        for k, sub in e["items"]:
            if sub["t"] == "alias":          # opt-in: the same object under a second key
                items.append((k, items[sub["of"]][1]))
            elif sub["t"] == "copy":
                m = items[sub["of"]][1].copy()
                for arg, newc in sub["set"]:
                    setattr(m, arg, build_expr(af, newc, pool))
                items.append((k, m))
            else:
                items.append((k, build_expr(af, sub, pool)))
        form = e["form"]
        if form == "steps":                  # opt-in (C01): a construction history, see modelgen.Gen.coll_numeric_names
            return build_steps(af, e, [v for _, v in items], pool)
        if e.get("raw"):                     # opt-in: a raw list / dict (wrapped by the library: from_object / Model kwargs)
            return [v for _, v in items] if form == "list" else {k: v for k, v in items}
        if form == "varargs":
            return af.Collection(*[v for _, v in items])
        if form == "setitem":
            c = af.Collection()
            for k, v in items:
                c[k] = v
            return c
        if form == "list":
            return af.Collection([v for _, v in items])
        if form == "dict":
            return af.Collection({k: v for k, v in items})
        if form == "kwargs":
            return af.Collection(**{k: v for k, v in items})
        if form == "append":
            c = af.Collection()
            for _, v in items:
                c.append(v)
            return c
    raise ValueError(t)


def build_steps(af, e, objs, pool):
    """Collection built by the history e["steps"]; the component e["removed"] (item -1) is removed again at the end."""
    doomed = build_expr(af, e["removed"], pool) if "removed" in e else None

    def get(st):
        return doomed if st["item"] < 0 else objs[st["item"]]
    first = [st for st in e["steps"] if st["op"] == "init"]
    if e["init"] == "kwargs":
        c = af.Collection(**{st["key"]: get(st) for st in first})
    elif e["init"] == "dict":
        c = af.Collection({st["key"]: get(st) for st in first})
    elif e["init"] == "list":
        c = af.Collection([get(st) for st in first])
    else:
        c = af.Collection()
    for st in e["steps"]:
        op = st["op"]
        if op == "append":
            c.append(get(st))
        elif op == "setint":
            c[int(st["key"])] = get(st)
        elif op == "setstr":
            c[st["key"]] = get(st)
        elif op == "attr":
            setattr(c, st["key"], get(st))
    if doomed is not None:
        c.remove(doomed)
    return c


def abstract_model(af, obj, idmap):
    """Raw __dict__ walk of a live model object -> JSON tree of the ModelTree shape."""
    from autofit.mapper.prior.abstract import Prior
    from autofit.mapper.prior.tuple_prior import TuplePrior
    from autofit.mapper.prior.arithmetic.compound import CompoundPrior, ModifiedPrior
    from autofit.mapper.prior_model.prior_model import Model
    from autofit.mapper.prior_model.collection import Collection
    if isinstance(obj, Prior):
        return {"t": "prior", "ref": idmap.get(obj.id, -1 - obj.id)}
    if isinstance(obj, bool):
        return {"t": "other", "repr": repr(obj)}
    if isinstance(obj, (float, int)):
        return {"t": "const", "v": hexf(float(obj))}
    if isinstance(obj, TuplePrior):
        ms = []
        for k, v in obj.__dict__.items():
            if k.startswith("_") or k == "id":
                continue
            ms.append([k, abstract_model(af, v, idmap)])
        return {"t": "tuple", "members": ms}
    if isinstance(obj, CompoundPrior):
        op = {"SumPrior": "+", "MultiplePrior": "*", "DivisionPrior": "/", "PowerPrior": "**", "ModPrior": "%", "FloorDivPrior": "//"}.get(type(obj).__name__)
        if op is None:
            op = type(obj).__name__
        return {"t": "arith", "op": op, "ln": obj._left_name, "rn": obj._right_name,
                "l": abstract_model(af, obj._left, idmap), "r": abstract_model(af, obj._right, idmap),
                "keys": [k for k in obj.__dict__ if not k.startswith("_") and k != "id"]}
    if isinstance(obj, ModifiedPrior):           # -x, abs(x) (af.Log / af.Log10: op = the class name)
        op = {"NegativePrior": "neg", "AbsolutePrior": "abs", "Log": "log", "Log10": "log10"}.get(type(obj).__name__, type(obj).__name__)
        return {"t": "unary", "op": op, "name": obj._prior_name, "a": abstract_model(af, obj.__dict__.get(obj._prior_name), idmap),
                "keys": [k for k in obj.__dict__ if not k.startswith("_") and k != "id"]}
    if isinstance(obj, Model):
        attrs = []
        for k, v in obj.__dict__.items():
            if k.startswith("_") or k in ("id", "cls"):
                continue
            attrs.append([k, abstract_model(af, v, idmap)])
        return {"t": "model", "cls": obj.cls.__name__, "attrs": attrs}
    if type(obj).__name__ == "Array":
        attrs = []
        for k, v in obj.__dict__.items():
            if k.startswith("_") or k in ("id", "shape", "indices"):
                continue
            attrs.append([k, abstract_model(af, v, idmap)])
        return {"t": "array", "shape": list(obj.shape), "attrs": attrs}
    if isinstance(obj, Collection):
        attrs = []
        for k, v in obj.__dict__.items():
            if k.startswith("_") or k in ("id", "item_number"):
                continue
            attrs.append([k, abstract_model(af, v, idmap)])
        return {"t": "coll", "attrs": attrs}
    return {"t": "other", "repr": type(obj).__name__}


def abstract_instance(af, obj):
    from autofit.mapper.model import ModelInstance
    if isinstance(obj, bool):
        return {"t": "other", "repr": repr(obj)}
    if isinstance(obj, (float, int)):
        return {"t": "v", "v": hexf(float(obj))}
    if isinstance(obj, tuple):
        return {"t": "tup", "vs": [abstract_instance(af, x) for x in obj]}
    if type(obj).__name__ == "ndarray":
        return {"t": "arr", "shape": list(obj.shape), "vs": [hexf(float(x)) for x in obj.ravel()]}
    if isinstance(obj, ModelInstance):
        return {"t": "coll", "fields": [[str(k), abstract_instance(af, v)] for k, v in obj.dict.items()]}
    if type(obj).__name__ in vclasses.CLASSES:
        return {"t": "obj", "cls": type(obj).__name__,
                "fields": [[k, abstract_instance(af, v)] for k, v in obj.__dict__.items() if k != "id"]}
    return {"t": "other", "repr": type(obj).__name__}
