"""Helpers shared by implementation drivers (run under /venv/bin/python, PYTHONPATH=/repo)."""
import math
import os
import sys
import warnings

warnings.filterwarnings("ignore")
sys.path.insert(0, os.path.dirname(os.path.abspath(__file__)))


def setup(output=None):
    """Import autofit from /repo with the harness's own config; output under VERIF_SCRATCH."""
    repo = os.environ.get("VERIF_REPO", "/repo")
    if repo not in sys.path:
        sys.path.insert(0, repo)
    import autofit as af
    assert os.path.abspath(af.__file__).startswith(os.path.abspath(repo)), af.__file__
    from autoconf import conf
    verif = os.environ.get("VERIF_DIR", "/verif")
    scratch = output or os.environ.get("VERIF_SCRATCH") or "/tmp/verif_scratch_%d" % os.getpid()
    os.makedirs(scratch, exist_ok=True)
    conf.instance.push(new_path=os.path.join(verif, "harness", "config"), output_path=scratch)
    return af, conf


def hexf(x):
    x = float(x)
    if math.isnan(x):
        return "nan"
    if math.isinf(x):
        return "inf" if x > 0 else "-inf"
    return x.hex()


def unhex(s):
    if isinstance(s, (int, float)):
        return float(s)
    if s in ("nan", "inf", "-inf"):
        return float(s)
    return float.fromhex(s)


def exc_name(e):
    """Small enum of exception classes (DESIGN.md 2.2)."""
    import autofit.exc as exc
    names = []
    for cls in type(e).__mro__:
        names.append(cls.__name__)
    if isinstance(e, exc.PriorLimitException):
        return "PriorLimitException"
    if isinstance(e, exc.FitException):
        return "FitException"
    if isinstance(e, AssertionError):
        return "AssertionError"
    if isinstance(e, KeyError):
        return "KeyError"
    return type(e).__name__
