"""C02 implementation driver: runs the real prior code of /repo on abstract cases and
attaches the oracle tables of the special functions (c02_oracle, straight from scipy/numpy)."""
import json
import logging
import random
import sys

from vimpl_common import setup, hexf, unhex, exc_name

af, conf = setup()
logging.disable(logging.CRITICAL)

import c02_oracle as oracle  # noqa: E402


def make_prior(spec):
    fam = spec["family"]
    lo, hi = unhex(spec["lo"]), unhex(spec["hi"])
    if fam == "uniform":
        return af.UniformPrior(lower_limit=lo, upper_limit=hi)
    if fam == "loguniform":
        return af.LogUniformPrior(lower_limit=lo, upper_limit=hi)
    mean, sigma = unhex(spec["mean"]), unhex(spec["sigma"])
    if fam == "gaussian":
        return af.GaussianPrior(mean=mean, sigma=sigma, lower_limit=lo, upper_limit=hi)
    if fam == "loggaussian":
        return af.LogGaussianPrior(mean=mean, sigma=sigma, lower_limit=lo, upper_limit=hi)
    raise ValueError(fam)


def pre_use(p):
    """SWEEP class 1: USE the object before it is derived from / changed: value_for, the cdf, the unit limits, a draw."""
    for u in (0.25, 0.5, 0.75):
        try:
            p.value_for(u)
            p.unit_value_for(p.value_for(u, ignore_prior_limits=True))
        except BaseException:  # noqa
            pass
    try:
        _ = p.lower_unit_limit, p.upper_unit_limit, p.limits, p.width
        p.random()
    except BaseException:  # noqa
        pass


def derive(p, spec, d, use=True):
    """Priors that were not built by their own constructor call (review item 4).  With use=True the prior is used
    first (use - derive - use again); use=False is the fresh route the answers are compared with."""
    import pickle
    from autofit.mapper.prior.abstract import Prior
    how = d["how"]
    if use:
        pre_use(p)
    if how == "set_limits":
        # use the object, change its public limit attributes, use it again.  The message stays, the gate
        # (Prior.assert_within_limits, the rounding guard of UniformPrior, the unit limits of random) must follow the change
        p.lower_limit = unhex(d["a"])
        p.upper_limit = unhex(d["b"])
        return p
    if how == "with_message":
        # Prior.with_message (expectation propagation, prior passing): copy of the prior around the message of another
        # prior of the same family; limits and class of p
        return p.with_message(make_prior(d["msg"]).message)
    if how == "with_limits":                       # instance method (since d755794: a constructor call with the tightened limits)
        return p.with_limits(unhex(d["a"]), unhex(d["b"]))
    if how == "cls_with_limits":                   # GaussianPrior / LogUniformPrior override it as a classmethod
        return type(p).with_limits(unhex(d["a"]), unhex(d["b"]))
    if how == "new":
        return p.new()
    if how == "from_dict":
        return Prior.from_dict(p.dict())
    if how == "from_config_dict":                  # the shape prior config files have: no id
        dd = {k: v for k, v in p.dict().items() if k != "id"}
        return Prior.from_dict(dd)
    if how == "pickle":
        return pickle.loads(pickle.dumps(p))
    if how == "copy":
        import copy
        return copy.deepcopy(p)
    raise ValueError(how)


def describe(p):
    out = {"cls": type(p).__name__, "lo": hexf(p.lower_limit), "hi": hexf(p.upper_limit)}
    if type(p).__name__ in ("GaussianPrior", "LogGaussianPrior"):
        out["mean"], out["sigma"] = hexf(p.mean), hexf(p.sigma)
    return out


def unit_arg(o, key="u"):
    """The unit value (or physical value) in the container / numeric type the observation asks for."""
    import numpy as np
    u = unhex(o[key])
    ut = o.get("ut")
    if ut == "int":
        return int(u)
    if ut == "bool":
        return bool(u)
    if ut == "np":
        return np.float64(u)
    if ut == "a0":
        return np.array(u)                       # 0-d array
    if ut == "a1":
        return np.array([u])                     # 1-element array (a slice of a unit cube)
    if ut == "f32":
        return np.float32(u)                     # the generator only asks for values float32 represents exactly
    if ut == "a1f32":
        return np.array([u], dtype=np.float32)
    return u


def scalar(v):
    """The number inside a result (float, numpy scalar, 0-d or 1-element array)."""
    import numpy as np
    if isinstance(v, np.ndarray):
        if v.size != 1:
            raise ValueError("result has %d elements" % v.size)
        return float(v.reshape(-1)[0])
    return float(v)


def guarded(f):
    import warnings
    try:
        with warnings.catch_warnings():
            warnings.simplefilter("ignore")
            v = f()
        return {"ok": hexf(scalar(v)), "type": type(v).__name__}
    except BaseException as e:  # noqa
        return {"exc": exc_name(e), "msg": str(e)[:160]}


def run_obs(p, o):
    t = o["t"]
    if t == "value":
        if o.get("via") == "float":
            return guarded(lambda: float(p))                          # Prior.__float__ = value_for(0.5)
        if o.get("kw", True):
            return guarded(lambda: p.value_for(unit_arg(o), ignore_prior_limits=bool(o["ignore"])))
        assert not o["ignore"]
        return guarded(lambda: p.value_for(unit_arg(o)))          # default argument: limits enforced
    if t == "raw":
        return guarded(lambda: p.message.value_for(unit_arg(o)))
    if t == "rt":
        r = guarded(lambda: p.value_for(unhex(o["u"]), ignore_prior_limits=True))
        if "ok" not in r:
            return r
        w = guarded(lambda: p.unit_value_for(unhex(r["ok"])))
        if "ok" not in w:
            return {"exc": w["exc"], "msg": w["msg"], "at": "unit_value_for"}
        return {"v": r["ok"], "w": w["ok"]}
    if t == "unit":
        return guarded(lambda: p.unit_value_for(unit_arg(o, "x")))
    if t == "limits":
        a = guarded(lambda: p.lower_unit_limit)
        b = guarded(lambda: p.upper_unit_limit)
        if "ok" in a and "ok" in b:
            out = {"lower": a["ok"], "upper": b["ok"]}
            # second route to the same numbers (SWEEP class 3): the cdf of the limits in force
            a2 = guarded(lambda: p.unit_value_for(p.lower_limit))
            b2 = guarded(lambda: p.unit_value_for(p.upper_limit))
            out["lower_direct"] = a2.get("ok", a2.get("exc"))
            out["upper_direct"] = b2.get("ok", b2.get("exc"))
            return out
        return a if "exc" in a else b
    if t == "random":
        rr = oracle.first_random(o["seed"])
        random.seed(o["seed"])
        if o.get("kw", True):
            r = guarded(lambda: p.random(lower_limit=unhex(o["l"]), upper_limit=unhex(o["u"])))
        else:
            assert unhex(o["l"]) == 0.0 and unhex(o["u"]) == 1.0
            r = guarded(lambda: p.random())                        # default arguments
        r["r"] = hexf(rr)
        return r
    raise ValueError(t)


def run_case(c):
    if c["kind"] == "prior":
        try:
            p0 = p = make_prior(c["prior"])
            if c.get("derived"):
                p = derive(p0, c["prior"], c["derived"])
        except BaseException as e:  # noqa
            return {"ctor_exc": exc_name(e), "msg": str(e)[:160]}
        res = [run_obs(p, o) for o in c["obs"]]
        # SWEEP class 1: every answer again from the same object (reverse order, after all the other uses incl. the
        # random draws) and from a fresh object built the same way: the harness demands identical answers
        keys = ("ok", "exc", "v", "w", "lower", "upper", "r")
        pick = lambda x: {k: x[k] for k in keys if k in x}
        history = {"again": [], "fresh": [], "original": []}
        for k in reversed(range(len(res))):
            r2 = run_obs(p, c["obs"][k])
            if pick(r2) != pick(res[k]):
                history["again"].append({"k": k, "first": pick(res[k]), "second": pick(r2)})
        try:
            p2 = make_prior(c["prior"])
            if c.get("derived"):
                p2 = derive(p2, c["prior"], c["derived"], use=False)      # fresh route: nothing was used before
            for k in range(len(res)):
                r3 = run_obs(p2, c["obs"][k])
                if pick(r3) != pick(res[k]):
                    history["fresh"].append({"k": k, "first": pick(res[k]), "second": pick(r3)})
        except BaseException as e:  # noqa
            history["fresh"].append({"k": -1, "first": None, "second": {"exc": exc_name(e), "msg": str(e)[:160]}})
        # the prior that was derived FROM keeps answering like a fresh prior with its parameters
        if c.get("derived") and p0 is not p:
            try:
                p3 = make_prior(c["prior"])
                for k, o in enumerate(c["obs"]):
                    if o["t"] in ("limits", "random", "unit") or (o["t"] == "value" and k % 3 == 0):
                        a, b = run_obs(p0, o), run_obs(p3, o)
                        if pick(a) != pick(b):
                            history["original"].append({"k": k, "first": pick(b), "second": pick(a)})
            except BaseException as e:  # noqa
                history["original"].append({"k": -1, "first": None, "second": {"exc": exc_name(e), "msg": str(e)[:160]}})
        for key in history:
            history[key] = history[key][:6]
        return {"obs": res, "history": history, "described": describe(p),
                "table": oracle.tables_for_prior(c.get("msg_prior") or c["prior"], c["obs"], res, gate=c.get("gate_prior"))}
    if c["kind"] == "vector":
        try:
            priors = [make_prior(s) for s in c["priors"]]          # creation order = id order
        except BaseException as e:  # noqa
            return {"ctor_exc": exc_name(e), "msg": str(e)[:160]}
        names = ["p%02d" % k for k in c["attr_order"]]
        attrs = {"p%02d" % k: priors[k] for k in c["attr_order"]}
        for j, k in enumerate(c.get("share", [])):                 # SWEEP class 4: one prior under two (or more) paths
            attrs["%s%02d" % ("a" if j % 2 else "s", j)] = priors[k]
        model = af.Collection(**attrs)
        us = [unhex(u) for u in c["us"]]
        ignore = bool(c["ignore"])
        try:
            vec = model.vector_from_unit_vector(us, ignore_prior_limits=ignore)
            out = {"ok": [hexf(v) for v in vec]}
        except BaseException as e:  # noqa
            out = {"exc": exc_name(e), "msg": str(e)[:160]}
        order = []
        for pt in model.prior_tuples_ordered_by_id:
            order.append([k for k, q in enumerate(priors) if q is pt.prior][0])
        single = [guarded(lambda q=q, u=u: q.value_for(u, ignore_prior_limits=ignore)) for q, u in zip(priors, us)]
        return {"vector": out, "id_order": order, "single": single, "names": names,
                "prior_count": model.prior_count,
                "table": oracle.tables_for_vector(c["priors"], c["us"])}
    raise ValueError(c["kind"])


def main():
    cases = json.load(open(sys.argv[1]))["cases"]
    out = []
    for c in cases:
        try:
            out.append({"ok": run_case(c)})
        except BaseException as e:  # noqa
            import traceback
            out.append({"exc": exc_name(e), "msg": traceback.format_exc()[-600:]})
    json.dump({"results": out, "versions": oracle.versions()}, open(sys.argv[2], "w"))


main()
