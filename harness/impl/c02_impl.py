"""C02 implementation driver: runs the real prior code of /repo on abstract cases and
attaches the oracle tables of the special functions (c02_oracle, straight from scipy/numpy)."""
import json
import logging
import random
import sys

from vimpl_common import setup, hexf, unhex, exc_name

af, conf = setup()
logging.disable(logging.CRITICAL)

import c02_oracle as oracle  # noqa: E402


def make_prior(spec):
    fam = spec["family"]
    lo, hi = unhex(spec["lo"]), unhex(spec["hi"])
    if fam == "uniform":
        return af.UniformPrior(lower_limit=lo, upper_limit=hi)
    if fam == "loguniform":
        return af.LogUniformPrior(lower_limit=lo, upper_limit=hi)
    mean, sigma = unhex(spec["mean"]), unhex(spec["sigma"])
    if fam == "gaussian":
        return af.GaussianPrior(mean=mean, sigma=sigma, lower_limit=lo, upper_limit=hi)
    if fam == "loggaussian":
        return af.LogGaussianPrior(mean=mean, sigma=sigma, lower_limit=lo, upper_limit=hi)
    raise ValueError(fam)


def derive(p, spec, d):
    """Priors that were not built by their own constructor call (review item 4)."""
    import pickle
    from autofit.mapper.prior.abstract import Prior
    how = d["how"]
    if how == "with_limits":                       # instance method: keeps the message of p
        return p.with_limits(unhex(d["a"]), unhex(d["b"]))
    if how == "cls_with_limits":                   # GaussianPrior / LogUniformPrior override it as a classmethod
        return type(p).with_limits(unhex(d["a"]), unhex(d["b"]))
    if how == "new":
        return p.new()
    if how == "from_dict":
        return Prior.from_dict(p.dict())
    if how == "from_config_dict":                  # the shape prior config files have: no id
        dd = {k: v for k, v in p.dict().items() if k != "id"}
        return Prior.from_dict(dd)
    if how == "pickle":
        return pickle.loads(pickle.dumps(p))
    if how == "copy":
        import copy
        return copy.deepcopy(p)
    raise ValueError(how)


def describe(p):
    out = {"cls": type(p).__name__, "lo": hexf(p.lower_limit), "hi": hexf(p.upper_limit)}
    if type(p).__name__ in ("GaussianPrior", "LogGaussianPrior"):
        out["mean"], out["sigma"] = hexf(p.mean), hexf(p.sigma)
    return out


def unit_arg(o):
    u = unhex(o["u"])
    ut = o.get("ut")
    if ut == "int":
        return int(u)
    if ut == "np":
        import numpy as np
        return np.float64(u)
    return u


def guarded(f):
    try:
        v = f()
        return {"ok": hexf(v), "type": type(v).__name__}
    except BaseException as e:  # noqa
        return {"exc": exc_name(e), "msg": str(e)[:160]}


def run_obs(p, o):
    t = o["t"]
    if t == "value":
        if o.get("kw", True):
            return guarded(lambda: p.value_for(unit_arg(o), ignore_prior_limits=bool(o["ignore"])))
        assert not o["ignore"]
        return guarded(lambda: p.value_for(unit_arg(o)))          # default argument: limits enforced
    if t == "raw":
        return guarded(lambda: p.message.value_for(unhex(o["u"])))
    if t == "rt":
        r = guarded(lambda: p.value_for(unhex(o["u"]), ignore_prior_limits=True))
        if "ok" not in r:
            return r
        w = guarded(lambda: p.unit_value_for(unhex(r["ok"])))
        if "ok" not in w:
            return {"exc": w["exc"], "msg": w["msg"], "at": "unit_value_for"}
        return {"v": r["ok"], "w": w["ok"]}
    if t == "unit":
        return guarded(lambda: p.unit_value_for(unhex(o["x"])))
    if t == "limits":
        a = guarded(lambda: p.lower_unit_limit)
        b = guarded(lambda: p.upper_unit_limit)
        if "ok" in a and "ok" in b:
            return {"lower": a["ok"], "upper": b["ok"]}
        return a if "exc" in a else b
    if t == "random":
        rr = oracle.first_random(o["seed"])
        random.seed(o["seed"])
        if o.get("kw", True):
            r = guarded(lambda: p.random(lower_limit=unhex(o["l"]), upper_limit=unhex(o["u"])))
        else:
            assert unhex(o["l"]) == 0.0 and unhex(o["u"]) == 1.0
            r = guarded(lambda: p.random())                        # default arguments
        r["r"] = hexf(rr)
        return r
    raise ValueError(t)


def run_case(c):
    if c["kind"] == "prior":
        try:
            p = make_prior(c["prior"])
            if c.get("derived"):
                p = derive(p, c["prior"], c["derived"])
        except BaseException as e:  # noqa
            return {"ctor_exc": exc_name(e), "msg": str(e)[:160]}
        res = [run_obs(p, o) for o in c["obs"]]
        return {"obs": res, "described": describe(p),
                "table": oracle.tables_for_prior(c.get("msg_prior") or c["prior"], c["obs"], res, gate=c.get("gate_prior"))}
    if c["kind"] == "vector":
        try:
            priors = [make_prior(s) for s in c["priors"]]          # creation order = id order
        except BaseException as e:  # noqa
            return {"ctor_exc": exc_name(e), "msg": str(e)[:160]}
        names = ["p%02d" % k for k in c["attr_order"]]
        model = af.Collection(**{"p%02d" % k: priors[k] for k in c["attr_order"]})
        us = [unhex(u) for u in c["us"]]
        ignore = bool(c["ignore"])
        try:
            vec = model.vector_from_unit_vector(us, ignore_prior_limits=ignore)
            out = {"ok": [hexf(v) for v in vec]}
        except BaseException as e:  # noqa
            out = {"exc": exc_name(e), "msg": str(e)[:160]}
        order = []
        for pt in model.prior_tuples_ordered_by_id:
            order.append([k for k, q in enumerate(priors) if q is pt.prior][0])
        single = [guarded(lambda q=q, u=u: q.value_for(u, ignore_prior_limits=ignore)) for q, u in zip(priors, us)]
        return {"vector": out, "id_order": order, "single": single, "names": names,
                "prior_count": model.prior_count,
                "table": oracle.tables_for_vector(c["priors"], c["us"])}
    raise ValueError(c["kind"])


def main():
    cases = json.load(open(sys.argv[1]))["cases"]
    out = []
    for c in cases:
        try:
            out.append({"ok": run_case(c)})
        except BaseException as e:  # noqa
            import traceback
            out.append({"exc": exc_name(e), "msg": traceback.format_exc()[-600:]})
    json.dump({"results": out, "versions": oracle.versions()}, open(sys.argv[2], "w"))


main()
