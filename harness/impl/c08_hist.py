"""C08 write/read HISTORIES on one store object (imported by c08_impl.main for cases of kind "history").

One store (a db.Fit per slot living through sessions / a JSON file per slot / a pickle file per slot) is
written a model, read, written ANOTHER model, read again, ... Every read is observed with the values of the
model that the history says was written last to that slot (`cur`), so that the harness can state
"the read is equivalent to the model last written" with the same oracle as for a single trip.

`I` is the c08_impl module (build / observe / guarded)."""
import json
import os
import pickle

_n = [0]


def _prepare(I, mc):
    model, pool = I.build(mc)
    idmap = {int(p.id): i for i, p in enumerate(pool)}
    values = [I.unhex(v) for v in mc["values"]]
    _, occ0 = I.observe(model, None, None)
    vals_by_pos = [values[idmap[int(p.id)]] for p in occ0]
    pathvals = {}
    for path, prior in model.path_priors_tuples:
        pathvals[tuple(map(str, path))] = values[idmap[int(prior.id)]]
    return {"model": model, "vals": vals_by_pos, "pathvals": pathvals}


def _observe(I, model, ref):
    o, _ = I.observe(model, ref["vals"], ref["pathvals"])
    return o


class DbStore:
    def __init__(self, I, nslots, tag):
        self.I = I
        self.sa, self.db = I.sa, I.db
        _n[0] += 1
        self.path = os.path.join(I.SCRATCH, "hist_%d_%d.sqlite" % (os.getpid(), _n[0]))
        self.engine = self.sa.create_engine("sqlite:///" + self.path)
        self.db.Base.metadata.create_all(self.engine)
        self.session = self.sa.orm.sessionmaker(bind=self.engine)()
        self.fits = {}
        self.added = set()

    def new(self, slot, model=None):
        if model is None:
            self.fits[slot] = self.db.Fit(id="fit%d" % slot, is_complete=True)
        else:
            self.fits[slot] = self.db.Fit(id="fit%d" % slot, is_complete=True, model=model)

    def write(self, slot, model):
        self.fits[slot].model = model

    def read(self, slot):
        return self.fits[slot].model

    def op(self, name, slot=None):
        if name == "add":
            self.session.add(self.fits[slot])
            self.added.add(slot)
        elif name == "flush":
            self.session.flush()
        elif name == "commit":
            self.session.commit()
        elif name == "expire":
            self.session.commit()
            self.session.expire_all()
        elif name == "reopen":
            self.session.commit()
            self.session.close()
            self.engine.dispose()
            self.engine = self.sa.create_engine("sqlite:///" + self.path)
            self.session = self.sa.orm.sessionmaker(bind=self.engine)()
            for s in sorted(self.added):
                self.fits[s] = self.session.query(self.db.Fit).filter_by(id="fit%d" % s).one()
        else:
            raise ValueError(name)

    def close(self):
        try:
            self.session.close()
        finally:
            self.engine.dispose()
            if os.path.exists(self.path):
                os.remove(self.path)


class FileStore:
    """One JSON / pickle file per slot, rewritten at the same path."""
    def __init__(self, I, nslots, kind, variant):
        self.I, self.kind, self.variant = I, kind, variant
        _n[0] += 1
        ext = "json" if kind == "file" else "pickle"
        self.paths = {s: os.path.join(I.SCRATCH, "hist_%d_%d_%d.%s" % (os.getpid(), _n[0], s, ext)) for s in range(nslots)}

    def new(self, slot, model=None):
        if model is not None:
            self.write(slot, model)

    def write(self, slot, model):
        I = self.I
        if self.kind == "file":
            d = I.to_dict(model) if self.variant == "autoconf" else model.dict()
            with open(self.paths[slot], "w") as f:
                json.dump(d, f, indent=4)
        else:
            mod = I.dill if (self.variant == "dill" and I.dill is not None) else pickle
            with open(self.paths[slot], "wb") as f:
                mod.dump(model, f)

    def read(self, slot):
        I = self.I
        if self.kind == "file":
            if self.variant == "autoconf":
                with open(self.paths[slot]) as f:
                    return I.from_dict(json.load(f))
            return I.af.AbstractPriorModel.from_json(self.paths[slot])
        mod = I.dill if (self.variant == "dill" and I.dill is not None) else pickle
        with open(self.paths[slot], "rb") as f:
            return mod.load(f)

    def op(self, name, slot=None):
        pass                                    # add / flush / commit / reopen mean nothing for a file

    def close(self):
        for p in self.paths.values():
            if os.path.exists(p):
                os.remove(p)


def run_history(c, I):
    refs = [_prepare(I, mc) for mc in c["models"]]
    out = {"written": [_observe(I, r["model"], r) for r in refs], "reads": [], "events": []}
    nslots = c["slots"]
    store = DbStore(I, nslots, c["store"]) if c["store"] == "db" else FileStore(I, nslots, c["store"], c.get("variant"))
    cur = {}            # slot -> reference (values by position / by path) of the model the history wrote last
    revision = [0]
    try:
        for k, op in enumerate(c["ops"]):
            name = op[0]
            try:
                if name == "new":
                    slot, mk = op[1], op[2]
                    store.new(slot, None if mk is None else refs[mk]["model"])
                    if mk is not None:
                        cur[slot] = refs[mk]
                elif name == "write":
                    store.write(op[1], refs[op[2]]["model"])
                    cur[op[1]] = refs[op[2]]
                elif name == "touch":
                    # the caller's own model object k is revised in place and NOT written: every slot keeps what it was given
                    revision[0] += 1
                    setattr(refs[op[2]]["model"], "rev%d" % revision[0], revision[0] + 0.5)
                    out["written"].append(_observe(I, refs[op[2]]["model"], refs[op[2]]))
                elif name == "scribble":
                    # the caller changes the model it READ and does not write it back: the store keeps what was written
                    m = store.read(op[1])
                    if m is None:
                        out["reads"].append({"op": k, "slot": op[1], "none": True})
                        break
                    out["reads"].append({"op": k, "slot": op[1], "obs": _observe(I, m, cur[op[1]])})
                    setattr(m, "scribble", 9.5)
                elif name == "amend":
                    # the caller's OWN model object k is revised in place (one more fixed value on its root) and
                    # written again: the same Python object now denotes another model
                    revision[0] += 1
                    setattr(refs[op[2]]["model"], "rev%d" % revision[0], revision[0] + 0.5)
                    out["written"].append(_observe(I, refs[op[2]]["model"], refs[op[2]]))
                    store.write(op[1], refs[op[2]]["model"])
                    cur[op[1]] = refs[op[2]]
                elif name in ("writeback", "revise"):
                    # a model taken from the store and written back, as it is or revised (one more fixed value on its
                    # root); the model read is observed (it is a read), what is written is recorded at write time
                    m = store.read(op[1])
                    if m is None:
                        out["reads"].append({"op": k, "slot": op[1], "none": True})
                        break
                    out["reads"].append({"op": k, "slot": op[1], "obs": _observe(I, m, cur[op[1]])})
                    ref = dict(cur[op[1]], model=m)
                    if name == "revise":
                        revision[0] += 1
                        setattr(m, "rev%d" % revision[0], revision[0] + 0.5)
                        cur[op[1]] = ref
                    out["written"].append(_observe(I, m, ref))
                    store.write(op[1], m)
                elif name == "read":
                    m = store.read(op[1])
                    if m is None:
                        out["reads"].append({"op": k, "slot": op[1], "none": True})
                    else:
                        out["reads"].append({"op": k, "slot": op[1], "obs": _observe(I, m, cur[op[1]])})
                else:
                    store.op(name, op[1] if len(op) > 1 else None)
            except BaseException as e:  # noqa
                import traceback
                out["reads"].append({"op": k, "slot": op[1] if len(op) > 1 else None, "exc": type(e).__name__,
                                     "msg": str(e)[:200], "tb": traceback.format_exc()[-500:]})
                break
    finally:
        store.close()
    return out
