"""C17 implementation driver: runs the real message classes on abstract cases.

Three kinds of case:
  alg   an environment of messages (base families or transformed) and a list of named abstract
        expressions; every expression is interpreted against the real API
  proj  cls.project / TransformedMessage.project on given samples and log-weights
  dens  numerical facts about the reported density (quadrature, CDF slope, moments, ppf/cdf inverse)

Besides the observables the driver returns the ORACLE TABLES the Coq model needs for functions that
are not IEEE-exact (C pow, log, exp, log1p, invpsilog, inv_beta_suffstats).  Table values are computed
here directly from the libraries on keys derived by an independent sequential re-computation
(`mirror_*`), never by reading values out of the message classes.
"""
import json
import math
import sys
import warnings

from vimpl_common import setup, hexf, unhex, exc_name

af, conf = setup()
warnings.filterwarnings("ignore")

import numpy as np
from scipy import integrate, special

np.seterr(all="ignore")

from autofit.messages.abstract import AbstractMessage
from autofit.messages.normal import NormalMessage, NaturalNormal, UniformNormalMessage
from autofit.messages.gamma import GammaMessage
from autofit.messages.beta import BetaMessage, inv_beta_suffstats
from autofit.messages.fixed import FixedMessage
from autofit.messages.utils import invpsilog
from autofit.messages.composed_transform import TransformedMessage
from autofit.messages import transform as tr

FAMS = {"normal": NormalMessage, "natural": NaturalNormal, "gamma": GammaMessage, "beta": BetaMessage,
        "fixed": FixedMessage}
FAM_OF = {v.__name__: k for k, v in FAMS.items()}


# --------------------------------------------------------------------------- construction
def arr(hexes, scalar):
    vals = [unhex(h) for h in hexes]
    return vals[0] if scalar else np.array(vals, dtype=float)


def build_transform(t):
    if t[0] == "phi":
        return tr.phi_transform
    if t[0] == "log":
        return tr.log_transform
    if t[0] == "log10":
        return tr.log_10_transform
    if t[0] == "exp":
        return tr.exp_transform
    if t[0] == "shift":
        return tr.LinearShiftTransform(shift=unhex(t[1]), scale=unhex(t[2]))
    raise ValueError(t)


def build_base(spec):
    cls = FAMS[spec["fam"]]
    params = [arr(p, spec["scalar"]) for p in spec["params"]]
    if spec.get("shape"):
        params = [np.reshape(p, spec["shape"]) for p in params]
    return cls(*params, log_norm=unhex(spec["log_norm"]), id_=spec["id"],
               lower_limit=unhex(spec["lo"]), upper_limit=unhex(spec["hi"]))


def build(spec):
    ctor = spec.get("ctor")
    if ctor == "uniform_prior":
        return af.UniformPrior(unhex(spec["a"]), unhex(spec["b"])).message
    if ctor == "log_uniform_prior":
        return af.LogUniformPrior(unhex(spec["a"]), unhex(spec["b"])).message
    if ctor == "log_gaussian_prior":
        return af.LogGaussianPrior(unhex(spec["a"]), unhex(spec["b"])).message
    if ctor == "gaussian_prior":
        return af.GaussianPrior(unhex(spec["a"]), unhex(spec["b"]), unhex(spec["lo"]), unhex(spec["hi"])).message
    base = build_base(spec)
    t = spec.get("t")
    if t is None:
        return base
    return TransformedMessage(base, *[build_transform(x) for x in t["stack"]], id_=t["id"],
                              lower_limit=unhex(t["lo"]), upper_limit=unhex(t["hi"]))


# --------------------------------------------------------------------------- description
def describe_transform(t):
    if t is tr.phi_transform:
        return ["phi"]
    if t is tr.log_transform:
        return ["log"]
    if t is tr.log_10_transform:
        return ["log10"]
    if t is tr.exp_transform:
        return ["exp"]
    if isinstance(t, tr.LinearShiftTransform):
        return ["shift", hexf(t.shift), hexf(t.scale)]
    return ["other", type(t).__name__]


def cols(params):
    """tuple of k parameters (scalars or arrays of length n) -> n rows of k hex strings"""
    ps = [np.atleast_1d(np.asarray(p, dtype=float)).ravel() for p in params]
    n = max(len(p) for p in ps)
    return [[hexf(p[i] if len(p) > 1 or n == 1 else p[0]) for p in ps] for i in range(n)]


def lognorm_hex(x):
    x = np.asarray(x, dtype=float)
    return hexf(x) if x.shape == () else [hexf(v) for v in x.ravel()]


def describe(m):
    if isinstance(m, TransformedMessage):
        return {"t": {"stack": [describe_transform(t) for t in m.transforms], "id": m.id,
                      "lo": hexf(m.lower_limit), "hi": hexf(m.upper_limit)},
                "base": describe(m.base_message)}
    nat = None
    try:
        nat = cols(tuple(np.asarray(m.natural_parameters, dtype=float)))
    except Exception:  # noqa
        pass
    try:
        valid = bool(np.all(m.is_valid))
    except Exception:  # noqa
        valid = False
    return {"cls": type(m).__name__, "fam": FAM_OF.get(type(m).__name__), "scalar": m.shape == (),
            "shape": list(m.shape), "elems": cols(m.parameters), "log_norm": lognorm_hex(m.log_norm),
            "id": m.id, "lo": hexf(m.lower_limit), "hi": hexf(m.upper_limit), "nat": nat, "valid": valid}


# --------------------------------------------------------------------------- alg
class Tables:
    def __init__(self):
        self.sq, self.log, self.exp, self.log1p, self.ipl, self.ib = {}, {}, {}, {}, {}, {}
        self.log10, self.ndtri, self.normpdf = {}, {}, {}
        self.gammaln, self.betaln = {}, {}
        self.ipl_exact = {}

    def note_message(self, m):
        """every sigma of a scalar NormalMessage may be squared by calc_natural_parameters"""
        b = m.base_message if isinstance(m, TransformedMessage) else m
        if type(b) is NormalMessage and b.shape == ():
            self.add_sq(float(b.parameters[1]))

    def add_sq(self, x):
        self.sq[hexf(x)] = hexf(float(x) ** 2)           # C pow, as float.__pow__ / np.float64.__pow__

    def add_log(self, x):
        self.log[hexf(x)] = hexf(np.log(float(x)))

    def add_exp(self, x):
        self.exp[hexf(x)] = hexf(np.exp(float(x)))

    def add_log1p(self, x):
        self.log1p[hexf(x)] = hexf(np.log1p(float(x)))

    def dump(self):
        return {"sq": sorted(self.sq.items()), "log": sorted(self.log.items()), "exp": sorted(self.exp.items()),
                "log1p": sorted(self.log1p.items()), "ipl": sorted(self.ipl.items()),
                "ib": [[k[0], k[1], v[0], v[1]] for k, v in sorted(self.ib.items())],
                "log10": sorted(self.log10.items()), "ndtri": sorted(self.ndtri.items()),
                "normpdf": sorted(self.normpdf.items()), "gammaln": sorted(self.gammaln.items()),
                "ipl_exact": [[k, v[0], v[1]] for k, v in sorted(self.ipl_exact.items())],
                "betaln": [[k[0], k[1], v] for k, v in sorted(self.betaln.items())]}


def evaluate(e, env, tabs):
    op = e[0]
    if op == "var":
        r = env[e[1]]
    elif op == "mul":
        r = evaluate(e[1], env, tabs) * evaluate(e[2], env, tabs)
    elif op == "div":
        r = evaluate(e[1], env, tabs) / evaluate(e[2], env, tabs)
    elif op == "pow":
        r = evaluate(e[1], env, tabs) ** unhex(e[2])
    elif op == "smul":
        tabs.add_log(unhex(e[2]))
        r = evaluate(e[1], env, tabs) * unhex(e[2])
    elif op == "rmul":
        tabs.add_log(unhex(e[2]))
        r = unhex(e[2]) * evaluate(e[1], env, tabs)
    elif op == "sdiv":
        tabs.add_log(unhex(e[2]))
        r = evaluate(e[1], env, tabs) / unhex(e[2])
    elif op == "sum3":
        r = evaluate(e[1], env, tabs).sum_natural_parameters(evaluate(e[2], env, tabs), evaluate(e[3], env, tabs))
    elif op == "sum3n":
        r = evaluate(e[1], env, tabs).sum_natural_parameters([evaluate(e[2], env, tabs), evaluate(e[3], env, tabs)])
    elif op == "zeros":
        r = evaluate(e[1], env, tabs).zeros_like()
    elif op == "fromnat":
        x = evaluate(e[1], env, tabs)
        b = x.base_message if isinstance(x, TransformedMessage) else x
        r = x.from_natural_parameters(x.natural_parameters, log_norm=b.log_norm, id_=b.id,
                                      lower_limit=b.lower_limit, upper_limit=b.upper_limit)
    else:
        raise ValueError(op)
    tabs.note_message(r)
    return r


def run_alg(c):
    env = [build(s) for s in c["env"]]
    out = {"env": [describe(m) for m in env], "results": {}}
    tabs = Tables()
    for m in env:
        tabs.note_message(m)
    for name, e in c["exprs"]:
        try:
            r = evaluate(e, env, tabs)
            out["results"][name] = {"ok": describe(r)}
        except BaseException as ex:  # noqa
            out["results"][name] = {"exc": exc_name(ex), "msg": str(ex)[:200]}
    out["tabs"] = tabs.dump()
    return out


# --------------------------------------------------------------------------- proj
def exact_invpsilog(c):
    """independent solution of digamma(x) - log(x) = c (bracketing root finder in log x, to machine precision)"""
    from scipy import optimize
    try:
        la = optimize.brentq(lambda t: float(special.digamma(math.exp(t))) - t - c, -40.0, 40.0, xtol=1e-15, rtol=1e-15)
        return math.exp(la)
    except (ValueError, OverflowError):
        return float("nan")


def mirror_project(fam, scalar, X, LW, tabs):
    """Independent sequential re-computation of AbstractMessage.project for key derivation only.
    X, LW: n x d python floats.  Returns nothing; fills the oracle tables."""
    n, d = len(X), len(X[0])
    s1s, s2s = [], []
    for j in range(d):
        xs = [X[i][j] for i in range(n)]
        lws = [LW[i][j] for i in range(n)]
        wmax = max(lws)
        for l in lws:
            tabs.add_exp(l - wmax)
        w = [float(np.exp(l - wmax)) for l in lws]
        s = 0.0
        for v in w:
            s += v
        norm = s / n
        tabs.add_log(norm)
        w = [v / norm for v in w]
        if fam in ("normal", "natural"):
            t = [xs, [x * x for x in xs]]
        elif fam == "gamma":
            for x in xs:
                tabs.add_log(x)
            t = [[float(np.log(x)) for x in xs], xs]
        else:
            for x in xs:
                tabs.add_log(x)
                tabs.add_log1p(-x)
            t = [[float(np.log(x)) for x in xs], [float(np.log1p(-x)) for x in xs]]
        st = []
        for comp in t:
            s = 0.0
            for a, b in zip(comp, w):
                s += a * b
            st.append(s / n)
        s1s.append(st[0])
        s2s.append(st[1])
        if fam in ("normal", "natural"):
            if scalar:
                tabs.add_sq(st[0])
            if fam == "normal" and scalar:
                sig = math.sqrt(st[1] - float(st[0]) ** 2) if st[1] - float(st[0]) ** 2 >= 0 else float("nan")
                tabs.add_sq(sig)
        elif fam == "gamma":
            tabs.add_log(st[1])
    if fam == "gamma":
        cs = [a - float(np.log(b)) for a, b in zip(s1s, s2s)]
        try:
            vals = invpsilog(np.float64(cs[0])) if scalar else invpsilog(np.array(cs))
            vals = np.atleast_1d(vals)
            for cc, v in zip(cs, vals):
                tabs.ipl[hexf(cc)] = hexf(v)
                ex = exact_invpsilog(cc)
                # conditioning: an error of a few ulp of log(x) in digamma(x) - log(x) moves the root by that / (x |c'(x)|)
                cond = 1.0 / (ex * abs(float(special.polygamma(1, ex)) - 1.0 / ex)) if ex == ex and ex > 0 else 1.0
                tabs.ipl_exact[hexf(cc)] = [hexf(ex), hexf(1e-11 + 200 * 2.3e-16 * max(1.0, abs(math.log(ex)) if ex > 0 else 1.0) * cond)]
        except ValueError:
            pass
    if fam == "beta":
        try:
            if scalar:
                a, b = inv_beta_suffstats(np.float64(s1s[0]), np.float64(s2s[0]))
                a, b = [a], [b]
            else:
                a, b = inv_beta_suffstats(np.array(s1s), np.array(s2s))
            for k1, k2, va, vb in zip(s1s, s2s, a, b):
                tabs.ib[(hexf(k1), hexf(k2))] = (hexf(va), hexf(vb))
        except ValueError:
            pass   # the Newton step of inv_beta_suffstats does not run with this numpy: no oracle values


def run_proj(c):
    fam, scalar = c["fam"], c["scalar"]
    X = [[unhex(h) for h in row] for row in c["samples"]]
    LW = None if c["log_weights"] is None else [[unhex(h) for h in row] for row in c["log_weights"]]
    samples = np.array([r[0] for r in X]) if scalar else np.array(X)
    lw = None if LW is None else (np.array([r[0] for r in LW]) if scalar else np.array(LW))
    tabs = Tables()
    mirror_project(fam, scalar, X, LW if LW is not None else [[0.0] * len(X[0]) for _ in X], tabs)
    if c.get("t") is not None:
        # tables for the images of the samples in the base space (used by the model variant in which
        # TransformedMessage.project transforms its samples); raw samples outside the domain of a transform give nan
        try:
            TX = [[mirror_tdet(c["t"]["stack"], v, tabs) for v in row] for row in X]
            if all(math.isfinite(v) for row in TX for v in row):
                mirror_project(fam, scalar, TX, LW if LW is not None else [[0.0] * len(X[0]) for _ in X], tabs)
        except (ValueError, ZeroDivisionError, OverflowError, FloatingPointError):
            pass
    cls = FAMS[fam]
    out = {}
    try:
        if c.get("t") is None:
            r = cls.project(samples, lw, id_=c["id"], lower_limit=unhex(c["lo"]), upper_limit=unhex(c["hi"]))
        else:
            base = build_base(c["base"])
            t = c["t"]
            tm = TransformedMessage(base, *[build_transform(x) for x in t["stack"]], id_=t["id"],
                                    lower_limit=unhex(t["lo"]), upper_limit=unhex(t["hi"]))
            if lw is None:
                lw = np.zeros_like(samples)
            r = tm.project(samples, lw, id_=c["id"], lower_limit=unhex(c["lo"]), upper_limit=unhex(c["hi"]))
            # the statistics the projected member should reproduce live in the base space
            out["base_samples"] = [[hexf(v) for v in np.atleast_1d(row)] for row in np.asarray(tm._transform(samples))]
        out["ok"] = describe(r)
        b = r.base_message if isinstance(r, TransformedMessage) else r
        # expected sufficient statistics of the returned member, from its parameters (closed forms)
        p = [np.atleast_1d(np.asarray(x, dtype=float)) for x in b.parameters]
        if fam == "normal":
            ex = [p[0], p[0] ** 2 + p[1] ** 2]
        elif fam == "natural":
            var = -0.5 / p[1]
            mu = -0.5 * p[0] / p[1]
            ex = [mu, mu ** 2 + var]
        elif fam == "gamma":
            ex = [special.digamma(p[0]) - np.log(p[1]), p[0] / p[1]]
        else:
            ex = [special.digamma(p[0]) - special.digamma(p[0] + p[1]), special.digamma(p[1]) - special.digamma(p[0] + p[1])]
        out["member_stats"] = [[hexf(v) for v in e] for e in ex]
        if fam == "beta" and c.get("t") is None:
            out["newton5"] = beta_newton5(X, LW)
    except BaseException as ex:  # noqa
        out["exc"] = exc_name(ex)
        out["msg"] = str(ex)[:200]
    out["tabs"] = tabs.dump()
    return out


def beta_newton5(X, LW):
    """Independent re-run (scalar arithmetic, no library code) of the iteration inv_beta_suffstats documents: start
    max(1, (1 + G/(1 - sum G))/2) with G = exp(target statistics), five Newton steps on digamma(a) - digamma(a+b) = t0,
    digamma(b) - digamma(a+b) = t1.  Used only to recognise the known finding `beta-newton-leaves-domain`: the class is
    given when THIS prediction has a non-positive component and the library returned exactly these parameters."""
    pred = []
    n, dcols = len(X), len(X[0])
    for j in range(dcols):
        lws = [0.0] * n if LW is None else [LW[i][j] for i in range(n)]
        m = max(lws)
        w = [math.exp(l - m) for l in lws]
        sw = math.fsum(w)
        t0 = math.fsum(wi * math.log(X[i][j]) for i, wi in enumerate(w)) / sw
        t1 = math.fsum(wi * math.log1p(-X[i][j]) for i, wi in enumerate(w)) / sw
        g0, g1 = math.exp(t0), math.exp(t1)
        dg = 1 - (g0 + g1)
        a, b = max(1.0, (1 + g0 / dg) / 2), max(1.0, (1 + g1 / dg) / 2)
        ok = True
        for _ in range(5):
            try:
                pab = float(special.digamma(a + b)); p1ab = float(special.polygamma(1, a + b))
                f0 = float(special.digamma(a)) - pab - t0
                f1 = float(special.digamma(b)) - pab - t1
                j00 = float(special.polygamma(1, a)) - p1ab; j11 = float(special.polygamma(1, b)) - p1ab; j01 = -p1ab
                det = j00 * j11 - j01 * j01
                a, b = a - (j11 * f0 - j01 * f1) / det, b - (j00 * f1 - j01 * f0) / det
            except (ZeroDivisionError, OverflowError, ValueError):
                ok = False
                break
        pred.append([hexf(a), hexf(b)] if ok and math.isfinite(a) and math.isfinite(b) else None)
    return pred


# --------------------------------------------------------------------------- dens
from scipy import stats


def base_dist(b):
    """scipy.stats distribution with the parameters of a base message (independent oracle for quantiles)"""
    if type(b) is NaturalNormal:
        e1, e2 = [float(x) for x in b.parameters]
        return stats.norm(loc=-e1 / (2 * e2), scale=math.sqrt(-1 / (2 * e2)))
    if type(b) is NormalMessage:
        return stats.norm(loc=float(b.parameters[0]), scale=float(b.parameters[1]))
    if type(b) is GammaMessage:
        return stats.gamma(a=float(b.parameters[0]), scale=1 / float(b.parameters[1]))
    if type(b) is BetaMessage:
        return stats.beta(a=float(b.parameters[0]), b=float(b.parameters[1]))
    raise ValueError(type(b).__name__)


QS = [1e-14, 1e-9, 1e-5, 1e-3, 0.01, 0.05, 0.15, 0.3, 0.5, 0.7, 0.85, 0.95, 0.99, 1 - 1e-3, 1 - 1e-5, 1 - 1e-9, 1 - 1e-14]


def integ(f, lo, hi, breaks):
    pts = sorted(set([lo, hi] + [b for b in breaks if lo < b < hi]))
    tot = 0.0
    for a, b in zip(pts, pts[1:]):
        v, _ = integrate.quad(f, a, b, limit=200, epsabs=1e-13, epsrel=1e-11)
        tot += float(v)
    return tot


def chain(stack, x):
    """independent evaluation of a transform stack at x: (T x, log T'(x)), libraries only"""
    from scipy.special import ndtri as sp_ndtri
    x = np.asarray(x, dtype=float)
    ld = np.zeros_like(x)
    for t in reversed(stack):
        if t[0] == "shift":
            ld = ld - np.log(unhex(t[2]))
            x = (x - unhex(t[1])) / unhex(t[2])
        elif t[0] == "log":
            ld = ld - np.log(x)
            x = np.log(x)
        elif t[0] == "exp":
            ld = ld + x
            x = np.exp(x)
        elif t[0] == "log10":
            ld = ld - np.log(x) - np.log(np.log(10.0))
            x = np.log10(x)
        elif t[0] == "phi":
            y = sp_ndtri(x)
            ld = ld - stats.norm.logpdf(y)
            x = y
    return x, ld


def first_order_moments(stack, mean, var):
    """the delta-method values TransformedMessage.mean / .variance are documented to return: the base mean pushed
    through the inverse transforms, the variance divided by the squared slope of each transform at the new mean"""
    from scipy.special import ndtr, ndtri as sp_ndtri
    for t in stack:
        if t[0] == "shift":
            mean = mean * unhex(t[2]) + unhex(t[1])
            d = 1 / unhex(t[2])
        elif t[0] == "log":
            mean = math.exp(mean)
            d = 1 / mean
        elif t[0] == "exp":
            mean = math.log(mean)
            d = math.exp(mean)
        elif t[0] == "log10":
            mean = 10.0 ** mean
            d = 1 / mean / math.log(10.0)
        elif t[0] == "phi":
            mean = float(ndtr(mean))
            d = 1 / float(stats.norm.pdf(sp_ndtri(mean)))
        var = var / d / d
    return mean, var


def run_dens(c):
    m = build(c["msg"])
    out = {"desc": describe(m)}
    transformed = isinstance(m, TransformedMessage)
    b = m.base_message if transformed else m
    dist = base_dist(b)
    inv = (lambda v: float(m._inverse_transform(np.float64(v)))) if transformed else float
    lo, hi = [float(v) for v in m._support[0]]
    out["support"] = [hexf(lo), hexf(hi)]
    breaks = [inv(dist.ppf(q)) for q in QS]
    breaks = [v for v in breaks if math.isfinite(v)]
    xs = [inv(dist.ppf(q)) for q in c["q"]]
    out["points"] = [hexf(x) for x in xs]

    def dens_of(kind):
        if kind == "pdf":
            return lambda x: float(m.pdf(x))
        return lambda x: float(np.exp(np.nan_to_num(m.factor(x), nan=-np.inf)))

    for kind in (["pdf", "factor"] if transformed else ["pdf"]):
        f = dens_of(kind)
        try:
            z = integ(f, lo, hi, breaks)
            m1 = integ(lambda x: x * f(x), lo, hi, breaks) / z
            v = integ(lambda x: (x - m1) ** 2 * f(x), lo, hi, breaks) / z
            out[kind] = {"norm": hexf(z), "mean": hexf(m1), "var": hexf(v), "at": [hexf(f(x)) for x in xs]}
        except BaseException as ex:  # noqa
            out[kind] = {"exc": exc_name(ex), "msg": str(ex)[:200]}
    try:
        out["mean"] = hexf(m.mean)
        out["variance"] = hexf(m.variance)
    except BaseException as ex:  # noqa
        out["mean_exc"] = exc_name(ex)
    # pointwise: what logpdf reports vs the library density of the base at T x, and the log-determinant
    stack = out["desc"]["t"]["stack"] if transformed else []
    try:
        ys, lds = chain(stack, np.array(xs))
        out["lp_points"] = [hexf(m.logpdf(x)) for x in xs]
        out["lp_base_at_Tx"] = [hexf(v) for v in dist.logpdf(ys)]
        out["lp_logdet"] = [hexf(v) for v in lds]
        if transformed:
            pm, pv = first_order_moments(stack, float(dist.mean()), float(dist.var()))
            out["first_order_mean"], out["first_order_var"] = hexf(pm), hexf(pv)
    except BaseException as ex:  # noqa
        out["lp_exc"] = exc_name(ex) + ": " + str(ex)[:200]
    if hasattr(m, "cdf"):
        try:
            f = dens_of("factor" if transformed else "pdf")
            out["cdf"] = [hexf(m.cdf(x)) for x in xs]
            out["cdf_lo"] = hexf(0.0)
            hs = [1e-5 * max(1.0, abs(x)) for x in xs]
            out["cdf_slope"] = [hexf((float(m.cdf(x + h)) - float(m.cdf(x - h))) / (2 * h)) for x, h in zip(xs, hs)]
            out["value_for_cdf"] = [hexf(m.value_for(float(m.cdf(x)))) for x in xs]
            out["cdf_integral"] = [hexf(integ(f, lo, x, breaks)) for x in xs]
        except BaseException as ex:  # noqa
            out["cdf_exc"] = exc_name(ex) + ": " + str(ex)[:200]
    return out


# --------------------------------------------------------------------------- det
def mirror_tdet(stack, x, tabs):
    """independent sequential re-computation of _transform_det for key derivation; values from the libraries"""
    from scipy.special import ndtri as sp_ndtri
    from scipy.stats._continuous_distns import _norm_pdf
    x = float(x)
    for t in reversed(stack):
        if t[0] == "shift":
            tabs.add_log(unhex(t[2]))
            x = (x - unhex(t[1])) / unhex(t[2])
        elif t[0] == "log":
            tabs.add_log(x)
            tabs.add_log(1 / x)
            x = float(np.log(x))
        elif t[0] == "exp":
            tabs.add_exp(x)
            e = float(np.exp(x))
            tabs.add_log(e)
            x = e
        elif t[0] == "log10":
            tabs.log10[hexf(x)] = hexf(np.log10(x))
            tabs.add_log(10.0)
            tabs.add_log((1 / x) / float(np.log(10)))
            x = float(np.log10(x))
        elif t[0] == "phi":
            f = float(sp_ndtri(x))
            tabs.ndtri[hexf(x)] = hexf(f)
            pdf = float(_norm_pdf(f))
            tabs.normpdf[hexf(f)] = hexf(pdf)
            tabs.add_log(1 / pdf)
            x = f
    return x


def run_det(c):
    m = build(c["msg"])
    dist = base_dist(m.base_message)
    out = {"desc": describe(m), "points": [], "y": [], "logd": [], "factor": [], "base_lp": [], "fd_logd": []}
    tabs = Tables()
    stack = out["desc"]["t"]["stack"]
    lo, hi = [float(v) for v in m._support[0]]
    for q in c["q"]:
        x = float(m._inverse_transform(np.float64(dist.ppf(q))))
        mirror_tdet(stack, x, tabs)
        y, logd = m._transform_det(x)
        out["points"].append(hexf(x))
        out["y"].append(hexf(y))
        out["logd"].append(hexf(logd))
        out["factor"].append(hexf(m.factor(x)))
        out["base_lp"].append(hexf(m.base_message.logpdf(y)))
        cy, cld = chain(stack, x)
        out.setdefault("lib_lp", []).append(hexf(dist.logpdf(float(cy))))
        out.setdefault("lib_logd", []).append(hexf(float(cld)))
        # independent estimate of log T'(x) by a central difference of the transform itself
        h = 1e-6 * (min(x - lo, hi - x) if math.isfinite(lo) and math.isfinite(hi) else (x - lo if math.isfinite(lo) else max(1.0, abs(x))))
        d = (float(m._transform(x + h)) - float(m._transform(x - h))) / (2 * h)
        out["fd_logd"].append(hexf(math.log(d)) if d > 0 else "nan")
    out["tabs"] = tabs.dump()
    return out


# --------------------------------------------------------------------------- hist
QUERIES = ["natural_parameters", "log_partition", "variance", "std", "scale", "mean", "sigma", "is_valid"]


def hexarr(v):
    a = np.asarray(v)
    if a.dtype == bool:
        return [bool(x) for x in a.ravel()]
    return [hexf(x) for x in np.asarray(a, dtype=float).ravel()]


def query_all(m, x):
    out = {"parameters": [hexarr(p) for p in m.parameters]}
    for q in QUERIES:
        if hasattr(type(m), q) or hasattr(m, q):
            try:
                out[q] = hexarr(getattr(m, q))
            except BaseException as ex:  # noqa
                out[q] = "exc:" + exc_name(ex)
    for q in ("logpdf", "pdf"):
        try:
            out[q] = hexarr(getattr(m, q)(x))
        except BaseException as ex:  # noqa
            out[q] = "exc:" + exc_name(ex)
    if hasattr(m, "cdf") and np.ndim(x) == 1:
        # the quantile / cdf pair on the array route and with one float for all elements (sweep class 1: use - change - use again)
        units = np.array([(5 + 7 * j) % 29 / 32.0 + 1 / 64.0 for j in range(len(x))])
        for q, f in (("cdf", lambda: m.cdf(x)), ("value_for", lambda: m.value_for(units)),
                     ("value_for_float", lambda: m.value_for(0.25)), ("ppf", lambda: m.ppf(units)),
                     ("cdf_value_for", lambda: m.cdf(m.value_for(units)))):
            try:
                out[q] = hexarr(f())
            except BaseException as ex:  # noqa
                out[q] = "exc:" + exc_name(ex)
    try:
        out["check_valid"] = hexarr(m.check_valid())
    except BaseException as ex:  # noqa
        out["check_valid"] = "exc:" + exc_name(ex)
    return out


def fresh_copy(m):
    return type(m)(*[np.array(p, dtype=float, copy=True) for p in m.parameters], log_norm=m.log_norm, id_=m.id,
                   lower_limit=m.lower_limit, upper_limit=m.upper_limit)


def run_hist(c):
    m = build_base(c["msg"])
    x = np.array([unhex(h) for h in c["x"]], dtype=float)
    stages = []

    def observe():
        got = query_all(m, x)            # the long-lived, mutated message (fills its caches)
        again = query_all(m, x)          # a second read of the same state
        stages.append({"live": got, "again": again, "fresh": query_all(fresh_copy(m), x),
                       "meta": [m.id, hexf(m.lower_limit), hexf(m.upper_limit), hexf(m.log_norm), list(m.shape)]})

    observe()
    for i, vspec in c["steps"]:
        if isinstance(i, list):
            idx = slice(i[1], i[2]) if i[0] == "slice" else np.array(i[1:], dtype=int)
        else:
            idx = i
        m[idx] = build_base(vspec)
        observe()
    return {"stages": stages}


# --------------------------------------------------------------------------- lpdf
def sq_of(x, scalar):
    return float(x) ** 2 if scalar else float(x) * float(x)


def mirror_logpdf(fam, scalar, x_scalar, elem, x, tabs):
    """independent sequential re-computation of natural_logpdf for one element / one point: fills the tables"""
    p = [float(v) for v in elem]
    x = float(x)
    if fam in ("normal", "natural"):
        if fam == "normal":
            if scalar:
                tabs.add_sq(p[1])
            prec = 1 / sq_of(p[1], scalar)
            e1, e2 = p[0] * prec, -prec / 2
        else:
            e1, e2 = p
        if scalar:
            tabs.add_sq(e1)
        if x_scalar:
            tabs.add_sq(x)
        tabs.add_log(-2.0 * e2)
    elif fam == "gamma":
        a, b = (p[0] - 1.0) + 1.0, -(-p[1])
        tabs.gammaln[hexf(a)] = hexf(special.gammaln(a))
        tabs.add_log(b)
        tabs.add_log(x)
    else:
        tabs.betaln[(hexf(p[0]), hexf(p[1]))] = hexf(special.betaln(p[0], p[1]))
        tabs.add_log(x)
        tabs.add_log1p(-x)


def run_lpdf(c):
    fam, scalar = c["fam"], c["scalar"]
    m = build(c["msg"])
    transformed = isinstance(m, TransformedMessage)
    b = m.base_message if transformed else m
    rows = [[unhex(h) for h in row] for row in c["x"]]
    if c["x_scalar"]:
        x = rows[0][0]
    elif c["batch"]:
        x = np.array([r[0] for r in rows]) if scalar else np.array(rows)
    else:
        x = np.array(rows[0])
    out = {"desc": describe(m)}
    elems = out["desc"]["base"]["elems"] if transformed else out["desc"]["elems"]
    n = len(elems)
    stack = out["desc"]["t"]["stack"] if transformed else []

    def flat(v):
        a = np.asarray(v, dtype=float)
        return [[hexf(z) for z in r] for r in a.reshape(len(rows), n)]

    def lib():   # library density of each element at T x, and log T'(x)
        lp, ld = [], []
        for r in rows:
            lr, dr = [], []
            for j, xv in enumerate(r):
                cls = type(b)
                one = cls(*[unhex(h) for h in elems[j]])
                y, d = chain(stack, xv)
                lr.append(hexf(base_dist(one).logpdf(float(y))))
                dr.append(hexf(float(d)))
            lp.append(lr)
            ld.append(dr)
        return lp, ld

    out["lib_lp"], out["lib_logd"] = lib()
    for q in (["logpdf", "pdf"] + (["factor"] if transformed else [])):
        try:
            out[q] = flat(getattr(m, q)(x))
        except BaseException as ex:  # noqa
            out[q] = "exc:" + exc_name(ex) + ": " + str(ex)[:150]
    if transformed:
        try:
            y, logd = m._transform_det(x)
            out["tdet_y"], out["tdet_logd"] = flat(y), flat(logd * np.ones_like(np.asarray(x, dtype=float)))
        except BaseException as ex:  # noqa
            out["tdet_y"] = "exc:" + exc_name(ex) + ": " + str(ex)[:150]
    tabs = Tables()
    if not transformed:
        for r in rows:
            for j, xv in enumerate(r):
                mirror_logpdf(fam, scalar, c["x_scalar"], [unhex(h) for h in elems[j]], xv, tabs)
    out["tabs"] = tabs.dump()
    return out


# --------------------------------------------------------------------------- mixed shapes
def run_mixedparam(c):
    """one message whose parameters have different shapes (np.broadcast in __init__ accepts them)"""
    cls = FAMS[c["fam"]]
    args = [arr(p, len(p) == 1) for p in c["params"]]
    n = max(len(p) for p in c["params"])
    full = [np.array([unhex(h) for h in (p if len(p) == n else p * n)], dtype=float) for p in c["params"]]
    x = np.array([unhex(h) for h in c["x"]], dtype=float)
    out = {}
    ref = cls(*full)
    out["ref"] = {"nat": hexarr(ref.natural_parameters), "logpdf": hexarr(ref.logpdf(x)), "shape": list(ref.shape)}
    try:
        m = cls(*args)
        out["shape"] = list(m.shape)
    except BaseException as ex:  # noqa
        out["ctor_exc"] = exc_name(ex) + ": " + str(ex)[:120]
        return out
    for q, f in (("nat", lambda: m.natural_parameters), ("logpdf", lambda: m.logpdf(x)),
                 ("pow", lambda: (m ** 2.0).natural_parameters)):
        try:
            out[q] = hexarr(f())
        except BaseException as ex:  # noqa
            out[q] = "exc:" + exc_name(ex)
    try:
        out["ref"]["pow"] = hexarr((ref ** 2.0).natural_parameters)
    except BaseException as ex:  # noqa
        out["ref"]["pow"] = "exc:" + exc_name(ex)
    return out


# --------------------------------------------------------------------------- routes (argument types / vectorised calls)
def _num(v):
    return hexf(float(v))


def run_route(c):
    """every number-taking public function of a message called through every argument representation (python float,
    np.float64, np.float32, int, 0-d / 1-element / k-element / (k, n) arrays, a float broadcast over an array message);
    the reference is the SCALAR route: one scalar message per element, one python float per call"""
    m = build(c["msg"])
    transformed = isinstance(m, TransformedMessage)
    b = m.base_message if transformed else m
    out = {"desc": describe(m)}
    bdesc = out["desc"]["base"] if transformed else out["desc"]
    elems = bdesc["elems"]
    n = len(elems)
    scalar = m.shape == ()
    stack = out["desc"]["t"]["stack"] if transformed else []
    ones = []
    for e in elems:
        one = type(b)(*[unhex(h) for h in e])
        ones.append(TransformedMessage(one, *m.transforms) if transformed else one)
    U = [[unhex(h) for h in r] for r in c["u"]]
    X = [[unhex(h) for h in r] for r in c["x"]]
    k = len(U)
    has_q = hasattr(b, "cdf")
    funcs = ["logpdf", "pdf"] + (["value_for", "cdf", "cdf_vf"] if has_q else []) + (["ppf"] if hasattr(m, "ppf") else [])

    def call(obj, f, arg):
        if f == "cdf_vf":
            return obj.cdf(obj.value_for(arg))
        return getattr(obj, f)(arg)

    def pts(f):
        return U if f in ("value_for", "cdf_vf", "ppf") else X

    # reference: scalar messages, python floats
    ref = {}
    for f in funcs:
        try:
            ref[f] = [[_num(call(ones[j], f, float(pts(f)[i][j]))) for j in range(n)] for i in range(k)]
        except BaseException as ex:  # noqa
            ref[f] = "exc:" + exc_name(ex) + ": " + str(ex)[:120]
    out["ref"] = ref
    # library quantile / cdf of the base family (independent of the anchored code)
    if has_q:
        lq, lc = [], []
        for i in range(k):
            qr, cr = [], []
            for j in range(n):
                one = ones[j].base_message if transformed else ones[j]
                d = base_dist(one)
                qr.append(_num(d.ppf(U[i][j])))
                y, _ = chain(stack, X[i][j])
                cr.append(_num(d.cdf(float(y))))
            lq.append(qr)
            lc.append(cr)
        out["lib_q"], out["lib_cdf"] = lq, lc

    def grid(v, shape_ok):
        a = np.asarray(v, dtype=float)
        if a.size != k * n:
            return "shape:%r" % (list(a.shape),)
        if shape_ok is not None and tuple(a.shape) not in shape_ok:
            return "shape:%r" % (list(a.shape),)
        return [[_num(z) for z in r] for r in a.reshape(k, n)]

    def pointwise(f, conv, only_int=False):
        P = pts(f)
        rows = []
        for i in range(k):
            row = []
            for j in range(n):
                p = P[i][j]
                if only_int and p != int(p):
                    row.append(None)
                    continue
                v = np.asarray(call(m, f, conv(p)), dtype=float)
                if v.size != 1:
                    return "shape:%r" % (list(v.shape),)
                row.append(_num(v.reshape(())))
            rows.append(row)
        return rows

    routes = {}
    if scalar:
        plan = [("float", lambda f: pointwise(f, float)),
                ("f64", lambda f: pointwise(f, np.float64)),
                ("f32", lambda f: pointwise(f, np.float32)),
                ("int", lambda f: pointwise(f, int, True)),
                ("0d", lambda f: pointwise(f, lambda p: np.array(p))),
                ("1el", lambda f: pointwise(f, lambda p: np.array([p]))),
                ("vec", lambda f: grid(call(m, f, np.array([r[0] for r in pts(f)])), [(k,)])),
                ("vec32", lambda f: grid(call(m, f, np.array([r[0] for r in pts(f)], dtype=np.float32)), [(k,)])),
                ("col", lambda f: grid(call(m, f, np.array(pts(f))), [(k, 1)])),
                ("float-again", lambda f: pointwise(f, float))]
    else:
        def per_row(f, dtype):
            rows = []
            for r in pts(f):
                v = np.asarray(call(m, f, np.array(r, dtype=dtype)), dtype=float)
                if v.shape != (n,):
                    return "shape:%r" % (list(v.shape),)
                rows.append([_num(z) for z in v])
            return rows

        def bcast(f):     # one python float for all elements of the array message
            rows = []
            for r in pts(f):
                v = np.asarray(call(m, f, float(r[0])), dtype=float)
                if v.shape != (n,):
                    return "shape:%r" % (list(v.shape),)
                rows.append([_num(z) for z in v])
            return rows

        plan = [("row", lambda f: per_row(f, float)),
                ("row32", lambda f: per_row(f, np.float32)),
                ("batch", lambda f: grid(call(m, f, np.array(pts(f))), [(k, n)])),
                ("bcast", bcast),
                ("row-again", lambda f: per_row(f, float))]
    for name, fn in plan:
        routes[name] = {}
        for f in funcs:
            if f in ("logpdf", "pdf") and name in ("col", "bcast"):
                continue      # logpdf documents a ValueError unless x.shape is m.shape or (k,) + m.shape
            try:
                routes[name][f] = fn(f)
            except BaseException as ex:  # noqa
                routes[name][f] = "exc:" + exc_name(ex) + ": " + str(ex)[:120]
    if not scalar:
        # reference of the broadcast route: element j at the first point of the row
        rb = {}
        for f in funcs:
            try:
                rb[f] = [[_num(call(ones[j], f, float(pts(f)[i][0]))) for j in range(n)] for i in range(k)]
            except BaseException as ex:  # noqa
                rb[f] = "exc:" + exc_name(ex)
        out["ref_bcast"] = rb
    out["routes"] = routes
    out["funcs"] = funcs
    if type(m) is NormalMessage:
        # oracle table of erfinv for the model: keys by an independent re-computation of the argument, values from scipy
        tab = {}
        for r in U:
            for u in r:
                a = 1 - 2.0 * (1.0 - float(u))
                tab[hexf(a)] = hexf(float(special.erfinv(a)))
        out["erfinv_tab"] = sorted(tab.items())
    # the real exponent / factor of ** , * , / in every representation of one real number
    kv, sv = unhex(c.get("k", hexf(2.0))), unhex(c.get("s", hexf(2.0)))
    reps = [("float", float), ("f64", np.float64), ("f32", np.float32), ("0d", lambda v: np.array(v)),
            ("int", int), ("i64", np.int64)]
    sc = {}
    for op, val, fn in (("pow", kv, lambda r: m ** r), ("smul", sv, lambda r: m * r), ("rmul", sv, lambda r: r * m),
                        ("sdiv", sv, lambda r: m / r)):
        sc[op] = {}
        for rn, conv in reps:
            if rn in ("int", "i64") and val != int(val):
                continue
            try:
                r = fn(conv(val))
                dd = describe(r)
                bb = dd["base"] if "t" in dd else dd
                ln = bb["log_norm"]
                sc[op][rn] = {"wrap": dd.get("t"), "cls": bb["cls"], "elems": bb["elems"], "id": bb["id"], "lo": bb["lo"],
                              "hi": bb["hi"], "log_norm": ln if isinstance(ln, list) else [ln], "shape": bb["shape"]}
            except BaseException as ex:  # noqa
                sc[op][rn] = "exc:" + exc_name(ex) + ": " + str(ex)[:120]
    out["scal"] = sc
    # the PARAMETERS of a base message in every representation of the same reals (int, np.int64, np.float32, 0-d array;
    # int64 / float32 arrays): every query against the message built from python floats / a float64 array
    if c.get("pint"):
        cls = FAMS[c["pfam"]]
        P = [[float(unhex(h)) for h in col] for col in c["pint"]]
        x0 = unhex(c["px"])

        def queries(mm):
            xx = np.full(mm.shape, x0) if mm.shape else x0
            q = {}
            for name, f in (("natural_parameters", lambda: mm.natural_parameters), ("logpdf", lambda: mm.logpdf(xx)),
                            ("pow2", lambda: (mm ** 2.0).parameters), ("mul", lambda: (mm * mm).parameters),
                            ("divmul", lambda: ((mm * mm) / mm).parameters), ("mean", lambda: mm.mean),
                            ("variance", lambda: mm.variance), ("log_partition", lambda: mm.log_partition),
                            ("value_for", lambda: mm.value_for(0.25) if hasattr(mm, "cdf") else 0.0),
                            ("cdf", lambda: mm.cdf(xx) if hasattr(mm, "cdf") else 0.0), ("is_valid", lambda: mm.is_valid),
                            ("shape", lambda: np.array(mm.shape, dtype=float)),
                            ("fromnat", lambda: mm.from_natural_parameters(np.asarray(mm.natural_parameters, dtype=float)).parameters),
                            ("fromnat_i64", lambda: mm.from_natural_parameters(nat_as_int(mm)).parameters),
                            ("fromnat_direct", lambda: mm.from_natural_parameters(direct_nat(float)).parameters),
                            ("fromnat_direct_i64", lambda: mm.from_natural_parameters(direct_nat(np.int64)).parameters)):
                try:
                    q[name] = [hexf(z) for z in np.asarray(f(), dtype=float).ravel()]
                except BaseException as ex:  # noqa
                    q[name] = "exc:" + exc_name(ex) + ": " + str(ex)[:100]
            return q

        def nat_as_int(mm):    # the natural parameters handed back as an integer array when they are integers
            a = np.asarray(mm.natural_parameters, dtype=float)
            return a.astype(np.int64) if np.all(a == np.round(a)) else a

        def direct_nat(dtype):    # integer-valued natural parameters of a valid member, as a float or an integer array
            e2 = [v if c["pfam"] == "beta" else -abs(v) for v in P[1]]
            a = np.array([P[0], e2], dtype=dtype)
            return a[:, 0] if len(P[0]) == 1 else a

        pr = {}
        if len(P[0]) == 1:
            builders = [("float", lambda col: float(col[0])), ("int", lambda col: int(col[0])), ("i64", lambda col: np.int64(col[0])),
                        ("f32", lambda col: np.float32(col[0])), ("0d", lambda col: np.array(col[0])),
                        ("0d-int", lambda col: np.array(int(col[0])))]
        else:
            builders = [("float", lambda col: np.array(col, dtype=float)), ("i64", lambda col: np.array(col, dtype=np.int64)),
                        ("f32", lambda col: np.array(col, dtype=np.float32)), ("i32", lambda col: np.array(col, dtype=np.int32))]
        for rn, conv in builders:
            try:
                pr[rn] = queries(cls(*[conv(col) for col in P]))
            except BaseException as ex:  # noqa
                pr[rn] = "exc:" + exc_name(ex) + ": " + str(ex)[:100]
        # mixed: the first parameter an int, the others floats
        try:
            mixed = [(int(P[0][0]) if len(P[0]) == 1 else np.array(P[0], dtype=np.int64))] + \
                    [(float(col[0]) if len(col) == 1 else np.array(col, dtype=float)) for col in P[1:]]
            pr["mixed"] = queries(cls(*mixed))
        except BaseException as ex:  # noqa
            pr["mixed"] = "exc:" + exc_name(ex) + ": " + str(ex)[:100]
        out["prep"] = pr
    # sample-size argument in every representation: the shape of the draw, every draw inside the support
    sm = {}
    lo_, hi_ = [float(v) for v in m._support[0]] if getattr(m, "_support", None) else (-np.inf, np.inf)
    for rn, arg in (("none", None), ("int1", 1), ("int3", 3), ("i64", np.int64(3)), ("0d", np.array(3))):
        try:
            v = np.asarray(m.sample() if arg is None else m.sample(arg), dtype=float)
            sm[rn] = {"shape": list(v.shape), "inside": bool(np.all((v >= lo_) & (v <= hi_))), "msg_shape": list(m.shape)}
        except BaseException as ex:  # noqa
            sm[rn] = "exc:" + exc_name(ex) + ": " + str(ex)[:100]
    out["sample"] = sm
    return out


def run_case(c):
    if c["kind"] == "route":
        return run_route(c)
    if c["kind"] == "lpdf":
        return run_lpdf(c)
    if c["kind"] == "mixedparam":
        return run_mixedparam(c)
    if c["kind"] == "hist":
        return run_hist(c)
    if c["kind"] == "det":
        return run_det(c)
    if c["kind"] == "alg":
        return run_alg(c)
    if c["kind"] == "proj":
        return run_proj(c)
    if c["kind"] == "dens":
        return run_dens(c)
    raise ValueError(c["kind"])


def main():
    cases = json.load(open(sys.argv[1]))["cases"]
    out = []
    for c in cases:
        try:
            out.append({"ok": run_case(c)})
        except BaseException as e:  # noqa
            import traceback
            out.append({"exc": exc_name(e), "msg": (str(e) + " | " + traceback.format_exc()[-600:])[:900]})
    json.dump({"results": out}, open(sys.argv[2], "w"))


main()
