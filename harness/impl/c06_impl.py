"""C06 implementation driver: run / crash / re-run histories of real fits.

Every run of a history is executed in a forked child of this process (autofit is imported
once).  The child installs a `sys.addaudithook` that records every file-system mutation under
the case's output directory (open for write/append, unlink, rename) and, when the run has a
crash spec {kind, role, occ, variant}, kills the process (`os._exit`) at mutation event `k`:
    (k = index of the `occ`-th event of kind `kind` on the file `role`)
    variant "before": just before event k is performed (everything earlier is complete)
    variant "empty" : event k's file is created / truncated to zero length, then death
    variant "half"  : event k is performed completely, then -- just before the next mutation
                      event or the end of the run -- its file is cut to half and the process dies
The parent looks at the folder / archive after every run and reports canonical observables.
Nothing under /repo is modified; nothing is written outside VERIF_SCRATCH.
"""
import json
import os
import shutil
import sys
import zipfile
import logging

from vimpl_common import setup, hexf, exc_name

af, conf = setup()
logging.disable(logging.CRITICAL)

import dill  # noqa: E402
import numpy as np  # noqa: E402
import random  # noqa: E402

SCRATCH = os.path.abspath(os.environ["VERIF_SCRATCH"])
VERIF = os.environ.get("VERIF_DIR", "/verif")

ROLES = {
    ".identifier": "Ident",
    ".parent_identifier": "Other",
    "model.info": "ModelInfo",
    "model_graph.html": "Graph",
    "files/info.json": "InfoJson",
    "files/search.json": "SearchJson",
    "files/model.json": "ModelJson",
    "files/search.json.tmp": "SearchJsonTmp",
    "files/model.json.tmp": "ModelJsonTmp",
    "files/samples_summary.json.tmp": "SummaryTmp",
    "files/samples_info.json.tmp": "SamplesInfoTmp",
    "files/verif_attr.json": "Attr",
    "files/verif_attr.json.tmp": "AttrTmp",
    "files/verif_result.json": "ResultExtra",
    "files/verif_result.json.tmp": "ResultExtraTmp",
    "model.start": "ModelStart",
    "metadata": "Metadata",
    "search.log": "Log",
    "files/search_internal/.start_time": "StartTime",
    "files/search_internal/.time": "Time",
    "files/search_internal/search_internal.dill": "Dill",
    "files/search_internal/search_internal.dill.tmp": "DillTmp",
    "files/samples_summary.json": "Summary",
    "files/samples_info.json": "SamplesInfo",
    "files/samples.csv": "SamplesCsv",
    "files/covariance.csv": "Other",
    "model.results": "Results",
    "search.summary": "SearchSummary",
    ".completed": "Marker",
}


class Analysis(af.Analysis):
    """Likelihood whose value encodes the run that evaluated it: tag = floor(-LL / 100)
    (the untagged part lies in (-100, 0.5) for parameters in [-5, 5])."""

    def __init__(self, tag):
        self.tag = tag
        self.evals = 0
        self.hook = None

    def __getstate__(self):
        # samplers pickle the analysis into their checkpoints (dynesty): the fault injector of THIS run must not travel
        state = dict(self.__dict__)
        state["hook"] = None
        return state

    def save_attributes(self, paths):
        # a user file written before the search starts (like data.json of a real analysis)
        paths.save_json("verif_attr", {"what": "attributes of the analysis"})

    def save_results(self, paths, result):
        # a user result file: must be on disk before `.completed`
        paths.save_json("verif_result", {
            "log_likelihood": result.samples_summary.max_log_likelihood_sample.log_likelihood})

    def log_likelihood_function(self, instance):
        if self.hook is not None:
            self.hook.likelihood_call()
        self.evals += 1
        base = -0.5 * ((instance.centre - 0.3) ** 2 + 3.0 * (instance.sigma - 0.6) ** 2
                       + 0.1 * instance.centre * instance.sigma)
        return base - 100.0 * float(self.tag)

    def should_visualize(self, paths, during_analysis=True):
        return False


def make_model(variant=0):
    # variant: another model (other identifier) with the same parameters and the same likelihood range
    return af.Model(af.Gaussian, centre=af.UniformPrior(-5.0, 5.0), normalization=1.0 + variant,
                    sigma=af.UniformPrior(-5.0, 5.0))


def fit_components(fit, identifier=None):
    """The harness's own statement of the documented layout: <output>/<path_prefix>/<unique_tag>/<name>[/<identifier>]
    (empty parts dropped); the archive is that path + ".zip", the archive being written + ".zip.tmp"."""
    comps = [c for c in (fit.get("prefix") or "").split("/") if c] + [c for c in (fit.get("tag"), fit.get("name")) if c]
    if fit.get("ident"):
        comps.append(identifier)
    return comps


def make_search(case, session=None, fit=None):
    kw = {"name": "fit"}
    if fit is not None:
        # a fit of a `neighbours` history: its own name / path prefix / unique tag, with or without the identifier folder
        kw = {"name": fit["name"], "path_prefix": fit.get("prefix") or None, "unique_tag": fit.get("tag") or None,
              "paths": af.DirectoryPaths(name=fit["name"], path_prefix=fit.get("prefix") or None,
                                         unique_tag=fit.get("tag") or None, is_identifier_in_paths=bool(fit.get("ident")))}
    if case["search"] == "drawer":
        return af.Drawer(total_draws=4, session=session, **kw)
    if case["search"] == "lbfgs":
        return af.LBFGS(iterations_per_update=1, maxiter=int(case["updates"]), session=session, **kw)
    if case["search"] == "dynesty":
        return af.DynestyStatic(name="fit", nlive=20, iterations_per_update=150, number_of_cores=1, force_x1_cpu=True,
                                session=session)
    if case["search"] == "pyswarms":
        return af.PySwarmsGlobal(name="fit", n_particles=6, iters=6, iterations_per_update=3, number_of_cores=1, session=session)
    raise ValueError(case["search"])


def config_dir(case):
    """A copy of harness/config with the output switches of this case."""
    key = "cfg_%d%d%d%d" % (case["remove_files"], case["csv"], case["keep_internal"], int(bool(case.get("chk"))))
    d = os.path.join(SCRATCH, key)
    if not os.path.isdir(d):
        tmp = d + ".tmp%d" % os.getpid()
        shutil.copytree(os.path.join(VERIF, "harness", "config"), tmp)
        import yaml
        p = os.path.join(tmp, "general.yaml")
        g = yaml.safe_load(open(p))
        g["output"]["remove_files"] = bool(case["remove_files"])
        g["output"]["samples_to_csv"] = bool(case["csv"])
        g["test"]["check_likelihood_function"] = bool(case.get("chk"))
        yaml.safe_dump(g, open(p, "w"))
        p = os.path.join(tmp, "output.yaml")
        o = yaml.safe_load(open(p))
        o["search_internal"] = bool(case["keep_internal"])
        yaml.safe_dump(o, open(p, "w"))
        os.rename(tmp, d)
    return d


def role_of(rel):
    """fit/<id>/<sub> -> role ; fit/<id>.zip -> Zip."""
    parts = rel.split("/")
    if parts[0] == "foreign":
        return "Other:" + rel
    if len(parts) == 2 and parts[1].endswith(".zip"):
        return "Zip"
    if len(parts) == 2 and parts[1].endswith(".zip.tmp"):
        return "ZipTmp"
    if len(parts) < 3:
        return "Other:" + rel
    sub = "/".join(parts[2:])
    return ROLES.get(sub, "Other:" + sub)



def canon_rel(r, folder):
    """neighbours histories: the names of the fit whose folder is `folder` as fit/x/..., fit/x.zip, fit/x.zip.tmp;
    every other name under the output directory as foreign/<name> (role Other:...)."""
    if r == folder or r.startswith(folder + "/"):
        return "fit/x" + r[len(folder):]
    if r == folder + ".zip":
        return "fit/x.zip"
    if r == folder + ".zip.tmp":
        return "fit/x.zip.tmp"
    return "foreign/" + r


# --------------------------------------------------------------------------------------
# child side
# --------------------------------------------------------------------------------------

class Hook:
    def __init__(self, root, crash, report_path):
        self.root = root.rstrip("/") + "/"
        self.crash = crash
        self.report_path = report_path
        self.trace = []
        self.active = True
        self.last = None  # (kind, path) of the latest mutation event
        self.extra = {}
        self.ck = None    # index of the mutation event at which the process dies
        self.occ = 0
        self.ll_calls = 0
        self.main_pid = os.getpid()
        self.folder = None      # neighbours histories: the running fit's folder relative to the output directory

    def rel(self, p):
        r = p[len(self.root):]
        return r if self.folder is None else canon_rel(r, self.folder)

    def die(self, truncated=None):
        self.active = False
        rep = {"outcome": "crashed", "trace": self.trace, "truncated": truncated, "crash_index": self.ck}
        rep.update(self.extra)
        with open(self.report_path, "w") as f:
            json.dump(rep, f)
        if os.getpid() != self.main_pid:
            # the likelihood runs in a worker forked by the library (SneakyPool): the whole fit dies, not just the worker
            import signal
            try:
                os.kill(self.main_pid, signal.SIGKILL)
            except OSError:
                pass
        os._exit(99)

    def event(self, kind, path, src=None):
        """Called just BEFORE mutation `kind` on absolute `path`."""
        k = len(self.trace)
        rel = self.rel(path)
        if self.folder is not None:
            # the names really used, as they are (neighbours histories): marker, archive, temporary archive
            real = path[len(self.root):]
            names = self.extra.setdefault("names", {})
            if kind == "W" and os.path.basename(path) == ".completed":
                names["marker"] = real
            elif kind == "ZTW":
                names["ziptmp"] = real
            elif kind == "ZW" or (kind == "MV" and src is not None and src.endswith(".zip.tmp")):
                names["zip"] = real
            elif kind == "R" and real.endswith(".zip"):
                names["zip"] = real
        if self.crash is not None:
            variant = self.crash["variant"]
            if self.ck is None:
                key = (kind, role_of(rel))
                if key == (self.crash["kind"], self.crash["role"]):
                    n = self.occ
                    self.occ += 1
                    if n == self.crash.get("occ", 0):
                        self.ck = k
            ck = self.ck
            if ck is not None:
                if variant == "half" and k == ck + 1:
                    self.cut_half()
                if k == ck and variant == "before":
                    self.die()
                if k == ck and variant == "empty":
                    if kind in ("W", "ZW", "ZTW"):
                        self.active = False
                        os.makedirs(os.path.dirname(path), exist_ok=True)
                        open(path, "w").close()
                        self.trace.append([kind, rel])
                        self.die([rel, "empty"])
                    elif kind == "A":
                        self.active = False
                        os.makedirs(os.path.dirname(path), exist_ok=True)
                        open(path, "a").close()
                        self.trace.append([kind, rel])
                        self.die([rel, "empty"] if os.path.getsize(path) == 0 else None)
                    else:
                        self.die()
        self.trace.append([kind, rel] if src is None else [kind, rel, src])
        self.last = (kind, path)

    def likelihood_call(self):
        """Crash kind LL: the process dies at its occ-th likelihood evaluation (no file-system event involved)."""
        if self.active and self.crash is not None and self.crash.get("kind") == "LL":
            n = self.ll_calls
            self.ll_calls += 1
            if n == self.crash.get("occ", 0):
                self.ck = len(self.trace)
                self.die()

    def check_rename_source(self, src):
        """os.replace(tmp, final) must move a closed, complete file: anything else re-opens the truncation window."""
        self.active = False
        why = None
        try:
            for fd in os.listdir("/proc/self/fd"):
                try:
                    if os.readlink("/proc/self/fd/" + fd) == src:
                        why = "still open"
                except OSError:
                    pass
            if why is None:
                if src.endswith(".zip.tmp"):
                    with zipfile.ZipFile(src) as f:
                        if f.testzip() is not None:
                            why = "corrupt archive"
                elif src.endswith(".dill.tmp"):
                    try:
                        with open(src, "rb") as f:
                            dill.load(f)
                    except (EOFError, dill.UnpicklingError):
                        why = "truncated pickle"
                    except BaseException:      # complete but not loadable (a defect of what was pickled, not of the protocol)
                        pass
                elif src.endswith(".json.tmp"):
                    with open(src) as f:
                        json.load(f)
        except Exception as e:  # noqa
            why = "unreadable: " + type(e).__name__
        finally:
            self.active = True
        if why:
            self.extra.setdefault("bad_rename", []).append([self.rel(src), why])

    def cut_half(self):
        kind, path = self.last
        if kind in ("W", "ZW", "ZTW", "A") and os.path.exists(path):
            size = os.path.getsize(path)
            self.active = False
            with open(path, "r+b") as f:
                f.truncate(size // 2)
            self.die([self.rel(path), "half" if size // 2 > 0 else "empty"] if size > 0 else None)
        self.die()

    def final(self):
        """End of the run: a pending `half` crash on the last event fires here."""
        if self.crash is not None and self.ck is not None:
            if self.crash["variant"] == "half" and len(self.trace) == self.ck + 1:
                self.cut_half()

    def __call__(self, ev, args):
        if not self.active:
            return
        try:
            if ev == "open":
                p, mode, flags = args
                if isinstance(p, int) or p is None:
                    return
                p = os.fspath(p)
                if isinstance(p, bytes):
                    p = p.decode()
                p = os.path.abspath(p)
                if not p.startswith(self.root):
                    return
                if flags & os.O_TRUNC or (flags & os.O_CREAT and not flags & os.O_APPEND):
                    self.event("ZW" if p.endswith(".zip") else ("ZTW" if p.endswith(".zip.tmp") else "W"), p)
                elif flags & os.O_APPEND:
                    self.event("A", p)
            elif ev == "os.remove":
                p, dfd = args[0], args[1]
                p = self.full(p, dfd)
                if p.startswith(self.root):
                    self.event("R", p)
            elif ev == "os.rename":
                src, dst = args[0], args[1]
                s = self.full(src, args[2])
                d = self.full(dst, args[3])
                if d.startswith(self.root) and s.startswith(self.root):
                    self.check_rename_source(s)
                    self.event("MV", d, src=self.rel(s))
        except SystemExit:
            raise

    @staticmethod
    def full(p, dfd):
        p = os.fspath(p)
        if isinstance(p, bytes):
            p = p.decode()
        if dfd is not None and dfd != -1 and not os.path.isabs(p):
            p = os.path.join(os.readlink("/proc/self/fd/%d" % dfd), p)
        return os.path.abspath(p)


def hexify(x):
    """Floats of a nested structure as hex strings (exact comparison across runs)."""
    if isinstance(x, (float, np.floating)):
        return hexf(x)
    if isinstance(x, (list, tuple, np.ndarray)):
        return [hexify(v) for v in x]
    if isinstance(x, dict):
        return {str(k): hexify(v) for k, v in x.items()}
    return x if isinstance(x, (int, str, bool, type(None))) else repr(x)


def result_info(result):
    out = {"summary_ll": None, "samples_ll": None, "internal": None, "instance": None}
    ss = result.samples_summary
    if ss is not None:
        out["summary_ll"] = hexf(ss.max_log_likelihood_sample.log_likelihood)
        out["instance"] = [hexf(result.instance.centre), hexf(result.instance.sigma)]
        try:
            out["median"] = [hexf(x) for x in ss.median_pdf_sample.parameter_lists_for_model(ss.model)]
        except Exception as e:  # noqa
            out["median"] = "exc:" + type(e).__name__
        stats = {}
        for name in ("values_at_sigma_1", "values_at_sigma_3", "errors_at_sigma_1", "errors_at_sigma_3", "log_evidence"):
            try:
                stats[name] = hexify(getattr(ss, name))
            except Exception as e:  # noqa
                stats[name] = "exc:" + type(e).__name__
        stats["max_ll_log_prior"] = hexify(ss.max_log_likelihood_sample.log_prior)
        stats["max_ll_weight"] = hexify(ss.max_log_likelihood_sample.weight)
        out["stats"] = stats
    if result.samples is not None:
        out["samples_ll"] = [hexf(s.log_likelihood) for s in result.samples.sample_list]
        out["samples_par"] = [[hexf(v) for v in s.parameter_lists_for_model(result.samples.model)]
                              for s in result.samples.sample_list]
        out["samples_w"] = [[hexf(s.weight), hexf(s.log_prior)] for s in result.samples.sample_list]
    out["internal_in_memory"] = getattr(result, "_search_internal", None) is not None
    return out


def identifier_of(search, model, fit):
    """The identifier `search.fit` will use (it sets paths.model and paths.unique_tag before anything else)."""
    if not fit.get("ident"):
        return None
    paths = search.paths
    paths.model = model
    paths.unique_tag = search.unique_tag
    return paths.identifier


def child(case, outdir, run_index, crash, report_path):
    try:
        conf.instance.push(new_path=config_dir(case), output_path=outdir)
        np.random.seed(12345 + 7919 * run_index + case.get("salt", 0))
        random.seed(999 + run_index + case.get("salt", 0))
        # with check_likelihood_function the likelihood must not change between runs: no run tag
        analysis = Analysis(0 if case.get("chk") else run_index)
        session = af.db.open_database(os.path.join(outdir, "db.sqlite")) if case.get("db") else None
        fit = case["fits"][case["runs"][run_index]["fit"]] if case.get("fits") else None
        search = make_search(case, session, fit)
        model = make_model(fit.get("variant", 0) if fit else 0)
        hook = Hook(outdir, crash, report_path)
        hook.extra = {"identifier": None}
        if fit is not None:
            hook.folder = "/".join(fit_components(fit, identifier_of(search, model, fit)))
        analysis.hook = hook
        sys.addaudithook(hook)
        rep = {}
        try:
            result = search.fit(model, analysis)
            hook.final()
            hook.active = False
            rep["outcome"] = "ok"
            rep["result"] = result_info(result)
        except BaseException as e:  # noqa
            hook.active = False
            rep["outcome"] = "exc:" + exc_name(e)
            rep["msg"] = str(e)[:200]
        rep["trace"] = hook.trace
        rep["bad_rename"] = hook.extra.get("bad_rename")
        rep["names"] = hook.extra.get("names")
        rep["evals"] = analysis.evals
        rep["truncated"] = None
        with open(report_path, "w") as f:
            json.dump(rep, f)
    except BaseException as e:  # noqa
        with open(report_path, "w") as f:
            json.dump({"outcome": "driver-error", "msg": repr(e)[:500], "trace": []}, f)
    finally:
        os._exit(0)


# --------------------------------------------------------------------------------------
# parent side
# --------------------------------------------------------------------------------------

def tag_of_ll(x):
    return int(max(0.0, -float(x)) // 100.0) if x is not None else None


def file_tag(role, path):
    """(valid, tag): content-based view of result-bearing files."""
    try:
        if role in ("ResultExtra", "ResultExtraTmp"):
            return True, tag_of_ll(json.load(open(path))["log_likelihood"])
        if role in ("Attr", "AttrTmp"):
            json.load(open(path))
            return True, None
        if role in ("Summary", "SummaryTmp"):
            d = json.load(open(path))
            ll = d["arguments"]["max_log_likelihood_sample"]["arguments"]["log_likelihood"]
            return True, tag_of_ll(ll)
        if role in ("SamplesInfo", "SearchJson", "ModelJson", "InfoJson", "SamplesInfoTmp", "SearchJsonTmp", "ModelJsonTmp"):
            json.load(open(path))
            return True, None
        if role in ("Dill", "DillTmp"):
            try:
                with open(path, "rb") as f:
                    obj = dill.load(f)
            except (EOFError, dill.UnpicklingError):
                return False, None
            except BaseException:
                return None, None      # complete file whose content can not be unpickled: not a truncation
            if obj is None:
                return True, "none"
            if isinstance(obj, dict) and "log_posterior_list" in obj and not hasattr(obj, "x"):
                return True, tag_of_ll(max(obj["log_posterior_list"]))
            if hasattr(obj, "log_posterior_list"):
                return True, tag_of_ll(float(np.max(obj.log_posterior_list)))
            return True, None      # some other sampler state (dynesty): readable is all we can say
        if role == "SamplesCsv":
            import csv
            rows = list(csv.DictReader(open(path), skipinitialspace=True))
            lls = [float(r["log_likelihood"].strip()) for r in rows]
            return (len(lls) > 0), (tag_of_ll(max(lls)) if lls else None)
        if role == "StartTime":
            float(open(path).read())
            return True, None
    except Exception:
        return False, None
    return None, None


def observe(outdir, partial, zsnap=None, fit_folder=None):
    """Canonical view of folder + archive. `partial`: rel path -> 'empty'|'half' (from crash reports).
    fit_folder (neighbours histories): the fit's folder relative to outdir; its archive is looked for under the documented
    name <folder>.zip only, and partial is keyed by the canonical names fit/x/..."""
    base = os.path.join(outdir, "fit")
    folder, zips, strays = None, [], []
    if fit_folder is not None:
        p = os.path.join(outdir, fit_folder)
        folder = p if os.path.isdir(p) else None
        if os.path.lexists(p + ".zip"):
            zips.append(p + ".zip")
        if os.path.lexists(p + ".zip.tmp"):
            strays.append(os.path.basename(p) + ".zip.tmp")
        if os.path.lexists(p) and not os.path.isdir(p):
            strays.append("not-a-directory:" + os.path.basename(p))
    elif os.path.isdir(base):
        for name in sorted(os.listdir(base)):
            p = os.path.join(base, name)
            if os.path.isdir(p):
                folder = p
            elif name.endswith(".zip"):
                zips.append(p)
            else:
                strays.append(name)
    files = []
    inconsistent = []
    if folder:
        for root, _, fs in os.walk(folder):
            for fn in fs:
                p = os.path.join(root, fn)
                rel = os.path.relpath(p, outdir) if fit_folder is None else "fit/x/" + os.path.relpath(p, folder)
                role = role_of(rel)
                st = partial.get(rel, "full")
                valid, tag = file_tag(role, p)
                if valid is not None and role != "SamplesCsv":
                    if valid != (st == "full") and not (role == "StartTime" and st == "half"):
                        inconsistent.append([role, st, valid])
                files.append([role, st, tag if st == "full" else None])
    files.sort(key=lambda x: x[0])
    z = {"state": "absent", "members": []}
    if zips:
        zp = zips[0]
        try:
            with zipfile.ZipFile(zp) as f:
                bad = f.testzip()
                if bad is not None:
                    raise zipfile.BadZipFile(bad)
                tmp = os.path.join(SCRATCH, "zx_%d" % os.getpid())
                shutil.rmtree(tmp, ignore_errors=True)
                f.extractall(tmp)
                mem = []
                for root, _, fs in os.walk(tmp):
                    for fn in fs:
                        p = os.path.join(root, fn)
                        rel = "fit/x/" + os.path.relpath(p, tmp)
                        role = role_of(rel)
                        valid, tag = file_tag(role, p)
                        st = (zsnap or {}).get(os.path.relpath(p, tmp), "full")
                        if valid is not None and role != "SamplesCsv" and valid != (st == "full") and not (role == "StartTime" and st == "half"):
                            inconsistent.append(["zip:" + role, st, valid])
                        mem.append([role, st, tag if st == "full" else None])
                shutil.rmtree(tmp, ignore_errors=True)
                z = {"state": "full", "members": sorted(mem, key=lambda x: x[0])}
        except zipfile.BadZipFile:
            z = {"state": "partial", "members": []}
        except (IsADirectoryError, PermissionError):       # a directory under the archive's name
            z = {"state": "not-a-file", "members": []}
    return {"files": files, "zip": z, "strays": strays, "nzips": len(zips), "inconsistent": inconsistent}


def listing(top):
    """[role, status, tag] of every file below `top` (a fit folder or an extracted archive), judged by content alone."""
    out = []
    for root, _, fs in os.walk(top):
        for fn in fs:
            p = os.path.join(root, fn)
            role = role_of("fit/x/" + os.path.relpath(p, top))
            valid, tag = file_tag(role, p)
            st = "half" if valid is False else "full"
            out.append([role, st, tag if st == "full" else None])
    return sorted(out, key=lambda x: x[0])


def copies_anywhere(outdir, folders):
    """neighbours histories, independent of any naming rule: every folder holding `.completed` and every readable archive
    anywhere under the output directory, with its content; and the names that belong to no fit of the history."""
    copies, foreign = [], []
    own = set()
    for f in folders:
        own.update((f, f + ".zip", f + ".zip.tmp"))
    for root, dirs, fs in os.walk(outdir):
        relroot = os.path.relpath(root, outdir)
        relroot = "" if relroot == "." else relroot
        if ".completed" in fs:
            copies.append({"where": relroot, "kind": "folder", "files": listing(root)})
        inside = any(relroot == f or relroot.startswith(f + "/") for f in folders)
        for fn in fs:
            rel = os.path.join(relroot, fn)
            p = os.path.join(root, fn)
            if not inside and rel not in own and not rel.startswith("cfg_"):
                foreign.append(rel)
            if not inside and zipfile.is_zipfile(p):
                tmp = os.path.join(SCRATCH, "zy_%d" % os.getpid())
                shutil.rmtree(tmp, ignore_errors=True)
                try:
                    with zipfile.ZipFile(p) as z:
                        if z.testzip() is None:
                            z.extractall(tmp)
                            copies.append({"where": rel, "kind": "archive", "files": listing(tmp)})
                except Exception:  # noqa
                    pass
                shutil.rmtree(tmp, ignore_errors=True)
        for d in list(dirs):
            rel = os.path.join(relroot, d)
            if not inside and rel in own and rel not in folders:
                foreign.append(rel + "/")      # a directory under the name of some fit's archive
    return copies, sorted(foreign)[:12]


def update_partial(partial, rep, zsnap, zip_at_start):
    """Bookkeeping of truncated files across the runs of one history (from observed events only).
    `zsnap`: truncated files as stored inside the archive (a one-element list holding a dict)."""
    extracting = zip_at_start
    for ev in rep.get("trace", []):
        kind, rel = ev[0], ev[1]
        role = role_of(rel)
        if kind == "R" and role == "Zip":
            extracting = False
        elif kind == "W" and extracting:
            partial.pop(rel, None)
            member = rel.split("/", 2)[2] if rel.count("/") >= 2 else rel
            if member in zsnap[0]:
                partial[rel] = zsnap[0][member]
        elif kind in ("W", "A", "R"):
            partial.pop(rel, None)
        elif kind in ("ZW", "ZTW"):
            zsnap[0] = {k.split("/", 2)[2]: v for k, v in partial.items() if k.count("/") >= 2}
        elif kind == "MV":
            src = ev[2]
            partial.pop(rel, None)
            if src in partial:
                partial[rel] = partial.pop(src)
    t = rep.get("truncated")
    if t and role_of(t[0]) not in ("Marker", "Log", "Zip", "ZipTmp"):
        partial[t[0]] = t[1]


def canon_trace(trace):
    out = []
    for ev in trace:
        kind, rel = ev[0], ev[1]
        if kind == "MV":
            out.append(["MV", role_of(ev[2]) + ">" + role_of(rel)])
        else:
            out.append([kind, role_of(rel)])
    return out


def run_history(case, idx):
    outdir = os.path.join(SCRATCH, "case_%d" % idx)
    shutil.rmtree(outdir, ignore_errors=True)
    os.makedirs(outdir)
    fits = case.get("fits")
    nf = len(fits) if fits else 1
    partial = [{} for _ in range(nf)]
    zsnap = [[{}] for _ in range(nf)]
    zip_at_start = [False] * nf
    folders = None
    if fits:
        conf.instance.push(new_path=config_dir(case), output_path=outdir)
        folders = ["/".join(fit_components(f, identifier_of(make_search(case, None, f), make_model(f.get("variant", 0)), f)))
                   for f in fits]
    runs = []
    for ri, spec in enumerate(case["runs"]):
        fi = spec.get("fit", 0) if fits else 0
        report = os.path.join(SCRATCH, "rep_%d_%d.json" % (idx, ri))
        if os.path.exists(report):
            os.remove(report)
        crash = spec.get("crash")
        sys.stdout.flush()
        pid = os.fork()
        if pid == 0:
            child(case, outdir, ri, crash, report)
        os.waitpid(pid, 0)
        try:
            rep = json.load(open(report))
        except Exception as e:  # noqa
            rep = {"outcome": "driver-error", "msg": "no report: %r" % e, "trace": []}
        update_partial(partial[fi], rep, zsnap[fi], zip_at_start[fi])
        more = {}
        if fits:
            fs_all = [observe(outdir, partial[j], zsnap[j][0], fit_folder=folders[j]) for j in range(nf)]
            for j in range(nf):
                zip_at_start[j] = fs_all[j]["nzips"] > 0
            obs = fs_all[fi]
            copies, foreign = copies_anywhere(outdir, folders)
            more = {"fit": fi, "fs_all": fs_all, "copies": copies, "foreign": foreign}
        else:
            obs = observe(outdir, partial[0], zsnap[0][0])
            zip_at_start[0] = obs["nzips"] > 0
        res = rep.get("result")
        runs.append({
            "outcome": rep["outcome"], "msg": rep.get("msg"),
            "trace": canon_trace(rep.get("trace", [])),
            "nevents": len(rep.get("trace", [])),
            "crash_index": rep.get("crash_index"),
            "bad_rename": rep.get("bad_rename"),
            "truncated": [role_of(rep["truncated"][0]), rep["truncated"][1]] if rep.get("truncated") else None,
            "evals": rep.get("evals"),
            "names": rep.get("names"),
            "result": res,
            "result_tag": tag_of_ll(float.fromhex(res["summary_ll"])) if res and res.get("summary_ll") else None,
            "samples_tag": (tag_of_ll(max(float.fromhex(x) for x in res["samples_ll"]))
                            if res and res.get("samples_ll") else None),
            "fs": obs,
        })
        runs[-1].update(more)
        if os.path.exists(report):
            os.remove(report)
    shutil.rmtree(outdir, ignore_errors=True)
    return {"runs": runs, "folders": folders}


def main():
    cases = json.load(open(sys.argv[1]))["cases"]
    out = []
    for i, c in enumerate(cases):
        try:
            out.append({"ok": run_history(c, i)})
        except BaseException as e:  # noqa
            out.append({"exc": type(e).__name__, "msg": str(e)[:300]})
    json.dump({"results": out}, open(sys.argv[2], "w"))


main()
