"""C20 implementation driver: builds real instances from abstract value trees, runs
LinearInterpolator / SplineInterpolator queries on them, abstracts what comes back, and
evaluates scipy oracle requests (linregress / CubicSpline called directly, never through
the code under test)."""
import copy
import json
import logging
import sys

from vimpl_common import setup, hexf, unhex, exc_name

af, conf = setup()
logging.disable(logging.CRITICAL)

import numpy as np
from scipy.stats import linregress
from scipy.interpolate import CubicSpline

from autofit.interpolator.linear import LinearInterpolator
from autofit.interpolator.spline import SplineInterpolator
from autofit.interpolator.query import InterpolatorPath, Equality

INTERNAL = ("id", "_is_frozen", "_frozen_cache", "_label")


class Holder:
    """a class held as an attribute (like Model.cls): it has a float class attribute, which is not a parameter"""
    weight = 1.5


class Obj:
    """A plain component class: attributes live in __dict__ in insertion order."""

    def __init__(self, fields):
        for k, v in fields:
            self.__dict__[k] = v

    def __eq__(self, other):
        return type(other) is Obj and self.__dict__ == other.__dict__

    __hash__ = None


NPFLOAT = [False]      # series flag: float leaves are numpy.float64 (what instance_from_vector produces)


def build(t):
    if "f" in t:
        return np.float64(unhex(t["f"])) if NPFLOAT[0] else unhex(t["f"])
    if "a" in t:
        return np.array(unhex(t["a"]))          # a 0-d array, what calling a scipy spline returns
    if "d" in t:
        return {k: build(c) for k, c in t["d"]}
    if "i" in t:
        # with numpy leaves an int is a numpy.int64 (what indexing an integer array yields)
        return np.int64(t["i"]) if NPFLOAT[0] else int(t["i"])
    if "x" in t:
        if t["x"] == 9:
            return Holder
        return None if t["x"] == 0 else "s%d" % t["x"]
    if "l" in t:
        return [build(c) for c in t["l"]]
    if "t" in t:
        return tuple(build(c) for c in t["t"])
    fields = [(k, build(c)) for k, c in t["o"]]
    cls = t.get("cls", "mi")
    if cls == "mi":
        return af.ModelInstance(dict(fields))
    if cls == "gauss":
        d = dict(fields)
        g = af.Gaussian(centre=d["centre"], normalization=d["normalization"], sigma=d["sigma"])
        assert list(g.__dict__) == [k for k, _ in fields], (list(g.__dict__), fields)
        return g
    return Obj(fields)


def to_model(c):
    """component tree -> model component with every parameter fixed to its value"""
    if "f" in c:
        return unhex(c["f"])
    if c.get("cls") == "gauss":
        d = {k: unhex(x["f"]) for k, x in c["o"]}
        return af.Model(af.Gaussian, centre=d["centre"], normalization=d["normalization"], sigma=d["sigma"])
    if "o" in c:
        return af.Collection(**{k: to_model(x) for k, x in c["o"]})
    raise ValueError("component not expressible as a model: %r" % (c,))


def build_root(t):
    """`via: collection` builds the instance the way fits do: compose a Collection, ask it for an instance"""
    if t.get("via") == "collection":
        return af.Collection(**{k: to_model(c) for k, c in t["o"]}).instance_from_prior_medians()
    return build(t)


def is_floaty(o):
    return isinstance(o, (float, np.floating)) or (isinstance(o, np.ndarray) and o.ndim == 0 and o.dtype.kind == "f")


def apply_alias(obj, alias):
    """make the component at path alias[1] the very object at path alias[0]"""
    def at(o, path):
        for k in path:
            o = o[k] if isinstance(k, int) else getattr(o, k)
        return o
    src = at(obj, alias[0])
    holder = at(obj, alias[1][:-1])
    k = alias[1][-1]
    if isinstance(k, int):
        holder[k] = src
    else:
        setattr(holder, k, src)
    return obj


def abstract(o, odd=None, where=()):
    """Python object -> abstract tree.  `odd` collects leaves whose Python type is not exactly float/int."""
    if o is Holder:
        return {"x": 9}
    if isinstance(o, bool) or o is None or isinstance(o, str):
        if o is None:
            return {"x": 0}
        if isinstance(o, str) and o.startswith("s") and o[1:].isdigit():
            return {"x": int(o[1:])}
        return {"x": -1}
    if is_floaty(o):
        if odd is not None and type(o) is not float:
            odd["/".join(map(str, where))] = type(o).__name__
        # isinstance(o, float) is what the walk of the code tests: numpy.float64 passes, a 0-d array does not
        return {"f": hexf(float(o))} if isinstance(o, float) else {"a": hexf(float(o))}
    if isinstance(o, (int, np.integer)):
        return {"i": int(o)}
    if isinstance(o, list):
        return {"l": [abstract(c, odd, where + (i,)) for i, c in enumerate(o)]}
    if isinstance(o, tuple):
        return {"t": [abstract(c, odd, where + (i,)) for i, c in enumerate(o)]}
    if isinstance(o, af.ModelInstance):
        return {"o": [[k, abstract(c, odd, where + (k,))] for k, c in o.__dict__.items()
                      if isinstance(k, str) and k not in INTERNAL], "cls": "mi"}
    if isinstance(o, dict):
        return {"d": [[k, abstract(c, odd, where + (k,))] for k, c in o.items()]}
    if isinstance(o, af.Gaussian):
        # `id` is set on components made by a Model from a process-global counter: an int, never walked, left out
        return {"o": [[k, abstract(c, odd, where + (k,))] for k, c in o.__dict__.items() if k != "id"], "cls": "gauss"}
    if isinstance(o, Obj):
        return {"o": [[k, abstract(c, odd, where + (k,))] for k, c in o.__dict__.items()], "cls": "obj"}
    return {"x": -2}


def mutable_ids(o, acc):
    """ids of every mutable container reachable from o (classes are shared by design, not containers)."""
    if isinstance(o, type):
        return acc
    if isinstance(o, (list, tuple)):
        if isinstance(o, list):
            acc.add(id(o))
        for c in o:
            mutable_ids(c, acc)
    elif isinstance(o, dict):
        acc.add(id(o))
        for c in o.values():
            mutable_ids(c, acc)
    elif hasattr(o, "__dict__"):
        acc.add(id(o))
        for k, c in o.__dict__.items():
            if k != "_frozen_cache":
                mutable_ids(c, acc)
    return acc


def snapshot(objs):
    """Everything observable about the inputs: abstraction (incl. leaf types) and object identities."""
    out = []
    for o in objs:
        odd = {}
        out.append((json.dumps(abstract(o, odd), sort_keys=True), json.dumps(odd, sort_keys=True),
                    tuple(sorted(mutable_ids(o, set()))),
                    tuple((k, id(v)) for k, v in o.__dict__.items() if k != "_frozen_cache") if hasattr(o, "__dict__") else ()))
    # the class held as an attribute is shared by every instance: it must not change either
    out.append(("Holder", repr(Holder.weight), (), tuple(sorted(k for k in vars(Holder) if not k.startswith("__")))))
    return out


def oracle_value(req):
    xs = [unhex(x) for x in req["xs"]]
    ys = [unhex(y) for y in req["ys"]]
    v = unhex(req["v"])
    out = {}
    try:
        slope, intercept, *_ = linregress(xs, ys)
        res = slope * v + intercept
        out["lin"] = [hexf(slope), hexf(intercept), hexf(res)]
    except Exception as e:  # noqa
        out["lin"] = None
        out["lin_exc"] = type(e).__name__
    try:
        out["spl"] = hexf(float(CubicSpline(xs, ys)(v)))
    except Exception as e:  # noqa
        out["spl"] = None
        out["spl_exc"] = type(e).__name__
    return out


def scribble(res):
    """the user edits the instance a query handed out: every float the walk finds"""
    try:
        for path, _ in list(res.path_instance_tuples_for_class(float)):
            holder = res
            for k in path[:-1]:
                holder = holder[k] if isinstance(k, int) or isinstance(holder, dict) else getattr(holder, k)
            if isinstance(path[-1], int) or isinstance(holder, dict):
                holder[path[-1]] = -777.25
            else:
                setattr(holder, path[-1], -777.25)
    except BaseException:  # noqa  (a frozen instance refuses: nothing to edit)
        pass


def run_series(s):
    trees = s["insts"]
    NPFLOAT[0] = bool(s.get("feats", {}).get("npfloat"))
    alias = s.get("feats", {}).get("alias")

    def make():
        objs_ = [build_root(t) for t in trees]
        if alias:
            objs_ = [apply_alias(o, alias) for o in objs_]
        return objs_
    objs = make()
    if s.get("feats", {}).get("frozen"):
        for o in objs:
            o.freeze()
    built = [abstract(o) for o in objs]
    abs_ok = [drop_item_number(b) == strip(t) for b, t in zip(built, trees)]
    before = snapshot(objs)
    results = []
    interpolators = {}     # one interpolator per (order, method) -- or per named object `obj` whose series is changed
    equalities = {}        # Equality objects kept by the user and asked again (also of another interpolator)
    for q in s["queries"]:
        order = q["perm"]
        supplied = [objs[j] for j in order]
        cls = LinearInterpolator if q["method"] == "linear" else SplineInterpolator
        value = build(q["value"])
        r = {}
        try:
            key = (q["obj"], q["method"]) if q.get("obj") else (tuple(order), q["method"])
            how = q.get("how")
            if key not in interpolators:
                interpolators[key] = cls(list(supplied))
            elif how == "assign":
                interpolators[key].instances = list(supplied)           # the public attribute is given a new list
            elif how == "edit":
                lst = interpolators[key].instances                       # ... or the list it hands out is edited in place
                if len(supplied) == len(lst) + 1 and all(a is b for a, b in zip(lst, supplied)):
                    lst.append(supplied[-1])
                elif len(supplied) == len(lst) - 1 and all(a is b for a, b in zip(lst, supplied)):
                    lst.pop()
                elif len(supplied) == len(lst) and all(a is b for a, b in zip(reversed(lst), supplied)):
                    lst.reverse()
                else:
                    lst[:] = supplied
            interp = interpolators[key]
            route = q.get("route", "chain")
            if route == "explicit":
                eq = Equality(InterpolatorPath(list(q["path"])), value)
            elif route == "reuse":
                ek = (tuple(q["path"]), json.dumps(q["value"], sort_keys=True))
                if ek not in equalities:
                    p = interp
                    for name in q["path"]:
                        p = getattr(p, name)
                    equalities[ek] = (p == value)
                eq = equalities[ek]
            elif route == "prefix":
                # the user keeps every prefix path object and also extends / compares it in other ways
                p = getattr(interp, q["path"][0])
                kept = [p]
                for name in q["path"][1:]:
                    _decoy = getattr(p, "decoy_" + name)
                    _other = (p == 123.25)
                    p = getattr(p, name)
                    kept.append(p)
                _decoy = p.decoy_leaf
                _other = (p == -1.5)
                eq = (p == value)
            else:
                p = interp
                for name in q["path"]:
                    p = getattr(p, name)
                eq = (p == value)
            res = interp[eq]
            pos = [i for i, o in enumerate(supplied) if o is res]
            if pos:
                r["kind"] = "same"
                r["index"] = pos[0]
            else:
                odd = {}
                r["kind"] = "new"
                r["tree"] = abstract(res, odd)
                r["odd"] = odd
                shared = mutable_ids(res, set()) & set().union(*[set(b[2]) for b in before])
                r["shares_mutable_with_inputs"] = bool(shared)
                if q.get("scribble"):
                    scribble(res)
            r["list_unchanged"] = len(interp.instances) == len(supplied) and all(a is b for a, b in zip(interp.instances, supplied))
        except BaseException as e:  # noqa
            r["kind"] = "exc"
            r["exc"] = exc_name(e)
            r["msg"] = str(e)[:200]
            r["list_unchanged"] = True
        after = snapshot(objs)
        r["inputs_unchanged"] = after == before
        if not r["inputs_unchanged"]:
            r["changed"] = [i for i, (a, b) in enumerate(zip(before, after)) if a != b]
            objs = make()      # fresh inputs so later queries stay meaningful
            before = snapshot(objs)
            interpolators = {}
        r["oracle"] = [oracle_value(req) for req in q.get("requests", [])]
        results.append(r)
    return {"abs_ok": abs_ok, "built": built, "queries": results}


def _canon_leaf(t):
    if "f" in t:
        return {"f": hexf(unhex(t["f"]))}
    if "a" in t:
        return {"a": hexf(unhex(t["a"]))}
    return dict(t)


def drop_item_number(t):
    """instances made by Collection carry an int attribute `item_number` at every collection level and
    an int attribute `id` on every component made by a Model"""
    if "o" in t:
        return {"o": [[k, drop_item_number(c)] for k, c in t["o"] if k not in ("item_number", "id")], "cls": t["cls"]}
    if "l" in t:
        return {"l": [drop_item_number(c) for c in t["l"]]}
    if "t" in t:
        return {"t": [drop_item_number(c) for c in t["t"]]}
    if "d" in t:
        return {"d": [[k, drop_item_number(c)] for k, c in t["d"]]}
    return t


def strip(t):
    """canonical form of an abstract tree as `abstract` prints it"""
    if "o" in t:
        return {"o": [[k, strip(c)] for k, c in t["o"]], "cls": t.get("cls", "mi")}
    if "l" in t:
        return {"l": [strip(c) for c in t["l"]]}
    if "t" in t:
        return {"t": [strip(c) for c in t["t"]]}
    if "d" in t:
        return {"d": [[k, strip(c)] for k, c in t["d"]]}
    return _canon_leaf(t)


def main():
    payload = json.load(open(sys.argv[1]))
    out = []
    for s in payload["cases"]:
        try:
            if s["kind"] == "series":
                out.append({"ok": run_series(s)})
            elif s["kind"] == "linreg":
                out.append({"ok": {"oracle": oracle_value(s)}})
            else:
                raise ValueError(s["kind"])
        except BaseException as e:  # noqa
            import traceback
            out.append({"exc": exc_name(e), "msg": traceback.format_exc()[-600:]})
    json.dump({"results": out}, open(sys.argv[2], "w"))


main()
