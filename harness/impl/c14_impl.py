"""C14 implementation driver: runs the real pools / job runners of /repo under a
deterministic schedule (or free-running) and reports observables.

Steering (no source hooks, harness-side only):
  * every evaluation done by a worker process first waits at a per-worker gate
    (a multiprocessing.Semaphore inherited through fork); the schedule decides the
    order in which gates are opened, i.e. the relative speed of the workers;
  * in the parent, every worker's result queue is wrapped in a proxy: each call of
    `queue.empty()` by the code under test is one poll tick `P` of the schedule; the
    schedule actions placed before that `P` (`F w`: worker w finishes its next job,
    `T w`: worker w of run_jobs takes the next job from the shared queue) are executed
    first: gate opened, the result awaited on the REAL multiprocessing queue and moved
    to a FIFO buffer that `empty()`/`get()` then serve.
The code under test (SneakyPool.map, SneakyProcess.run, Process.run, Process.run_jobs,
AbstractInitializer.samples_from_model, emcee's compute_log_prob via pool.map) is unmodified.
"""
import gc
import json
import logging
import os
import queue as pyqueue
import signal
import sys
import time
import multiprocessing as mp
from collections import deque
from types import SimpleNamespace

from vimpl_common import setup

af, conf = setup()
logging.disable(logging.CRITICAL)
os.environ.pop("PYAUTOFIT_TEST_MODE", None)

import numpy as np
from autofit import exc as af_exc
from autofit.non_linear import fitness as fit_mod
from autofit.non_linear import initializer as init_mod
from autofit.non_linear.parallel import sneaky as sneaky_mod
from autofit.non_linear.parallel import process as process_mod
from autofit.non_linear.parallel.process import StopCommand
from autofit.non_linear.grid.grid_search.job import JobResult as GridJobResult
from autofit.non_linear.grid.grid_search.result_builder import ResultBuilder
from autofit.non_linear.result import Placeholder

MAXW = 4
NEVAL = 4096
WAIT = 40.0          # seconds a scheduled completion may take before the run is declared stuck
GATES = [mp.Semaphore(0) for _ in range(MAXW)]
# Shared state is LOCK-FREE on purpose: worker processes are terminated at the end of every case, and a worker killed
# while it holds the lock of a synchronized Value/Array would leave that lock held for ever (the parent then blocks in
# `GATED.value = 0` where no alarm can help).  GATED is written by the parent only; evaluation counts are kept in one
# array per worker (each written by that worker only) and summed by the parent.
GATED = mp.Value("i", 0, lock=False)


class EvalCounts:
    def __init__(self):
        self.arrays = [mp.RawArray("i", NEVAL) for _ in range(MAXW + 1)]

    def bump(self, jid):
        w = _worker_index()
        self.arrays[w if w is not None and w < MAXW else MAXW][jid] += 1

    def __getitem__(self, jid):
        return sum(a[jid] for a in self.arrays)

    def __setitem__(self, jid, value):
        for a in self.arrays:
            a[jid] = 0


EVALS = EvalCounts()


def _die_with_parent():
    """PR_SET_PDEATHSIG: nothing of this driver survives the process that started it"""
    try:
        import ctypes
        ctypes.CDLL("libc.so.6", use_errno=True).prctl(1, signal.SIGKILL)
    except Exception:  # noqa
        pass


class _AfterFork:
    pass


_AFTER_FORK = _AfterFork()
_die_with_parent()
mp.util.register_after_fork(_AFTER_FORK, lambda _obj: _die_with_parent())


class Stall(Exception):
    """the code under test waits for something that the schedule can never deliver"""


class CaseTimeout(BaseException):
    pass


def _alarm(*_):
    raise CaseTimeout()


signal.signal(signal.SIGALRM, _alarm)


class WorkError(Exception):
    pass


def _worker_index():
    name = mp.current_process().name
    return int(name) if name.isdigit() else None


def _enter(jid, delay_ms=0):
    """called at the start of every evaluation inside a worker process"""
    w = _worker_index()
    if w is None:
        return  # serial reference evaluation in the main process
    if GATED.value:
        GATES[w].acquire()
    elif delay_ms:
        time.sleep(delay_ms / 1000.0)
    EVALS.bump(jid)


def fval(x):
    return x * x + 3 * x + 7


# ---- unusual but legal results (mode 2: the evaluation RETURNS UNUSUAL[x % len]) and exceptions of user code
# (mode 3: it RAISES a fresh copy of EXC_KINDS[x % len]).  A result is reported as the code -(1+u), an exception as
# -(100+k), and only when type and value came back exactly (repr distinguishes -0.0, numpy scalars, 0-d arrays).
import numpy as _np

UNUSUAL = [0, 0.0, -0.0, False, None, "", [], (), {}, _np.float64(0.0), _np.array(0.0), _np.array([1.5]), _np.int64(0),
           float("nan"), True, -7, [None], _np.bool_(False), _np.float64(-0.0), 0j]


class NumberedError(Exception):
    """an exception of user code that happens to carry the attribute names of a job result"""

    def __init__(self, x):
        super().__init__(x)
        self.number = x
        self.result = None
        self.result_list_row = [x]


class FalsyError(Exception):
    """an exception object that is false in a boolean context"""

    def __bool__(self):
        return False

    def __len__(self):
        return 0


def make_exc(k):
    return [lambda: ValueError(), lambda: KeyError(0), lambda: NumberedError(0), lambda: ZeroDivisionError("division by zero"),
            lambda: OSError(0, ""), lambda: FalsyError(), lambda: NumberedError(1), lambda: AssertionError()][k]()


N_EXC = 8


def _same(a, b):
    return type(a) is type(b) and repr(a) == repr(b)


def enc(v):
    """a yielded value as JSON: ints as they are, recognised unusual values as their code"""
    if type(v) is int and v >= 7:
        return v
    for u, proto in enumerate(UNUSUAL):
        if _same(v, proto):
            return -(1 + u)
    return "unrecognised:%s:%s" % (type(v).__name__, repr(v)[:60])


def enc_exc(e):
    """a raised exception: WorkError(x) -> x, a recognised unusual kind -> its code, anything else -> None"""
    if type(e) is WorkError:
        return e.args[0] if e.args else None
    for k in range(N_EXC):
        proto = make_exc(k)
        if type(e) is type(proto) and e.args == proto.args and getattr(e, "number", None) == getattr(proto, "number", None):
            return -(100 + k)
    return None


def outcome_of(x, mode):
    """what evaluating (x, mode) does, after the gate"""
    if mode == 1:
        raise WorkError(x)
    if mode == 2:
        return UNUSUAL[x % len(UNUSUAL)]
    if mode == 3:
        if x % N_EXC == 3:
            return 1 / 0
        raise make_exc(x % N_EXC)
    return fval(x)


def work(args):
    """the function mapped over the batch: args = [jid, x, mode, delay_ms]"""
    jid, x, mode, delay = args
    _enter(jid, delay)
    return outcome_of(x, mode)


SCALARS = [0, 0.0, -0.0, False, None, _np.float64(2.5), _np.int64(3), _np.float64(0.0), True, -4, 1.5, _np.bool_(False)]


def scalar_arg(x):
    """batch entry x of a scalar batch as the plain value handed to map: 1..59 as they are, 100+s -> SCALARS[s]"""
    return SCALARS[x - 100] if x >= 100 else x


def work_scalar(args):
    """mapped over plain non-iterable values: SneakyPool.map wraps such an argument as (x,); the evaluation must see
    exactly that value (type included)"""
    v = args[0]
    if type(v) is int and v >= 1:
        _enter(v)
        return fval(v)
    for s_, proto in enumerate(SCALARS):
        if _same(v, proto):
            _enter(100 + s_)
            return 500000 + s_
    _enter(99)
    return 499999


def work_fit(args):
    """mapped over tuples that contain the pool's fitness object at some position: SneakyJob strips it before the
    job is pickled and the worker puts its own copy back AT THE SAME POSITION"""
    pos = [i for i, a in enumerate(args) if isinstance(a, fit_mod.Fitness)]
    rest = [a for a in args if not isinstance(a, fit_mod.Fitness)]
    jid, x, mode = rest
    _enter(jid)
    if mode:
        return outcome_of(x, mode)
    return fval(x) * 100 + (10 * len(pos) + pos[0] if pos else 99)


# ---- KINDS of callables mapped through SneakyPool.map (as the function, or as one of the arguments).  A sampler maps its
# own callables through the pool: the log likelihood (Fitness, emcee's _FunctionWrapper, dynesty's _function_wrapper named
# "loglikelihood": replaced by the worker's own copy of the fitness) and OTHER callables (dynesty's wrapped prior transform,
# partials, callable objects, plain functions: evaluated as they are).
def _triple(a):
    return int(a[0]), int(a[1]), int(a[2])


def work_arr(a, off=1000000):
    """a function that is NOT the likelihood (e.g. a prior transform): a = [jid, x, mode] (list, tuple or numpy array)"""
    jid, x, mode = _triple(a)
    if jid >= 0:
        _enter(jid)
    v = outcome_of(x, mode)
    return v + off if mode == 0 else v


def small_pt(a):
    """a callable handed over as an ARGUMENT that is not the likelihood"""
    return 3 * int(a[1]) + 1


class Adder:
    """a picklable callable object"""

    def __init__(self, off):
        self.off = off

    def __call__(self, a):
        return work_arr(a, self.off)


def work_callarg(args):
    """mapped over tuples that hold ONE callable at some position: the evaluation calls it"""
    pos = [i for i, a in enumerate(args) if callable(a)]
    rest = [a for a in args if not callable(a)]
    jid, x, mode = _triple(rest)
    _enter(jid)
    if mode:
        return outcome_of(x, mode)
    return 10 * int(args[pos[0]]([-1, x, 0])) + pos[0]


def make_callable(kind, fitness):
    import functools
    from dynesty.dynesty import _function_wrapper
    from emcee.ensemble import _FunctionWrapper
    if kind == "fitness":
        return fitness
    if kind == "emcee_wrap":
        return _FunctionWrapper(fitness.__call__, None, None)
    if kind == "dynesty_ll":
        return _function_wrapper(fitness.__call__, [], {}, name="loglikelihood")
    if kind == "dynesty_pt":
        return _function_wrapper(work_arr, [], {}, name="prior_transform")
    if kind == "dynesty_other":
        return _function_wrapper(work_arr, [], {"off": 4000000}, name="input")
    if kind == "partial":
        return functools.partial(work_arr, off=2000000)
    if kind == "object":
        return Adder(3000000)
    if kind == "plain":
        return work_arr
    if kind == "arg_dynesty_pt":
        return _function_wrapper(small_pt, [], {}, name="prior_transform")
    if kind == "arg_partial":
        return functools.partial(work_arr, off=5)
    raise KeyError(kind)


def work_big(args):
    """a result far larger than a pipe buffer"""
    jid, x, mode, delay = args
    _enter(jid, delay)
    if mode == 1:
        raise WorkError(x)
    return (fval(x), bytes([x % 251]) * 1200000)


# ---------------------------------------------------------------------------
# steering
# ---------------------------------------------------------------------------

class Steer:
    def __init__(self, schedule, nworkers, shared_jobs=None):
        self.sched = deque(schedule)
        self.n = nworkers
        self.bufs = [deque() for _ in range(nworkers)]
        self.real = [None] * nworkers
        self.procs = [None] * nworkers
        self.submitted = [0] * nworkers
        self.finished = [0] * nworkers
        self.consumed = [0] * nworkers
        self.exited = [False] * nworkers
        self.shared_jobs = shared_jobs      # run_jobs: number of jobs in the shared queue
        self.taken = 0
        self.ticks = 0
        self.idle = 0
        self.forced = 0                     # completions forced after the schedule ran out

    # -- SneakyPool: worker w finishes its next pending job
    def finish(self, w):
        if w >= self.n or self.finished[w] >= self.submitted[w]:
            return
        GATES[w].release()
        try:
            item = self.real[w].get(timeout=WAIT)
        except pyqueue.Empty:
            raise Stall("worker %d never delivered the result of its next job" % w)
        self.bufs[w].append(item)
        self.finished[w] += 1

    # -- run_jobs: worker w takes the next job from the shared queue (or exits)
    def take(self, w):
        if w >= self.n or self.exited[w]:
            return
        if self.taken >= self.shared_jobs:
            GATES[w].release()
            self.exited[w] = True
            return
        GATES[w].release()
        t0 = time.time()
        while True:
            try:
                item = self.real[w].get(timeout=0.01)
                self.bufs[w].append(item)
                self.taken += 1
                return
            except pyqueue.Empty:
                pass
            if not self.procs[w].is_alive():
                try:
                    item = self.real[w].get(timeout=0.05)
                    self.bufs[w].append(item)
                    self.taken += 1
                except pyqueue.Empty:
                    self.exited[w] = True
                return
            if time.time() - t0 > WAIT:
                raise Stall("worker %d took a job but never delivered a result" % w)

    def act(self, a):
        if a[0] == "F":
            self.finish(a[1])
        elif a[0] == "T":
            self.take(a[1])

    def pending(self):
        if self.shared_jobs is not None:
            return self.taken < self.shared_jobs and not all(self.exited)
        return any(self.finished[w] < self.submitted[w] for w in range(self.n))

    def tick(self):
        """one `queue.empty()` call of the code under test"""
        self.ticks += 1
        while self.sched:
            a = self.sched.popleft()
            if a[0] == "P":
                return
            self.act(a)
        self.idle += 1
        if self.idle > 200 + 50 * self.n and self.pending():
            # the schedule is exhausted but work is outstanding: let it complete in worker order
            self.forced += 1
            for w in range(self.n):
                if self.shared_jobs is not None:
                    self.take(w)
                else:
                    self.finish(w)
        if self.idle > 20000:
            raise Stall("main loop keeps polling although nothing is outstanding")

    def wait_for(self, w, until_poll=False):
        """blocking get() on an empty buffer: the main process waits for worker w (with until_poll: only until
        the next P of the schedule, which stands for the expiry of the caller's timeout)"""
        while not self.bufs[w]:
            if self.sched:
                a = self.sched.popleft()
                if a[0] == "P":
                    if until_poll:
                        return
                    continue
                self.act(a)
                continue
            before = len(self.bufs[w])
            if self.shared_jobs is not None:
                self.take(w)
            else:
                self.finish(w)
            if len(self.bufs[w]) == before:
                if until_poll:
                    return
                raise Stall("main process blocks on worker %d which has nothing to deliver" % w)


class ResultQueueProxy:
    """parent side: FIFO buffer fed by the schedule; child side: put() forwards to the real queue"""

    def __init__(self, real, steer, w):
        self._real, self._steer, self._w = real, steer, w
        steer.real[w] = real

    def put(self, obj, *a, **k):
        return self._real.put(obj, *a, **k)

    def put_nowait(self, obj):
        return self._real.put_nowait(obj)

    def empty(self):
        self._steer.tick()
        return not self._steer.bufs[self._w]

    def qsize(self):
        return len(self._steer.bufs[self._w])

    def get(self, block=True, timeout=None):
        buf = self._steer.bufs[self._w]
        if not buf:
            if not block:
                raise pyqueue.Empty
            if timeout is not None:
                # a bounded wait: the schedule decides whether the worker makes it in time -- completions scheduled
                # before the next P arrive, the next P is the expiry of the timeout
                self._steer.wait_for(self._w, until_poll=True)
                if not buf:
                    raise pyqueue.Empty
            else:
                self._steer.wait_for(self._w)
        self._steer.consumed[self._w] += 1
        return buf.popleft()

    def get_nowait(self):
        return self.get(False)

    def close(self):
        return self._real.close()

    def join_thread(self):
        return self._real.join_thread()

    def cancel_join_thread(self):
        return self._real.cancel_join_thread()


class JobQueueProxy:
    """parent side of a SneakyProcess job queue: counts submissions per worker"""

    def __init__(self, real, steer, w):
        self._real, self._steer, self._w = real, steer, w

    def put(self, obj, *a, **k):
        if obj is not StopCommand:
            self._steer.submitted[self._w] += 1
        return self._real.put(obj, *a, **k)

    def __getattr__(self, name):
        return getattr(self._real, name)


def cleanup_children():
    # a finished map that raised leaves the pool in a reference cycle (exception -> traceback -> generator
    # frame -> exception); collect it now so that SneakyPool.__del__ runs here and not inside a later fork
    gc.collect()
    GATED.value = 0
    alive = mp.active_children()
    for p in alive:
        p.terminate()
    for p in alive:
        p.join(2.0)
    for p in mp.active_children():
        p.kill()
    for g in GATES:
        while g.acquire(False):
            pass
    for i in range(NEVAL):
        EVALS[i] = 0


class SteeredPool:
    """a real SneakyPool whose queues are steered (parent side only; the worker processes were
    forked inside SneakyPool.__init__ and keep the real queues)"""

    def __init__(self, processes, fitness=None, paths=None):
        GATED.value = 1
        self.pool = sneaky_mod.SneakyPool(processes, fitness, paths)
        self.n = processes
        self.steer = Steer([], processes)
        for w, p in enumerate(self.pool.processes):
            p.job_queue = JobQueueProxy(p.job_queue, self.steer, w)
            p.queue = ResultQueueProxy(p.queue, self.steer, w)

    def begin(self, schedule):
        st = self.steer
        st.sched = deque(schedule)
        st.idle = 0
        st.ticks = 0
        st.forced = 0
        return st

    def residue(self):
        """(pending jobs, finished but unconsumed results) per worker"""
        st = self.steer
        return ([st.submitted[w] - st.finished[w] for w in range(self.n)],
                [len(st.bufs[w]) for w in range(self.n)])

    def close(self):
        pool = self.pool
        self.pool = None
        GATED.value = 0
        for g in GATES:
            for _ in range(64):
                g.release()
        del pool
        gc.collect()


def evals_of(jids):
    return [EVALS[j] for j in jids]


def consume(gen, abandon_after=None, raw=False):
    ys, raised = [], None
    try:
        for k, y in enumerate(gen):
            ys.append(y)
            if abandon_after is not None and k + 1 >= abandon_after:
                gen.close()
                break
    except WorkError as e:
        raised = ["WorkError", e.args[0] if e.args else None]
    except (Stall, CaseTimeout):
        raise
    except Exception as e:  # noqa
        code = enc_exc(e)
        raised = ["WorkError", code] if code is not None else [type(e).__name__, str(e)[:80]]
    return (ys if raw else [enc(y) for y in ys]), raised


def serial_outcomes(batch, base):
    out = []
    for i, (x, mode) in enumerate(batch):
        try:
            out.append(["ok", work([base + i, x, mode, 0])])
        except WorkError as e:
            out.append(["exc", e.args[0]])
    return out


# ---------------------------------------------------------------------------
# case kinds
# ---------------------------------------------------------------------------

def serial_of(batch, base, fitness):
    """evaluate one after another in this process, the way the batch is handed to map"""
    out = []
    for i, (x, mode) in enumerate(batch["jobs"]):
        try:
            if batch.get("fkind"):
                out.append(["ok", enc(make_callable(batch["fkind"], fitness)((base + i, x, mode)))])
            elif batch.get("akind"):
                a = [base + i, x, mode]
                a.insert(batch["apos"], make_callable(batch["akind"], fitness))
                out.append(["ok", enc(work_callarg(tuple(a)))])
            elif batch.get("scalar"):
                out.append(["ok", enc(work_scalar([scalar_arg(x)]))])
            elif batch.get("fitpos") is not None:
                a = [base + i, x, mode]
                a.insert(batch["fitpos"], fitness)
                out.append(["ok", work_fit(a)])
            else:
                out.append(["ok", enc(work([base + i, x, mode, 0]))])
        except Exception as e:  # noqa
            out.append(["exc", enc_exc(e)])
    return out


def case_smap(c):
    """SneakyPool.map: several batches on one pool, steered"""
    fitness = WorkFitness()
    sp = SteeredPool(c["procs"], fitness=fitness, paths=None)
    out = []
    try:
        for b, batch in enumerate(c["batches"]):
            base = 64 * b
            jobs = batch["jobs"]
            st = sp.begin(batch["sched"])
            if batch.get("fkind"):
                # the KIND of callable that is mapped (the serial loop calls the same object on the same tuples)
                fn = make_callable(batch["fkind"], fitness)
                args_list = [(base + i, x, mode) for i, (x, mode) in enumerate(jobs)]
                jids = [base + i for i in range(len(jobs))]
            elif batch.get("akind"):
                # a callable among the ARGUMENTS, at position apos
                args_list = []
                for i, (x, mode) in enumerate(jobs):
                    a = [base + i, x, mode]
                    a.insert(batch["apos"], make_callable(batch["akind"], fitness))
                    args_list.append(tuple(a))
                fn, jids = work_callarg, [base + i for i in range(len(jobs))]
            elif batch.get("scalar"):
                fn, args_list, jids = work_scalar, [scalar_arg(x) for x, _ in jobs], [x for x, _ in jobs]
            elif batch.get("fitpos") is not None:
                args_list = []
                for i, (x, mode) in enumerate(jobs):
                    a = [base + i, x, mode]
                    a.insert(batch["fitpos"], fitness)
                    args_list.append(tuple(a))
                fn, jids = work_fit, [base + i for i in range(len(jobs))]
            else:
                fn, args_list = work, [(base + i, x, mode, 0) for i, (x, mode) in enumerate(jobs)]
                jids = [base + i for i in range(len(jobs))]
            before = evals_of(jids)
            ys, raised = consume(sp.pool.map(fn, args_list, log_info=False), batch.get("abandon"))
            pend, resq = sp.residue()
            out.append({
                "serial": serial_of(batch, base, fitness), "yields": ys, "raised": raised,
                "pend": pend, "resq": resq, "evals": [a - b0 for a, b0 in zip(evals_of(jids), before)],
                "ticks": st.ticks, "forced": st.forced,
            })
    finally:
        sp.close()
    return {"batches": out}


def case_smap_twofit(c):
    """two fitness objects among the arguments: SneakyJob refuses, map raises before anything is queued"""
    fitness = TableFitness([("ok", 1)])
    sp = SteeredPool(c["procs"], fitness=fitness, paths=None)
    try:
        sp.begin([])
        ys, raised = consume(sp.pool.map(work_fit, [(0, fitness, fitness, 1)], log_info=False))
        pend, resq = sp.residue()
        return {"yields": ys, "raised": raised, "pend": pend, "resq": resq, "evals": evals_of([0])}
    finally:
        sp.close()


def case_smap_free(c):
    """SneakyPool.map free-running (real OS scheduling, small sleeps inside the jobs, optionally 1.2 MB results)"""
    GATED.value = 0
    pool = sneaky_mod.SneakyPool(c["procs"], None, None)
    out = []
    try:
        for b, batch in enumerate(c["batches"]):
            base = 64 * b
            jobs = batch["jobs"]
            args_list = [(base + i, x, mode, d) for i, (x, mode, d) in enumerate(jobs)]
            big = bool(batch.get("big"))
            ys, raised = consume(pool.map(work_big if big else work, args_list, log_info=False), raw=big)
            if big:
                bad = [1 for v, blob in ys if len(blob) != 1200000 or len(set(blob[:1000])) != 1]
                ys = [v for v, blob in ys] if not bad else ["corrupt payload"]
            time.sleep(0.03)
            resq = [0 if p.queue.empty() else 1 for p in pool.processes]
            pend = [0 if p.job_queue.empty() else 1 for p in pool.processes]
            out.append({
                "serial": serial_outcomes([(x, m) for x, m, _ in jobs], base), "yields": ys, "raised": raised,
                "pend": pend, "resq": resq, "evals": evals_of([base + i for i in range(len(jobs))]),
            })
    finally:
        del pool
    return {"batches": out}


class Mul:
    def __init__(self, m):
        self.m = m

    def __call__(self, x):
        return self.m * x + 1


def case_sneakier(c):
    """SneakierPool (multiprocessing.Pool behind a class-global function cache), oracle only"""
    from autofit.non_linear.parallel import SneakierPool
    out = []

    def use(pool, xs):
        try:
            with pool as p:
                return ["ok", [int(v) for v in p.map(p.fitness, xs)]]
        except Exception as e:  # noqa
            return ["exc", type(e).__name__, str(e)[:80]]

    specs = c["pools"]
    if c["order"] in ("two-maps", "reenter"):
        # ONE pool object used twice: two maps inside one with-block / the with-block entered a second time
        sp = specs[0]
        pool = SneakierPool(processes=c["procs"], fitness=Mul(sp["mul"]))
        if c["order"] == "two-maps":
            try:
                with pool as p:
                    for xs in (sp["xs"], sp["xs2"]):
                        out.append(["ok", [int(v) for v in p.map(p.fitness, xs)]])
            except Exception as e:  # noqa
                out.append(["exc", type(e).__name__, str(e)[:80]])
        else:
            out.append(use(pool, sp["xs"]))
            out.append(use(pool, sp["xs2"]))
    elif c["order"] == "constructed-first":
        pools = [SneakierPool(processes=c["procs"], fitness=Mul(sp["mul"])) for sp in specs]
        for pool, sp in zip(pools, specs):
            out.append(use(pool, sp["xs"]))
    else:
        for sp in specs:
            out.append(use(SneakierPool(processes=c["procs"], fitness=Mul(sp["mul"])), sp["xs"]))
    return {"results": out}


class TableFitness(fit_mod.Fitness):
    """a Fitness whose value is a table lookup on round(parameters[0]) (gated like every evaluation)"""

    def __init__(self, table, scale=1.0):
        super().__init__(model=None, analysis=None)
        self.table = table
        self.scale = scale

    def __call__(self, parameters, *kwargs):
        k = int(round(float(parameters[0]) * self.scale))
        _enter(k)
        kind, v = self.table[k]
        if kind == "ok":
            return float(v)
        if kind == "fitexc":
            raise af_exc.FitException()
        if kind == "nan":
            return float("nan")
        if kind == "low":
            return -1.0e99
        raise WorkError(v)


class WorkFitness(fit_mod.Fitness):
    """the fitness object of the smap pools: parameters = [jid, x, mode]; gated and counted like every evaluation
    (jid < 0: called from inside another evaluation, no gate)"""

    def __init__(self):
        super().__init__(model=None, analysis=None)

    def __call__(self, parameters, *kwargs):
        jid, x, mode = _triple(parameters)
        if jid >= 0:
            _enter(jid)
        return outcome_of(x, mode)


class ScriptedInitializer(init_mod.AbstractInitializer):
    def __init__(self, n_stream):
        self.k = 0
        self.n_stream = n_stream

    def _generate_unit_parameter_list(self, model):
        if self.k >= self.n_stream:
            raise Stall("initializer drew more points than the scripted stream holds")
        u = self.k / 1024.0
        self.k += 1
        return [u]


def _init_call(ini, c):
    """one samples_from_model call of the initializer object `ini` (its scripted stream restarted for this call)"""
    table = [tuple(t) for t in c["stream"]]
    fitness = TableFitness(table)
    model = af.Collection(p=af.UniformPrior(lower_limit=0.0, upper_limit=1024.0))
    scheds = deque(c["scheds"])
    created = []

    class PatchedPool:
        def __new__(cls, processes, fit, paths, *a, **k):
            sp = SteeredPool(processes, fit, paths)
            created.append(sp)
            real_map = sp.pool.map

            def map_(function, args_list, log_info=True):
                sp.begin(scheds.popleft() if scheds else [])
                yield from real_map(function=function, args_list=args_list, log_info=log_info)

            sp.pool.map = map_
            return sp.pool

    ini.k = 0
    ini.n_stream = len(table)
    saved = init_mod.SneakyPool
    init_mod.SneakyPool = PatchedPool
    res = {}
    try:
        try:
            units, params, foms = ini.samples_from_model(
                total_points=c["total"], model=model, fitness=fitness, paths=None, n_cores=c["n"])
            res = {"ks": [int(round(p[0])) for p in params], "uks": [int(round(u[0] * 1024)) for u in units],
                   "foms": [int(f) for f in foms], "raised": None}
        except WorkError as e:
            res = {"raised": ["WorkError", e.args[0]]}
        except (Stall, CaseTimeout):
            raise
        except Exception as e:  # noqa
            res = {"raised": [type(e).__name__, str(e)[:80]]}
        res["drawn"] = ini.k
        res["evals"] = evals_of(range(len(table)))
        res["pools"] = len(created)
        if created:
            res["pend"], res["resq"] = created[0].residue()
    finally:
        init_mod.SneakyPool = saved
        for sp in created:
            sp.close()
    return res


def case_init(c):
    """AbstractInitializer.samples_from_model with n_cores processes, steered; with "again": ONE initializer object used for
    a second call with another fitness, another number of cores and another number of points (each call is compared with
    what a fresh initializer gives: its own stream)"""
    ini = ScriptedInitializer(len(c["stream"]))
    res = _init_call(ini, c)
    if c.get("again"):
        # the first call's pool has been dropped (its workers got their StopCommand); nothing is killed here: whatever
        # the initializer object still holds on to stays alive, as it would in a user's process
        gc.collect()
        time.sleep(0.05)
        for g in GATES:
            while g.acquire(False):
                pass
        for i in range(NEVAL):
            EVALS[i] = 0
        res["again"] = _init_call(ini, c["again"])
    return res


def case_emcee(c):
    """emcee's EnsembleSampler.compute_log_prob through SneakyPool.map (positional pairing)"""
    import emcee
    vals = c["vals"]
    table = [("ok", v) for v in vals]
    fitness = TableFitness(table)
    sp = SteeredPool(c["procs"], fitness, None)
    try:
        sampler = emcee.EnsembleSampler(nwalkers=len(vals), ndim=1, log_prob_fn=fitness.__call__, pool=sp.pool)
        st = sp.begin(c["sched"])
        coords = np.array([[float(k)] for k in c["order"]])
        log_prob, _ = sampler.compute_log_prob(coords)
        pend, resq = sp.residue()
        return {"log_prob": [int(v) for v in log_prob], "pend": pend, "resq": resq,
                "evals": evals_of(range(len(vals)))}
    finally:
        sp.close()


class SmoothFitness(fit_mod.Fitness):
    """a deterministic log posterior of the walker position (evaluated in the workers, free-running)"""

    def __init__(self):
        super().__init__(model=None, analysis=None)

    def __call__(self, parameters, *kwargs):
        x, y = float(parameters[0]), float(parameters[1])
        time.sleep(0.002 * (int(abs(x) * 1000) % 3))     # walkers take different times
        return -((x - 3.0) ** 2) - 0.5 * (y + 1.0) ** 2


def case_emcee_run(c):
    """several emcee iterations through a free-running SneakyPool, driven the way emcee/search.py drives the
    sampler (EnsembleSampler(log_prob_fn=fitness.__call__, pool=pool); sample(initial_state=..., iterations=...,
    skip_initial_state_check=True, store=True)): every stored log probability must be the value at its own position"""
    import emcee
    GATED.value = 0
    fitness = SmoothFitness()
    pool = sneaky_mod.SneakyPool(c["procs"], fitness, None)
    try:
        rs = np.random.RandomState(c["seed"])
        sampler = emcee.EnsembleSampler(nwalkers=c["walkers"], ndim=2, log_prob_fn=fitness.__call__, pool=pool)
        sampler._random = rs
        state = rs.uniform(-1.0, 5.0, size=(c["walkers"], 2))
        for _ in sampler.sample(initial_state=state, iterations=c["steps"], progress=False,
                                skip_initial_state_check=True, store=True):
            pass
        chain = sampler.get_chain()
        logp = sampler.get_log_prob()
        bad = 0
        for t in range(chain.shape[0]):
            for w in range(chain.shape[1]):
                x, y = chain[t, w]
                if abs((-((x - 3.0) ** 2) - 0.5 * (y + 1.0) ** 2) - logp[t, w]) > 1e-12:
                    bad += 1
        return {"stored": int(chain.shape[0] * chain.shape[1]), "mismatched": bad,
                "accepted": int(sampler.backend.accepted.sum())}
    finally:
        del pool


class NumJob(process_mod.AbstractJob):
    def __init__(self, number, x, mode, delay=0):
        super().__init__(number=number)
        self.x, self.mode, self.delay = x, mode, delay

    def perform(self):
        w = _worker_index()
        if w is not None:
            if not GATED.value and self.delay:
                time.sleep(self.delay / 1000.0)
            EVALS.bump(self.number)
        v = outcome_of(self.x, self.mode)
        return GridJobResult(SimpleNamespace(samples_summary=v), [self.number, v], self.number)


class WorkerJobQueue:
    """child side of the shared job queue of run_jobs: the worker waits at its gate before it looks at
    the queue (so the schedule decides which worker takes which job).  One gate per take: at `empty()`
    (the code as it is tests `empty()` and then calls `get()`), or at `get()` when no `empty()` preceded."""

    def __init__(self, real, w):
        self._real, self._w = real, w
        self._passed = False

    def _gate(self):
        if _worker_index() is not None and GATED.value:
            GATES[self._w].acquire()
            return True
        return False

    def empty(self):
        if self._gate():
            self._passed = True
            # the schedule opens a gate long after the parent has queued the jobs; wait out the feeder thread
            for _ in range(30):
                if not self._real.empty():
                    return False
                time.sleep(0.005)
            return True
        return self._real.empty()

    def get(self, *a, **k):
        if not self._passed:
            self._gate()
        self._passed = False
        return self._real.get(*a, **k)

    def __getattr__(self, name):
        return getattr(self._real, name)


STEER = [None]


class GatedProcess(process_mod.Process):
    def __init__(self, name, job_queue, **kw):
        super().__init__(name, job_queue, **kw)
        w = int(name)
        st = STEER[0]
        self.job_queue = WorkerJobQueue(job_queue, w)
        st.procs[w] = self
        self.queue = ResultQueueProxy(self.queue, st, w)

    def join(self, timeout=None):
        # after the collection loop run_jobs joins every worker with a timeout; a worker that waits at its
        # gate would only burn that timeout (what happens after the loop is not an observable of C14)
        if self.is_alive():
            self.terminate()
        return super().join(timeout)


def describe(item):
    if isinstance(item, Exception):
        return ["exc", enc_exc(item)]
    return ["ok", item.number, enc(item.result.samples_summary)]


def keyed_views(items, total):
    good = [it for it in items if not isinstance(it, Exception)]
    rb = ResultBuilder(lists=[[0.0]] * total, grid_priors=[], paths=[None] * total)
    for it in good:
        rb.add(it)
    summaries = [None if isinstance(s, Placeholder) else enc(s) for s in rb.sample_summaries]
    results = []
    for it in good:             # Sensitivity.run: results.append(result); results = sorted(results)
        results.append(it)
        results = sorted(results)
    return summaries, [[r.number, enc(r.result.samples_summary)] for r in results]


def serial_jobs(jobs, nums=None):
    out = []
    for i, (x, mode) in enumerate(jobs):
        try:
            r = NumJob(nums[i] if nums else i, x, mode).perform()
            out.append(["ok", r.number, enc(r.result.samples_summary)])
        except Exception as e:  # noqa
            out.append(["exc", enc_exc(e)])
    return out


def counter_value():
    """the next value of the class-level job counter AbstractJob._number, without drawing from it"""
    import re as _re
    m = _re.match(r"count\((\d+)\)", repr(process_mod.AbstractJob._number))
    return int(m.group(1)) if m else -1


def case_jobs(c):
    """Process.run_jobs steered: which worker takes which job and when the main loop polls"""
    nums = c.get("nums")
    c0 = counter_value()
    jobs = [NumJob(nums[i] if nums else i, x, mode) for i, (x, mode) in enumerate(c["jobs"])]
    numbering = {"before": c0, "numbers": [j.number for j in jobs], "after": counter_value()}
    nw = c["cores"] - 1
    st = Steer(c["sched"], nw, shared_jobs=len(jobs))
    STEER[0] = st
    GATED.value = 1
    items, raised = [], None
    try:
        for it in GatedProcess.run_jobs(jobs, c["cores"]):
            items.append(it)
    except AssertionError as e:
        inner = e.args[0] if e.args else None
        raised = ["AssertionError", enc_exc(inner) if isinstance(inner, Exception) else None]
    except (Stall, CaseTimeout):
        raise
    except Exception as e:  # noqa
        raised = [type(e).__name__, str(e)[:80]]
    summaries, srt = keyed_views(items, len(jobs))
    return {"serial": serial_jobs(c["jobs"], nums), "items": [describe(i) for i in items], "raised": raised,
            "summaries": summaries, "sorted": srt, "evals": evals_of(range(len(jobs))), "numbering": numbering,
            "left": [len(b) for b in st.bufs], "ticks": st.ticks, "forced": st.forced}


def case_jobs_seq(c):
    """a HISTORY of run_jobs calls in one process (one after the other, each with its own jobs, numbering, worker count
    and schedule); what carries over between two calls is reported too: the class-level job counter and live children"""
    out = []
    for call in c["calls"]:
        # jobs whose number comes from the class-level counter (SneakyJob, or any AbstractJob built without a number),
        # created between two calls: explicit numbers of the next call must not depend on how far the counter is
        drawn = [NumJob(None, 0, 0).number for _ in range(call.get("draw", 0))]
        r = case_jobs(dict(call, kind="jobs"))
        r["drawn"] = drawn
        time.sleep(0.02)
        r["children_left"] = len([p for p in mp.active_children() if p.is_alive()])
        out.append(r)
        cleanup_children()
    return {"calls": out}


def case_numbering(c):
    """AbstractJob numbering: a sequence of job constructions, with an explicit number or without (class-level counter)"""
    c0 = counter_value()
    numbers = []
    for spec in c["specs"]:
        if spec is None:
            numbers.append(NumJob(None, 0, 0).number)
        elif spec == "sneaky":
            numbers.append(sneaky_mod.SneakyJob(work, 1, 2).number)
        else:
            numbers.append(NumJob(spec, 0, 0).number)
    return {"before": c0, "numbers": numbers, "after": counter_value()}


def case_jobs_free(c):
    jobs = [NumJob(i, x, mode, d) for i, (x, mode, d) in enumerate(c["jobs"])]
    GATED.value = 0
    items, raised = [], None
    WATCH[0] = Watch()
    try:
        for it in WatchedProcess.run_jobs(jobs, c["cores"]):
            items.append(it)
    except AssertionError as e:
        inner = e.args[0] if e.args else None
        raised = ["AssertionError", enc_exc(inner) if isinstance(inner, Exception) else None]
    except (Stall, CaseTimeout, RaceHang):
        raise
    except Exception as e:  # noqa
        raised = [type(e).__name__, str(e)[:80]]
    summaries, srt = keyed_views(items, len(jobs))
    time.sleep(0.05)
    return {"serial": serial_jobs([(x, m) for x, m, _ in c["jobs"]]), "items": [describe(i) for i in items],
            "raised": raised, "summaries": summaries, "sorted": srt, "evals": evals_of(range(len(jobs)))}



# ---------------------------------------------------------------------------
# the real callers: GridSearch.fit and Sensitivity.run with number_of_cores > 1 (steered) against number_of_cores = 1
# ---------------------------------------------------------------------------
from autofit.non_linear.grid import grid_search as gs_mod
from autofit.non_linear.grid import sensitivity as sens_mod


def _count_eval(jid):
    if _worker_index() is not None:
        EVALS.bump(jid)


class CellError(ValueError):
    pass


class CellAnalysis(af.Analysis):
    """log likelihood identifies the grid cell; listed cells raise"""

    def __init__(self, n, names, fail):
        self.n, self.names, self.fail = n, names, fail

    def cell_of(self, instance):
        idx = 0
        for nm in self.names:
            idx = idx * self.n + min(self.n - 1, int(getattr(instance, nm).centre * self.n))
        return idx

    def log_likelihood_function(self, instance):
        k = self.cell_of(instance)
        _count_eval(k)
        if k in self.fail:
            raise CellError(k)
        return -1.5 * (k + 1)


def _grid_once(c, cores, tag):
    names = sorted(c["grid"])
    objs = {nm: af.UniformPrior(lower_limit=0.0, upper_limit=1.0) for nm in names}
    model = af.Collection(**{nm: af.Model(af.Gaussian, centre=objs[nm], normalization=1.0, sigma=1.0) for nm in names})
    search = af.m.MockSearch(name="c14grid_%s_%d" % (tag, c["idx"]))
    gs = gs_mod.GridSearch(search=search, number_of_steps=c["n"], number_of_cores=cores)
    out = {"raised": None}
    try:
        res = gs.fit(model, CellAnalysis(c["n"], names, set(c["fail"])), [objs[nm] for nm in c["grid"]])
        cells = []
        for sm in res.samples:
            if isinstance(sm, Placeholder):
                cells.append(None)
            else:
                cells.append([int(round(getattr(sm.model, nm).centre.lower_limit * c["n"])) for nm in names])
        out["cells"] = cells
    except CellError as e:
        out["raised"] = ["CellError", e.args[0]]
    except (Stall, CaseTimeout, RaceHang):
        raise
    except Exception as e:  # noqa
        import traceback
        out["raised"] = [type(e).__name__, str(e)[:100]]
        out["traceback"] = traceback.format_exc()
    rows = []
    try:
        with open(gs.paths.output_path / "results.csv") as f:
            for ln in f.read().strip().splitlines()[1:]:
                parts = [x.strip() for x in ln.split(",")]
                rows.append([int(parts[0])] + [int(round(float(x) * c["n"])) for x in parts[1:1 + len(names)]])
    except OSError:
        pass
    out["csv"] = rows
    return out


def case_grid_fit(c):
    """real GridSearch.fit: number_of_cores = cores with the workers of Process.run_jobs steered, and number_of_cores = 1"""
    total = c["n"] ** len(c["grid"])
    serial = _grid_once(c, 1, "ser")
    for i in range(NEVAL):
        EVALS[i] = 0
    st = Steer(c["sched"], c["cores"] - 1, shared_jobs=total)
    STEER[0] = st
    GATED.value = 1
    saved = gs_mod.Process
    gs_mod.Process = GatedProcess
    try:
        par = _grid_once(c, c["cores"], "par")
    finally:
        gs_mod.Process = saved
    par["evals"] = evals_of(range(total))
    return {"serial": serial, "parallel": par}


class _SensSim:
    def __call__(self, instance, simulate_path):
        return 0.0


def _mock_result(model, ll):
    from autofit.non_linear.mock.mock_samples_summary import MockSamplesSummary
    summary = MockSamplesSummary(
        model=model,
        max_log_likelihood_sample=af.Sample(log_likelihood=ll, log_prior=0.0, weight=1.0,
                                            kwargs={path: 1.0 for path in model.paths}))
    return af.m.MockResult(samples_summary=summary, model=model)


class _SensBaseFit:
    def __call__(self, dataset, model, paths):
        return _mock_result(model, 0.0)


class _SensPerturbFit:
    def __init__(self, n, fail):
        self.n, self.fail = n, fail

    def __call__(self, dataset, model, paths):
        pr = model.perturb.centre
        k = min(self.n - 1, int(0.5 * (pr.lower_limit + pr.upper_limit) * self.n))
        _count_eval(k)
        if k in self.fail:
            raise CellError(k)
        return _mock_result(model, 1.0 + k)


def _sens_once(c, cores, tag):
    n = c["n"]
    perturb_model = af.Model(af.Gaussian, centre=af.UniformPrior(lower_limit=0.0, upper_limit=1.0), normalization=1.0, sigma=1.0)
    instance = af.ModelInstance()
    instance.gaussian = af.Gaussian()
    sens = sens_mod.Sensitivity(
        simulation_instance=instance,
        base_model=af.Collection(gaussian=af.Model(af.Gaussian, centre=af.UniformPrior(0.0, 1.0), normalization=1.0, sigma=1.0)),
        perturb_model=perturb_model, simulate_cls=_SensSim(), base_fit_cls=_SensBaseFit(),
        perturb_fit_cls=_SensPerturbFit(n, set(c["fail"])),
        paths=af.DirectoryPaths(name="c14sens_%s_%d" % (tag, c["idx"])),
        number_of_steps=n, number_of_cores=cores)
    out = {"raised": None}
    try:
        res = sens.run()
        out["lls"] = [int(round(sm.log_likelihood)) - 1 for sm in res.perturb_samples]
    except CellError as e:
        out["raised"] = ["CellError", e.args[0]]
    except (Stall, CaseTimeout, RaceHang):
        raise
    except Exception as e:  # noqa
        import traceback
        out["raised"] = [type(e).__name__, str(e)[:100]]
        out["traceback"] = traceback.format_exc()
    rows = []
    try:
        with open(sens.results_path) as f:
            for ln in f.read().strip().splitlines()[1:]:
                rows.append(int(ln.split(",")[0].strip()))
    except OSError:
        pass
    out["csv"] = rows
    return out


def case_sens_fit(c):
    """real Sensitivity.run: number_of_cores = cores (steered) and number_of_cores = 1"""
    serial = _sens_once(c, 1, "ser")
    for i in range(NEVAL):
        EVALS[i] = 0
    st = Steer(c["sched"], c["cores"] - 1, shared_jobs=c["n"])
    STEER[0] = st
    GATED.value = 1
    saved = sens_mod.Process
    sens_mod.Process = GatedProcess
    try:
        par = _sens_once(c, c["cores"], "par")
    finally:
        sens_mod.Process = saved
    par["evals"] = evals_of(range(c["n"]))
    return {"serial": serial, "parallel": par}


# Former finding job-pickling-race (fixed by e882fb2: the model walk no longer iterates Model.cls.__dict__, which the
# job queue's feeder thread grows when it first pickles an instance of that class).  Nothing is pre-pickled here any
# more: the real-caller cases run with the window open, the pickle_walk kind below forces the interleaving.
import pickle as _pickle

_WALK_SERIAL = [0]


def case_pickle_walk(c):
    """a model query while another thread pickles an instance of the model's class at a forced point of the walk
    (what Sensitivity._make_jobs and the job queue's feeder thread do concurrently); compared with the same query alone"""
    import threading
    _WALK_SERIAL[0] += 1
    name = "WalkG%d_%d" % (os.getpid(), _WALK_SERIAL[0])
    state = {"fired": False, "armed": False}

    class Hook:
        @property
        def __dict__(self):
            if state["armed"] and not state["fired"]:
                state["fired"] = True
                t = threading.Thread(target=lambda: _pickle.dumps(cls()))
                t.start()
                t.join()
            return {}

    body = {"__module__": "__main__", "a_hook": Hook()}
    for i in range(c.get("attrs", 2)):
        body["attr%d" % i] = i
    cls = type(name, (af.Gaussian,), body)
    sys.modules["__main__"].__dict__[name] = cls
    model = af.Model(cls, centre=af.UniformPrior(lower_limit=0.0, upper_limit=1.0), normalization=1.0, sigma=1.0)
    alone = [list(t.path) if hasattr(t, "path") else str(t[0]) for t in model.prior_tuples_ordered_by_id]
    state["armed"] = True
    try:
        both = [list(t.path) if hasattr(t, "path") else str(t[0]) for t in model.prior_tuples_ordered_by_id]
        raised = None
    except Exception as e:  # noqa
        both, raised = None, [type(e).__name__, str(e)[:100]]
    return {"alone": alone, "concurrent": both, "raised": raised, "fired": state["fired"]}


class TrivialJob(process_mod.AbstractJob):
    def perform(self):
        return GridJobResult(SimpleNamespace(samples_summary=self.number), [self.number], self.number)


class RaceHang(Exception):
    """every worker of a free-running run_jobs call has exited, every result queue is empty, and the main loop
    still waits for results: nothing can ever arrive"""


class Watch:
    def __init__(self):
        self.procs, self.reals, self.polls, self.dead = [], [], 0, 0


WATCH = [None]


class WatchedQueue:
    """parent side: forwards to the real queue and recognises the dead state; child side: forwards"""

    def __init__(self, real, watch):
        self._real, self._watch = real, watch

    def empty(self):
        r = self._real.empty()
        w = self._watch
        if r:
            w.polls += 1
            if w.polls % 500 == 0:
                if all(not p.is_alive() for p in w.procs) and all(q.empty() for q in w.reals):
                    w.dead += 1
                    if w.dead >= 3:
                        raise RaceHang("all %d workers have exited, no result is queued, the main loop still polls" % len(w.procs))
                else:
                    w.dead = 0
        return r

    def __getattr__(self, name):
        return getattr(self._real, name)


class WatchedProcess(process_mod.Process):
    """the real Process, free-running; only the parent-side `queue` attribute is wrapped to recognise a hang"""

    def __init__(self, name, job_queue, **kw):
        super().__init__(name, job_queue, **kw)
        w = WATCH[0]
        w.procs.append(self)
        w.reals.append(self.queue)
        self.queue = WatchedQueue(self.queue, w)


def case_jobs_race(c):
    """Process.run_jobs free-running on quick jobs, repeated: does every call return?"""
    GATED.value = 0
    hangs, wrong, stuck = 0, 0, 0
    for _ in range(c["repeat"]):
        WATCH[0] = Watch()
        try:
            items = list(WatchedProcess.run_jobs([TrivialJob(number=i) for i in range(c["jobs"])], c["cores"]))
            if sorted(it.number for it in items) != list(range(c["jobs"])):
                wrong += 1
            # run_jobs has joined every worker with a 1 s timeout only; under load a worker may simply not have
            # been scheduled yet, so give every worker a generous time to leave on its own before it is counted
            # as blocked (a worker blocked in job_queue.get() never leaves)
            for p in WATCH[0].procs:
                p.join(60)
            if any(p.is_alive() for p in WATCH[0].procs):
                stuck += 1
        except RaceHang:
            hangs += 1
        alive = mp.active_children()
        for p in alive:
            p.terminate()
        for p in alive:
            p.join(1.0)
    return {"hangs": hangs, "wrong": wrong, "stuck": stuck, "calls": c["repeat"]}


KINDS = {"jobs_seq": case_jobs_seq, "numbering": case_numbering, "pickle_walk": case_pickle_walk, "emcee_run": case_emcee_run, "smap_twofit": case_smap_twofit, "sneakier": case_sneakier, "grid_fit": case_grid_fit, "sens_fit": case_sens_fit, "jobs_race": case_jobs_race, "smap": case_smap, "smap_free": case_smap_free, "init": case_init, "emcee": case_emcee,
         "jobs": case_jobs, "jobs_free": case_jobs_free}


def case_limit(c):
    """seconds one case may take (a steered case normally takes well under a second)"""
    if c["kind"] == "jobs_race":
        return 30 + 0.3 * int(c.get("repeat", 0))
    if c["kind"] == "jobs_seq" or c.get("again") or c.get("shape"):
        # a history of calls / of 3-4 maps on one pool (under a machine load of 250 such a case was seen to need more than
        # 45 s, unloaded it takes 0.6 s); every wait inside is bounded by WAIT, a stalled call ends the history
        return 90
    return 45


def kill_children():
    for p in mp.active_children():
        try:
            p.kill()
        except Exception:  # noqa
            pass
    # anything else that descends from this driver
    me = os.getpid()
    try:
        for d in os.listdir("/proc"):
            if d.isdigit():
                try:
                    with open("/proc/%s/stat" % d) as f:
                        ppid = int(f.read().rsplit(")", 1)[1].split()[1])
                    if ppid == me:
                        os.kill(int(d), signal.SIGKILL)
                except (OSError, ValueError, IndexError):
                    pass
    except OSError:
        pass


def main():
    payload = json.load(open(sys.argv[1]))
    cases = payload["cases"]
    budget = float(payload.get("budget", 600))
    deadline = time.time() + budget
    out = []
    state = {"current": None}

    def finalize(reason):
        """write what there is; every case without a result is reported, the one that was running as stuck"""
        res = list(out)
        for i in range(len(res), len(cases)):
            if i == state["current"]:
                res.append({"exc": "Timeout", "msg": "the case was still running when the driver's time budget (%d s) ended (%s)" % (budget, reason)})
            else:
                res.append({"exc": "NotRun", "msg": "driver budget exhausted before this case"})
        with open(sys.argv[2], "w") as f:
            json.dump({"results": res}, f)
        kill_children()
        os._exit(0)

    def watchdog():
        while time.time() < deadline + 15:
            time.sleep(1.0)
        finalize("watchdog: the main thread did not react to its alarm")

    import threading
    threading.Thread(target=watchdog, daemon=True).start()

    for ci, c in enumerate(cases):
        c.setdefault("idx", ci)
        remaining = deadline - time.time()
        if remaining < 3:
            out.append({"exc": "NotRun", "msg": "driver budget exhausted before this case"})
            continue
        state["current"] = ci
        signal.alarm(max(1, int(min(case_limit(c), remaining))))
        try:
            t0 = time.time()
            out.append({"ok": KINDS[c["kind"]](c)})
            out[-1]["t"] = [round(time.time() - t0, 3)]
        except Stall as e:
            out.append({"exc": "Stall", "msg": str(e)[:300]})
        except RaceHang as e:
            out.append({"exc": "RaceHang", "msg": str(e)[:300]})
        except CaseTimeout:
            out.append({"exc": "Timeout", "msg": "case did not finish within its limit of %d s" % int(min(case_limit(c), remaining))})
        except BaseException as e:  # noqa
            import traceback
            out.append({"exc": type(e).__name__, "msg": (str(e) + " | " + traceback.format_exc()[-600:])[:900]})
        finally:
            signal.alarm(0)
            try:
                signal.alarm(20)
                cleanup_children()
            except BaseException:  # noqa
                kill_children()
            finally:
                signal.alarm(0)
        if len(out) < ci + 1:
            out.append({"exc": "Timeout", "msg": "clean-up of the case did not finish"})
    state["current"] = None
    with open(sys.argv[2], "w") as f:
        json.dump({"results": out}, f)
    sys.stdout.flush()
    sys.stderr.flush()
    kill_children()
    os._exit(0)


main()
