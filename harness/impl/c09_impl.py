"""C09 implementation driver: persists samples through the real code and reads them back.

Routes per case (see harness/vcheck/c09.py):
  csv      DirectoryPaths.save_samples -> samples.csv + samples_info.json -> DirectoryPaths.samples
  agg      the same files read through aggregator SearchOutput(directory).samples (model from model.json)
  summary  DirectoryPaths.save_samples_summary -> samples_summary.json -> load_samples_summary / SearchOutput
  db       DatabasePaths.save_samples (all / minimised) -> commit -> expire -> Fit.samples
  fit      a real (Drawer) fit run twice: the second run loads the completed fit
  dbseq    DatabasePaths.save_samples twice with a commit in between, then load
"""
import csv as _csv
import json
import logging
import os
import sys

from vimpl_common import setup, hexf, unhex, exc_name

af, conf = setup()
logging.disable(logging.CRITICAL)

import numpy as np  # noqa: E402
from autoconf.dictable import to_dict  # noqa: E402
from autofit import database as db  # noqa: E402
from autofit.aggregator.search_output import SearchOutput  # noqa: E402
from autofit.database.model import Fit  # noqa: E402
from autofit.mapper.prior.tuple_prior import TuplePrior  # noqa: E402
from autofit.non_linear.samples.sample import Sample  # noqa: E402
from autofit.non_linear.samples import SamplesPDF, SamplesNest  # noqa: E402

import c09_classes  # noqa: E402

conf.instance["general"]["output"]["samples_to_csv"] = True


# --------------------------------------------------------------------------- model building
def make_priors(n, kinds):
    out = []
    for i in range(n):
        k = kinds[i % len(kinds)]
        if k == "u":
            out.append(af.UniformPrior(lower_limit=0.0, upper_limit=1.0))
        elif k == "g":
            out.append(af.GaussianPrior(mean=0.5, sigma=2.0))
        else:
            out.append(af.LogUniformPrior(lower_limit=1e-3, upper_limit=1e3))
    return out


def build(node, priors):
    k = node["k"]
    if k == "prior":
        return priors[node["pid"]]
    if k == "const":
        return float(node["v"])
    if k == "model":
        cls = c09_classes.CLASSES[node["cls"]][0]
        kwargs = {name: build(child, priors) for name, child in node["ms"] if child["k"] != "tuple"}
        m = af.Model(cls, **kwargs)
        for name, child in node["ms"]:
            if child["k"] == "tuple":
                tp = getattr(m, name)
                for mname, mchild in child["ms"]:
                    setattr(tp, mname, build(mchild, priors))
        return m
    if k == "coll":
        if node["style"] == "list":
            return af.Collection([build(child, priors) for _, child in node["ms"]])
        return af.Collection(**{name: build(child, priors) for name, child in node["ms"]})
    raise ValueError(k)


def shape_of(model, priors):
    pid = {p.id: i for i, p in enumerate(priors)}
    return {
        "ws": [[list(path), pid[p.id]] for path, p in model.path_priors_tuples],
        "u": [list(p) for p in model.unique_prior_paths],
        "ap": [[list(p) for p in g] for g in model.all_paths],
        "an": [list(g) for g in model.all_names],
        "tps": [list(p) for p, _ in model.path_instance_tuples_for_class(TuplePrior)],
        "prior_count": model.prior_count,
    }


def shape_ranked(model):
    """shape of a model whose priors are not the driver's own (reloaded): creation rank = rank of prior id"""
    ids = sorted({p.id for _, p in model.path_priors_tuples})
    rank = {i: k for k, i in enumerate(ids)}
    return {
        "ws": [[list(path), rank[p.id]] for path, p in model.path_priors_tuples],
        "tps": [list(p) for p, _ in model.path_instance_tuples_for_class(TuplePrior)],
    }


# --------------------------------------------------------------------------- observation helpers
def fh(x):
    return hexf(float(x))


def attempt(f):
    try:
        return {"ok": f()}
    except BaseException as e:  # noqa
        return {"exc": exc_name(e), "msg": str(e)[:200]}


def key_json(k):
    if isinstance(k, tuple):
        return {"t": [str(x) for x in k]}
    return {"s": str(k)}


def sample_json(s):
    return {"ll": fh(s.log_likelihood), "lp": fh(s.log_prior), "w": fh(s.weight),
            "kw": [[key_json(k), fh(v)] for k, v in s.kwargs.items()]}


def flatten_instance(model, inst):
    """value found in the instance at every prior path of the model: [[joined path, value], ...]"""
    out = []
    for path in model.paths:
        obj = inst
        for part in path:
            if isinstance(obj, tuple):
                obj = obj[int(part.rsplit("_", 1)[1])]
            elif isinstance(obj, list):
                obj = obj[int(part)]
            else:
                obj = getattr(obj, part)
        out.append([".".join(path), fh(obj)])
    return out


def pairs(v):
    return [[fh(a), fh(b)] for a, b in v]


def view(samples, model, stats=True):
    """Everything a reader can learn from a loaded Samples object."""
    out = {
        "cls": type(samples).__name__,
        "cols": attempt(lambda: ["|".join(sorted(".".join(p) for p in g)) for g in model.all_paths]),
        "samples": attempt(lambda: [sample_json(s) for s in samples.sample_list]),
        "pl": attempt(lambda: [[fh(x) for x in row] for row in samples.parameter_lists]),
        "ll": attempt(lambda: [fh(x) for x in samples.log_likelihood_list]),
        "lp": attempt(lambda: [fh(x) for x in samples.log_prior_list]),
        "w": attempt(lambda: [fh(x) for x in samples.weight_list]),
        "best": attempt(lambda: [fh(x) for x in samples.max_log_likelihood(as_instance=False)]),
        "inst": attempt(lambda: flatten_instance(model, samples.max_log_likelihood())),
        "info": attempt(lambda: json.loads(json.dumps(samples.samples_info))),
    }
    if stats:
        with np.errstate(all="ignore"):
            out["median"] = attempt(lambda: [fh(x) for x in samples.median_pdf(as_instance=False)])
            out["v1"] = attempt(lambda: pairs(samples.values_at_sigma(1.0, as_instance=False)))
            out["e1"] = attempt(lambda: pairs(samples.errors_at_sigma(1.0, as_instance=False)))
            out["e3"] = attempt(lambda: pairs(samples.errors_at_sigma(3.0, as_instance=False)))
            out["v3"] = attempt(lambda: pairs(samples.values_at_sigma(3.0, as_instance=False)))
            out["statin"] = attempt(lambda: stat_inputs(samples))
    return out


def stat_inputs(samples):
    """what the summary statistics take from outside the modelled code: the arrangement np.argsort gives each parameter
    column (not stable: only checked to BE a sorting permutation), the libm quantile levels, the configured sample size"""
    import math
    cols = samples.parameters_extract
    qs = []
    for sigma in (1.0, 3.0):
        low = (1 - math.erf(sigma / math.sqrt(2))) / 2
        qs += [fh(low), fh(1 - low)]
    return {"argsort": [[int(i) for i in np.argsort(np.atleast_1d(col))] for col in cols], "qs": qs,
            "ucs": int(conf.instance["general"]["output"]["unconverged_sample_size"]),
            "total": int(samples.total_samples)}


def view_summary(summary, model):
    def seq(v):
        return None if v is None else pairs(v)
    return {
        "cols": attempt(lambda: ["|".join(sorted(".".join(p) for p in g)) for g in model.all_paths]),
        "max": attempt(lambda: sample_json(summary.max_log_likelihood_sample)),
        "vmax": attempt(lambda: [fh(x) for x in summary.max_log_likelihood(as_instance=False)]),
        "inst": attempt(lambda: flatten_instance(model, summary.instance)),
        "med": attempt(lambda: sample_json(summary.median_pdf_sample)),
        "vmed": attempt(lambda: [fh(x) for x in summary.median_pdf(as_instance=False)]),
        "e1": attempt(lambda: seq(summary.errors_at_sigma_1)),
        "e3": attempt(lambda: seq(summary.errors_at_sigma_3)),
        "v1": attempt(lambda: seq(summary.values_at_sigma_1)),
        "v3": attempt(lambda: seq(summary.values_at_sigma_3)),
        "logz": attempt(lambda: None if summary.log_evidence is None else fh(summary.log_evidence)),
    }


def raw_table(filename):
    """samples.csv read by an independent reader: header cells stripped, values as binary64"""
    with open(filename, newline="") as f:
        rows = list(_csv.reader(f))
    with open(filename) as f:
        lines = f.read().splitlines()
    return {"header": [h.strip() for h in rows[0]], "rows": [[fh(float(x)) for x in r] for r in rows[1:]],
            "text": [[x.strip() for x in ln.split(",")] for ln in lines[1:]],
            "widths_ok": all(len(set(len(r[i]) for r in rows)) == 1 for i in range(len(rows[0])))}


def raw_summary(filename):
    """samples_summary.json read with the json module only: the two persisted samples as (key string, value) lists"""
    with open(filename) as f:
        d = json.load(f)

    def smp(x):
        if x is None:
            return None
        a = x["arguments"]
        return {"ll": fh(a["log_likelihood"]), "lp": fh(a["log_prior"]), "w": fh(a["weight"]),
                "kw": [[k, fh(v)] for k, v in a["kwargs"]["arguments"].items()]}
    a = d["arguments"]
    return {"max": smp(a.get("max_log_likelihood_sample")), "med": smp(a.get("median_pdf_sample"))}


def make_samples(c, model):
    rows = c["rows"]
    pls = [[unhex(x) for x in r["p"]] for r in rows]
    lls = [unhex(r["ll"]) for r in rows]
    lps = [unhex(r["lp"]) for r in rows]
    ws = [unhex(r["w"]) for r in rows]
    mode = c.get("numpy")
    if mode == "scalar":        # what emcee / dynesty conversions hand over: numpy scalars
        pls = [[np.float64(x) for x in r] for r in pls]
        lls, lps, ws = [np.float64(x) for x in lls], [np.float64(x) for x in lps], [np.float64(x) for x in ws]
    elif mode == "array":       # ... or whole arrays
        pls = np.asarray(pls, dtype=np.float64).reshape(len(rows), -1)
        lls, lps, ws = np.asarray(lls), np.asarray(lps), np.asarray(ws)
    sl = Sample.from_lists(
        model=model,
        parameter_lists=pls,
        log_likelihood_list=lls,
        log_prior_list=lps,
        weight_list=ws,
    )
    if c.get("cls") == "nest":
        info = {"total_iterations": len(rows), "time": 1.25, "log_evidence": unhex(c.get("logz", "0x0.0p+0")),
                "number_live_points": 7, "total_samples": len(rows), "total_accepted_samples": len(rows)}
        return SamplesNest(model=model, sample_list=sl, samples_info=info)
    return SamplesPDF(model=model, sample_list=sl, samples_info={"total_iterations": len(rows), "time": 1.25})


_session = None
_dbfile = None


def session():
    global _session, _dbfile
    if _session is None:
        _dbfile = os.path.join(os.environ["VERIF_SCRATCH"], "c09_%d.sqlite" % os.getpid())
        _session = db.open_database(_dbfile)
    return _session


def db_paths(model, tag, save_all):
    paths = af.DatabasePaths(session(), name="c09", save_all_samples=save_all, unique_tag=tag)
    paths.model = model
    paths.search = af.m.MockSearch()
    return paths


def db_read(ident, model):
    s = session()
    s.commit()
    s.expire_all()
    fit = s.query(Fit).filter(Fit.id == ident).one()
    loaded = fit.samples
    return view(loaded, model)


# --------------------------------------------------------------------------- cases
class LatentAnalysis(af.Analysis):
    """latent variables: one undotted and two dotted names, computed from the instance"""

    def __init__(self, model):
        super().__init__()
        self.model = model

    def log_likelihood_function(self, instance):
        return 0.0

    def compute_latent_variables(self, instance):
        vals = [unhex(v) for _, v in flatten_instance(self.model, instance)]
        return {"first": vals[0], "lat.last": vals[-1], "lat.twice": vals[0] + vals[0]}


def latent_view(sample_list):
    return [sample_json(s) for s in sample_list]


def run_samples_case(c):
    priors = make_priors(c["npri"], c.get("kinds", ["u"]))
    model = build(c["tree"], priors)
    out = {"shape": shape_of(model, priors)}
    samples = make_samples(c, model)
    out["orig"] = view(samples, model)
    tag = "case%d_%d" % (os.getpid(), c["idx"])

    # --- csv + info files, summary file
    paths = af.DirectoryPaths(name=tag, unique_tag=tag)
    paths.model = model
    paths.search = af.m.MockSearch(name=tag, unique_tag=tag)
    out["csv_save"] = attempt(lambda: paths.save_samples(samples) or True)
    if "ok" in out["csv_save"]:
        out["raw"] = attempt(lambda: raw_table(paths._samples_file))
        loaded = attempt(lambda: paths.samples)
        out["csv"] = view(loaded["ok"], model) if "ok" in loaded else {"load": loaded}
        # a resumed fit persists what it loaded: load -> save -> load
        if "ok" in loaded:
            p2 = af.DirectoryPaths(name=tag + "_again", unique_tag=tag)
            p2.model = model
            again = attempt(lambda: p2.save_samples(loaded["ok"]) or p2.samples)
            out["resave"] = view(again["ok"], model) if "ok" in again else {"load": again}
        # aggregator route: model comes back from model.json
        paths.save_json("model", to_dict(model))
        so = SearchOutput(paths.output_path)
        loaded = attempt(lambda: so.samples)
        if "ok" in loaded:
            out["agg"] = view(loaded["ok"], so.model)
            out["agg"]["shape"] = attempt(lambda: shape_ranked(so.model))
        else:
            out["agg"] = {"load": loaded}
    summary = attempt(lambda: samples.summary())
    have_summary = "ok" in summary
    if have_summary:
        summary = summary["ok"]
        out["summary_orig"] = view_summary(summary, model)
        out["summary_save"] = attempt(lambda: paths.save_samples_summary(summary) or True)
        if "ok" in out["summary_save"]:
            out["summary_raw"] = attempt(lambda: raw_summary(paths._files_path / "samples_summary.json"))
            loaded = attempt(lambda: paths.load_samples_summary())
            out["summary"] = view_summary(loaded["ok"], model) if "ok" in loaded else {"load": loaded}
            so = SearchOutput(paths.output_path)
            loaded = attempt(lambda: so.samples_summary)
            if "ok" in loaded:
                out["summary_agg"] = view_summary(loaded["ok"], so.model)
                out["summary_agg"]["shape"] = attempt(lambda: shape_ranked(so.model))
            else:
                out["summary_agg"] = {"load": loaded}
    else:
        out["summary_orig"] = {"load": summary}

    # --- latent samples (computed by the real Analysis.compute_latent_samples)
    latent = attempt(lambda: LatentAnalysis(model).compute_latent_samples(samples))
    if "ok" in latent and latent["ok"] is not None:
        latent = latent["ok"]
        out["latent_orig"] = latent_view(latent.sample_list)
        saved = attempt(lambda: paths.save_latent_samples(latent) or True)
        if "ok" in saved:
            out["latent_csv"] = attempt(lambda: latent_view(paths.load_latent_samples()))
            so = SearchOutput(paths.output_path)
            lo = attempt(lambda: so.latent_samples)
            out["latent_agg"] = view(lo["ok"], lo["ok"].model, stats=False) if "ok" in lo else {"load": lo}
        else:
            out["latent_csv"] = saved
    else:
        latent = None
        out["latent_error"] = True

    # --- database rows
    for name, save_all in (("db_all", True), ("db_min", False)):
        dp = db_paths(model, tag + name, save_all)
        if not save_all:
            mini = attempt(lambda: samples.minimise())
            if "ok" in mini:
                ids = [id(s) for s in samples.sample_list]
                out["min_idx"] = sorted(ids.index(id(s)) for s in mini["ok"].sample_list)
                out["min_orig"] = view(mini["ok"], model, stats=False)
        saved = attempt(lambda: dp.save_samples(samples) or True)
        if have_summary and save_all:
            out["db_summary_save"] = attempt(lambda: dp.save_samples_summary(summary) or True)
        if latent is not None and not save_all:
            lm = attempt(lambda: latent.minimise())
            if "ok" in lm:
                out["db_latent_orig"] = latent_view(lm["ok"].sample_list)
            out["db_latent_save"] = attempt(lambda: dp.save_latent_samples(latent) or True)
        if "ok" in saved:
            ident = dp.identifier
            r = attempt(lambda: db_read(ident, model))
            out[name] = r["ok"] if "ok" in r else {"load": r}
            if have_summary and save_all and "ok" in out["db_summary_save"]:
                dp2 = db_paths(model, tag + name, save_all)      # a later session / process
                lo = attempt(lambda: dp2.load_samples_summary())
                if "ok" in lo and lo["ok"] is None:
                    out["db_summary"] = {"load": {"exc": "NoSummary", "msg": "load_samples_summary returned None"}}
                else:
                    out["db_summary"] = view_summary(lo["ok"], model) if "ok" in lo else {"load": lo}
            if latent is not None and not save_all and "ok" in out.get("db_latent_save", {}):
                dp2 = db_paths(model, tag + name, save_all)
                lo = attempt(lambda: latent_view(dp2.load_latent_samples().sample_list))
                out["db_latent"] = lo
        else:
            out[name] = {"load": saved}

    # --- directory scraped into a database (Aggregator.from_directory + Scraper): EfficientSamples over RELOADED samples
    if "ok" in out["csv_save"] and c.get("scrape", True):
        def scrape():
            from autofit.database.aggregator.scrape import Scraper
            paths.save_all()
            paths.completed()
            scraper = Scraper(paths.output_path, session(), completed_only=True)
            items = list(scraper.aggregator)
            assert len(items) == 1, "aggregator found %d outputs" % len(items)
            scraper.scrape()
            s = session()
            s.commit()
            s.expire_all()
            return s.query(Fit).filter(Fit.id == items[0].id).one()
        fit = attempt(scrape)
        if "ok" in fit:
            fit = fit["ok"]
            lo = attempt(lambda: fit.samples)
            if "ok" in lo and lo["ok"] is not None:
                out["scrape"] = view(lo["ok"], lo["ok"].model)
                out["scrape"]["shape"] = attempt(lambda: shape_ranked(lo["ok"].model))
            else:
                out["scrape"] = {"load": lo if "exc" in lo else {"exc": "NoSamples", "msg": "Fit.samples is None"}}
            if have_summary and "ok" in out.get("summary_save", {}):
                lo = attempt(lambda: fit["samples_summary"])
                out["scrape_summary"] = view_summary(lo["ok"], fit.model) if "ok" in lo else {"load": lo}
                if "ok" in lo:
                    out["scrape_summary"]["shape"] = attempt(lambda: shape_ranked(fit.model))
            if latent is not None:
                out["scrape_latent"] = attempt(lambda: latent_view(fit.latent_samples.sample_list))
        else:
            out["scrape"] = {"load": fit}
    return out


def run_dbseq_case(c):
    """One fit through DatabasePaths that is updated several times (perform_update: save_samples_summary then
    save_samples, every iterations_per_update and once at the end), with or without a commit in between, then loaded."""
    priors = make_priors(c["npri"], c.get("kinds", ["u"]))
    model = build(c["tree"], priors)
    tag = "seq%d_%d" % (os.getpid(), c["idx"])
    out = {}
    updates = c.get("updates") or [c["first"], len(c["rows"])]
    commits = c.get("commits") or [True] * (len(updates) - 1)
    stages = [make_samples({**c, "rows": c["rows"][:k]}, model) for k in updates]
    out["orig"] = view(stages[-1], model)
    # the samples rows that were in place at the first commit (what the recorded stale-samples defect returns)
    committed = [k for k, cm in enumerate(commits) if cm]
    out["first"] = view(stages[committed[0] if committed else 0], model)
    dp = db_paths(model, tag, True)
    dp.save_all({})                  # pre_fit_output: stores the model, commits
    last_summary = None
    for k, smp in enumerate(stages):
        if k > 0 and commits[k - 1]:
            session().commit()
            if c.get("new_paths"):
                session().expire_all()
                dp = db_paths(model, tag, True)
        summ = attempt(lambda: smp.summary())
        last_summary = None
        if "ok" in summ:
            saved = attempt(lambda: dp.save_samples_summary(summ["ok"]) or True)
            if "ok" in saved:
                last_summary = summ["ok"]
            else:
                out["summary_save"] = saved
        dp.save_samples(smp)
    ident = dp.identifier
    r = attempt(lambda: db_read(ident, model))
    out["db_all"] = r["ok"] if "ok" in r else {"load": r}
    # the json rows of the fit, read by a later session / process and through the aggregator item
    fit = session().query(Fit).filter(Fit.id == ident).one()
    out["info_json"] = attempt(lambda: fit.get_json("samples_info"))
    out["info_expected"] = json.loads(json.dumps(stages[-1].samples_info))
    out["json_rows"] = attempt(lambda: sorted(p.name for p in fit.jsons))
    if last_summary is not None:
        out["summary_orig"] = view_summary(last_summary, model)
        dp2 = db_paths(model, tag, True)
        lo = attempt(lambda: dp2.load_samples_summary())
        if "ok" in lo and lo["ok"] is None:
            out["db_summary"] = {"load": {"exc": "NoSummary", "msg": "load_samples_summary returned None"}}
        else:
            out["db_summary"] = view_summary(lo["ok"], model) if "ok" in lo else {"load": lo}
        lo = attempt(lambda: fit["samples_summary"])
        out["fit_summary"] = view_summary(lo["ok"], fit.model) if "ok" in lo else {"load": lo}
    return out


def run_jsonhist_case(c):
    """Fit.set_json / get_json under an arbitrary history of saves, commits and re-queries."""
    s = session()
    ident = "jh%d_%d" % (os.getpid(), c["idx"])
    fit = Fit(id=ident, is_complete=False)
    s.add(fit)
    for op in c["ops"]:
        if op["op"] == "set":
            fit.set_json(op["name"], {"token": op["tok"], "name": op["name"]})
        elif op["op"] == "commit":
            s.commit()
        elif op["op"] == "expire":
            s.commit()
            s.expire_all()
        elif op["op"] == "requery":
            s.commit()
            s.expire_all()
            fit = s.query(Fit).filter(Fit.id == ident).one()
    s.commit()
    s.expire_all()
    fit = s.query(Fit).filter(Fit.id == ident).one()
    obs = []
    for name in c["names"]:
        try:
            d = fit.get_json(name)
            tok = d["token"] if d.get("name") == name and set(d) == {"token", "name"} else -1
        except KeyError:
            tok = None
        obs.append([name, tok, sum(1 for p in fit.jsons if p.name == name)])
    return {"obs": obs}


def run_fit_case(c):
    """A Drawer fit, then the same fit again: the second run must load the completed fit's result."""
    priors = make_priors(c["npri"], c.get("kinds", ["u"]))
    model = build(c["tree"], priors)
    targets = [unhex(x) for x in c["targets"]]

    class A(af.Analysis):
        def log_likelihood_function(self, instance):
            vec = [unhex(v) for _, v in flatten_instance(model, instance)]
            return -sum((v - t) ** 2 for v, t in zip(vec, targets))

    name = "fit%d_%d" % (os.getpid(), c["idx"])
    out = {"shape": shape_of(model, priors)}
    np.random.seed(int(c.get("rng", 0)) % (2 ** 32))

    def go():
        search = af.Drawer(name=name, total_draws=c["draws"])
        return search.fit(model=model, analysis=A())
    first = attempt(go)
    if "exc" in first:
        out["first"] = {"load": first}
        return out
    r1 = first["ok"]
    out["first"] = view(r1.samples, model)
    out["first_summary"] = view_summary(r1.samples_summary, model)
    second = attempt(go)
    if "exc" in second:
        out["second"] = {"load": second}
        return out
    r2 = second["ok"]
    out["second_has_samples"] = r2.samples is not None
    out["second"] = view(r2.samples, model) if r2.samples is not None else {"load": {"exc": "NoSamples", "msg": ""}}
    out["second_summary"] = view_summary(r2.samples_summary, model)
    out["second_instance"] = attempt(lambda: flatten_instance(model, r2.instance))
    out["first_instance"] = attempt(lambda: flatten_instance(model, r1.instance))
    return out


def run_quant_case(c):
    """quantile(x, q, weights) called directly, one call per level (as median_pdf / values_at_sigma do)"""
    from autofit.non_linear.samples.pdf import quantile
    xs = [unhex(x) for x in c["xs"]]
    ws = [unhex(x) for x in c["ws"]]
    outs = []
    with np.errstate(all="ignore"):
        for q in c["qs"]:
            outs.append(attempt(lambda: fh(quantile(x=np.asarray(xs) if c.get("array") else xs, q=unhex(q),
                                                    weights=np.asarray(ws) if c.get("array") else ws)[0])))
    return {"outs": outs, "argsort": [int(i) for i in np.argsort(np.atleast_1d(xs))]}


def run_pdf_case(c):
    """SamplesPDF statistics of an in-memory sample set (no persistence): median_pdf, values / errors at 1 and 3 sigma"""
    priors = make_priors(c["npri"], c.get("kinds", ["u"]))
    model = build(c["tree"], priors)
    samples = make_samples(c, model)
    v = view(samples, model)
    return {"orig": {k: v[k] for k in ("pl", "ll", "w", "best", "median", "v1", "e1", "v3", "e3", "statin", "cols")}}


def run_case(c):
    kind = c.get("kind", "samples")
    if kind == "quant":
        return run_quant_case(c)
    if kind == "pdf":
        return run_pdf_case(c)
    if kind == "samples":
        return run_samples_case(c)
    if kind == "dbseq":
        return run_dbseq_case(c)
    if kind == "fit":
        return run_fit_case(c)
    if kind == "jsonhist":
        return run_jsonhist_case(c)
    raise ValueError(kind)


def main():
    payload = json.load(open(sys.argv[1]))
    if "samples_to_csv" in payload:
        conf.instance["general"]["output"]["samples_to_csv"] = bool(payload["samples_to_csv"])
    out = []
    for c in payload["cases"]:
        try:
            out.append({"ok": run_case(c)})
        except BaseException as e:  # noqa
            import traceback
            out.append({"exc": exc_name(e), "msg": (str(e) + " | " + traceback.format_exc()[-600:])[:900]})
    if _session is not None:
        _session.close()
    json.dump({"results": out}, open(sys.argv[2], "w"))


main()
