"""C08 implementation driver: build a model from a composition program (C01 family programs extended
with prior copies, prior passing, dict-valued constants, assertions), push it through a sequence of real
persistence round trips (dict/JSON, pickle, database rows) and report, for the original and for every
reloaded model, (a) a raw __dict__ abstraction of the live object graph, (b) what the library says about
it (paths, prior_count, priors_ordered_by_id), (c) instances built from path arguments."""
import json
import logging
import os
import pickle
import sys

from vimpl_common import setup, hexf, unhex, exc_name

af, conf = setup()
logging.disable(logging.CRITICAL)
import vbuild                                   # noqa: E402
import vclasses                                 # noqa: E402
from autofit import database as db              # noqa: E402
from autofit.database.model import sa           # noqa: E402
from autoconf.dictable import to_dict, from_dict    # noqa: E402
from autofit.mapper.prior.abstract import Prior  # noqa: E402
from autofit.mapper.prior.tuple_prior import TuplePrior  # noqa: E402
from autofit.mapper.prior.arithmetic.compound import CompoundPrior, ModifiedPrior  # noqa: E402
from autofit.mapper.prior.arithmetic.assertion import (  # noqa: E402
    GreaterThanLessThanAssertion, GreaterThanLessThanEqualAssertion, CompoundAssertion, ComparisonAssertion)
from autofit.mapper.prior_model.prior_model import Model  # noqa: E402
from autofit.mapper.prior_model.collection import Collection  # noqa: E402
from autofit.mapper.model import ModelInstance  # noqa: E402

try:
    import dill
except Exception:  # noqa
    dill = None

SCRATCH = os.environ.get("VERIF_SCRATCH", ".")


# ------------------------------------------------------------------ building
def make_prior(spec, pool):
    if "derive" in spec:
        base = pool[spec["of"]]
        if spec["derive"] == "new":
            return base.new()
        if spec["derive"] == "with_limits":
            return base.with_limits(unhex(spec["lo"]), unhex(spec["hi"]))
        raise ValueError(spec["derive"])
    f = spec["family"]
    if f == "loggaussian":
        return af.LogGaussianPrior(mean=unhex(spec["mean"]), sigma=unhex(spec["sigma"]),
                                   lower_limit=unhex(spec["lo"]), upper_limit=unhex(spec["hi"]))
    return vbuild.make_prior(af, spec)


def compare(op, x, y):
    if op == "<":
        return x < y
    if op == "<=":
        return x <= y
    if op == ">":
        return x > y
    if op == ">=":
        return x >= y
    raise ValueError(op)


def build_assertion(a, pool):
    k = a["k"]
    if k == "cmp":
        return compare(a["op"], vbuild.build_expr(af, a["l"], pool), vbuild.build_expr(af, a["r"], pool))
    if k == "chain":
        first = build_assertion(a["first"], pool)
        return compare(a["op"], first, vbuild.build_expr(af, a["other"], pool))
    raise ValueError(k)


def at_level(model, level):
    obj = model
    for k in level:
        obj = getattr(obj, k)
    return obj


def build(c):
    prog = c["program"]
    pool = []
    for s in prog["pool"]:
        pool.append(make_prior(s, pool))
    model = vbuild.build_expr(af, prog["root"], pool)
    # prior passing of whole top-level components (ids are reassigned to the new priors)
    for key in c.get("passed", []):
        child = getattr(model, key)
        n = child.prior_count
        means = [0.25] * n
        new = child.mapper_from_prior_means(means, a=0.5)
        setattr(model, key, new)
    for level, name, kind in c.get("opaques", []):
        value = {"none": None, "str": "txt", "tuple": (1.0, 2.5), "list": [1.0, 2.5], "int": 3,
                 "inst": vclasses.G2(1.0, 2.5)}[kind]
        setattr(at_level(model, level), name, value)
    for level, name, items in c.get("dicts", []):
        setattr(at_level(model, level), name, {k: unhex(v) for k, v in items})
    for a in c.get("asserts", []):
        at_level(model, a["level"]).add_assertion(build_assertion(a["a"], pool))
    return model, pool


# ------------------------------------------------------------------ abstraction
FAMILY = {"UniformPrior": "uniform", "LogUniformPrior": "loguniform", "GaussianPrior": "gaussian",
          "LogGaussianPrior": "loggaussian"}


def abstract_prior(p):
    fam = FAMILY.get(type(p).__name__, type(p).__name__)
    try:
        mid = p.id_            # exactly what the database layer reads: Prior.__getattr__ -> message.id_
        mid = int(mid) if mid is not None else None
    except AttributeError:
        mid = None
    out = {"t": "prior", "id": int(p.id), "fam": fam, "lo": hexf(p.lower_limit), "hi": hexf(p.upper_limit), "mid": mid, "par": []}
    if fam in ("gaussian", "loggaussian"):
        out["par"] = [hexf(p.mean), hexf(p.sigma)]
    return out


def abstract_expr(o):
    if isinstance(o, Prior):
        return abstract_prior(o)
    if isinstance(o, bool):
        return {"t": "other", "repr": repr(o)}
    if isinstance(o, (float, int)):
        return {"t": "const", "v": hexf(float(o))}
    if isinstance(o, CompoundPrior) and not isinstance(o, ComparisonAssertion):
        op = {"SumPrior": "+", "MultiplePrior": "*", "DivisionPrior": "/", "ModPrior": "%", "FloorDivPrior": "//"}.get(type(o).__name__, type(o).__name__)
        return {"t": "arith", "op": op, "l": abstract_expr(o._left), "r": abstract_expr(o._right)}
    if isinstance(o, ModifiedPrior):                 # -x, abs(x)
        op = {"NegativePrior": "neg", "AbsolutePrior": "abs"}.get(type(o).__name__, type(o).__name__)
        return {"t": "unary", "op": op, "name": o._prior_name, "a": abstract_expr(o.__dict__.get(o._prior_name)),
                "keys": [k for k in o.__dict__ if not k.startswith("_") and k != "id"]}
    return {"t": "other", "repr": type(o).__name__}


def abstract_assertion(a):
    if isinstance(a, CompoundAssertion):
        return {"k": "and", "a": abstract_assertion(a.assertion_1), "b": abstract_assertion(a.assertion_2)}
    if isinstance(a, GreaterThanLessThanEqualAssertion):
        return {"k": "le", "l": abstract_expr(a._left), "g": abstract_expr(a._right)}
    if isinstance(a, GreaterThanLessThanAssertion):
        return {"k": "lt", "l": abstract_expr(a._left), "g": abstract_expr(a._right)}
    return {"k": "other", "repr": type(a).__name__ + ":" + repr(a)[:40]}


def abstract_state(obj, occ):
    """Raw __dict__ walk. `occ` collects the prior objects of the tree in walk order (positions are
    used to carry values from the original to a reloaded model without relying on paths or ids)."""
    if isinstance(obj, Prior):
        occ.append(obj)
        return abstract_prior(obj)
    if isinstance(obj, bool):
        return {"t": "other", "repr": repr(obj)}
    if isinstance(obj, (float, int)):
        out = {"t": "const", "v": hexf(float(obj))}
        if isinstance(obj, int):
            out["int"] = True          # the Coq model has floats only; the oracle compares the tag
        return out
    if obj is None or isinstance(obj, str):
        return {"t": "other", "repr": "%s:%r" % (type(obj).__name__, obj)}
    if isinstance(obj, (tuple, list)) and all(isinstance(x, (float, int)) and not isinstance(x, bool) for x in obj):
        return {"t": "other", "repr": "%s:%s" % (type(obj).__name__, [(type(x).__name__, hexf(float(x))) for x in obj])}
    if isinstance(obj, TuplePrior):
        ms = [[k, abstract_state(v, occ)] for k, v in obj.__dict__.items() if not k.startswith("_") and k != "id"]
        return {"t": "tuple", "members": ms}
    if isinstance(obj, CompoundPrior) and not isinstance(obj, ComparisonAssertion):
        op = {"SumPrior": "+", "MultiplePrior": "*", "DivisionPrior": "/", "ModPrior": "%", "FloorDivPrior": "//"}.get(type(obj).__name__, type(obj).__name__)
        keys = [k for k in obj.__dict__ if not k.startswith("_") and k != "id"]
        ln, rn = obj._left_name, obj._right_name
        # the walk of the library goes over __dict__: when both operands are stored under one attribute
        # name only that attribute (holding the right operand) is visited
        # (`occ` is position based and name blind: both operands are always recorded)
        sub_l = abstract_state(obj._left, occ)
        sub_r = abstract_state(obj._right, occ)
        if ln not in keys or ln == rn:
            ln = rn
        return {"t": "arith", "op": op, "ln": ln, "rn": rn, "l": sub_l, "r": sub_r, "keys": keys}
    if isinstance(obj, ModifiedPrior):
        # one operand, kept under the attribute named by `_prior_name` (written and read back by every storage form)
        op = {"NegativePrior": "neg", "AbsolutePrior": "abs"}.get(type(obj).__name__, type(obj).__name__)
        keys = [k for k in obj.__dict__ if not k.startswith("_") and k != "id"]
        return {"t": "unary", "op": op, "name": obj._prior_name, "a": abstract_state(obj.__dict__.get(obj._prior_name), occ), "keys": keys}
    if isinstance(obj, Model):
        attrs = [[k, abstract_state(v, occ)] for k, v in obj.__dict__.items() if not k.startswith("_") and k not in ("id", "cls")]
        return {"t": "model", "cls": obj.cls.__name__, "attrs": attrs,
                "asserts": [abstract_assertion(a) for a in obj.__dict__.get("_assertions", [])]}
    if isinstance(obj, Collection):
        attrs = [[k, abstract_state(v, occ)] for k, v in obj.__dict__.items() if not k.startswith("_") and k not in ("id", "item_number")]
        return {"t": "coll", "attrs": attrs, "item_number": obj.__dict__.get("item_number"),
                "asserts": [abstract_assertion(a) for a in obj.__dict__.get("_assertions", [])]}
    if isinstance(obj, dict):
        if all(isinstance(k, str) and isinstance(v, float) for k, v in obj.items()):
            return {"t": "dict", "items": [[k, hexf(v)] for k, v in obj.items()]}
        return {"t": "other", "repr": "dict"}
    if type(obj).__name__ in vclasses.CLASSES and type(obj) is vclasses.CLASSES[type(obj).__name__]:
        # (Model.__setattr__ stamps a process-counter based `label` string on whatever object it is given:
        #  library bookkeeping like ids, not part of the model)
        attrs = [[k, abstract_state(v, occ)] for k, v in obj.__dict__.items()
                 if k != "id" and not (k == "label" and isinstance(v, str))]
        return {"t": "inst", "cls": type(obj).__name__, "attrs": attrs}
    if type(obj).__name__ == "Array" and hasattr(obj, "shape"):
        attrs = [[k, abstract_state(v, occ)] for k, v in obj.__dict__.items()
                 if not k.startswith("_") and k not in ("id", "shape", "indices")]
        return {"t": "array", "attrs": attrs,
                "shape": repr(obj.__dict__.get("shape")), "indices": repr(obj.__dict__.get("indices")),
                "asserts": [abstract_assertion(a) for a in obj.__dict__.get("_assertions", [])]}
    return {"t": "other", "repr": type(obj).__name__}


def abstract_instance(obj):
    if isinstance(obj, bool):
        return {"t": "other", "repr": repr(obj)}
    if obj is None or isinstance(obj, str):
        return {"t": "other", "repr": "%s:%r" % (type(obj).__name__, obj)}
    if type(obj).__name__ == "ndarray":
        return {"t": "other", "repr": "ndarray:%s:%s" % (obj.shape, [hexf(x) for x in obj.ravel().tolist()])}
    if isinstance(obj, (float, int)):
        return {"t": "v", "v": hexf(float(obj))}
    if isinstance(obj, tuple):
        return {"t": "tup", "vs": [abstract_instance(x) for x in obj]}
    if isinstance(obj, list):
        return {"t": "other", "repr": "list:%s" % [abstract_instance(x) for x in obj]}
    if isinstance(obj, ModelInstance):
        return {"t": "coll", "fields": [[str(k), abstract_instance(v)] for k, v in obj.dict.items()]}
    if isinstance(obj, dict):
        return {"t": "coll", "fields": [[str(k), abstract_instance(v)] for k, v in obj.items()]}
    if isinstance(obj, TuplePrior):
        # a TuplePrior object sitting in an instance: an object with named members, not a tuple
        return {"t": "coll", "fields": [[k, abstract_instance(v)] for k, v in obj.__dict__.items() if not k.startswith("_") and k != "id"]}
    if type(obj).__name__ in vclasses.CLASSES:
        return {"t": "obj", "cls": type(obj).__name__,
                "fields": [[k, abstract_instance(v)] for k, v in obj.__dict__.items()
                           if k != "id" and not (k == "label" and isinstance(v, str))]}
    return {"t": "other", "repr": type(obj).__name__}


def guarded(f):
    try:
        return {"ok": f()}
    except BaseException as e:  # noqa
        return {"exc": type(e).__name__, "msg": str(e)[:200]}


def observe(model, values_by_pos, pathvals0):
    occ = []
    out = {"state": abstract_state(model, occ)}
    out["n_occ"] = len(occ)
    out["paths"] = [list(map(str, p)) for p in model.paths]
    out["upaths"] = [list(map(str, p)) for p in model.unique_prior_paths]
    out["count"] = model.prior_count
    out["ids"] = [int(p.id) for p in model.priors_ordered_by_id]
    out["path_ids"] = [[list(map(str, path)), int(prior.id)] for path, prior in model.path_priors_tuples]
    # values carried by walk position from the original model
    val = {}
    if values_by_pos is not None and len(values_by_pos) == len(occ):
        for p, v in zip(occ, values_by_pos):
            val[id(p)] = v
    pv = []
    complete = True
    for path, prior in model.path_priors_tuples:
        if id(prior) in val:
            pv.append([list(map(str, path)), hexf(val[id(prior)])])
        else:
            complete = False
    out["pv"] = pv
    out["pv_complete"] = complete
    args = {tuple(p): unhex(v) for p, v in pv}
    # the instance itself (assertions ignored) and, separately, what the assertions say about these values
    out["inst"] = guarded(lambda: abstract_instance(model.instance_from_path_arguments(args, ignore_assertions=True)))
    try:
        model.instance_from_path_arguments(args)
        out["verdict"] = "ok"
    except BaseException as e:  # noqa
        out["verdict"] = exc_name(e)
    # the vector route (gates of every level included)
    try:
        vec = [val[id(p)] for p in model.priors_ordered_by_id]
        model.instance_from_vector(vec, ignore_prior_limits=True)
        out["verdict_vector"] = "ok"
    except KeyError:
        out["verdict_vector"] = "n/a"
    except BaseException as e:  # noqa
        out["verdict_vector"] = exc_name(e)
    # the property's own formulation: the same value for each (original) path
    if pathvals0 is not None:
        def strict():
            args = {}
            for path in model.unique_prior_paths:
                args[tuple(path)] = pathvals0[tuple(map(str, path))]
            return abstract_instance(model.instance_from_path_arguments(args))
        out["strict_inst"] = guarded(strict)
    # every advertised path resolves to the prior it is advertised for
    res = []
    for path, prior in model.path_priors_tuples:
        try:
            res.append(model.object_for_path(path) == prior)
        except BaseException:  # noqa
            res.append(False)
    out["paths_resolve"] = all(res)
    return out, occ


# ------------------------------------------------------------------ round trips
_counter = [0]
ROW_ORDER = []


def trip(model, form, variant):
    if form == "dict":
        if variant == "autoconf":
            return from_dict(json.loads(json.dumps(to_dict(model))))
        if variant == "reference":
            # class paths handed over separately: from_dict(d, reference={"path.in.model": "class.path"})
            d = json.loads(json.dumps(model.dict()))
            reference = {}

            def strip(x, path):
                if isinstance(x, dict):
                    if "class_path" in x and x.get("type") in ("model", "instance"):
                        reference[".".join(path)] = x.pop("class_path")
                    for k, v in (x.get("arguments") or {}).items():
                        strip(v, path + [str(k)])
            strip(d, [])
            return af.AbstractPriorModel.from_dict(d, reference=reference)
        if variant == "file":
            _counter[0] += 1
            path = os.path.join(SCRATCH, "model_%d_%d.json" % (os.getpid(), _counter[0]))
            with open(path, "w") as f:
                json.dump(model.dict(), f, indent=4)
            try:
                return af.AbstractPriorModel.from_json(path)
            finally:
                os.remove(path)
        return af.AbstractPriorModel.from_dict(json.loads(json.dumps(model.dict())))
    if form == "pickle":
        if variant == "dill" and dill is not None:
            return dill.loads(dill.dumps(model))
        return pickle.loads(pickle.dumps(model))
    if form == "db":
        engine = sa.create_engine("sqlite://")
        try:
            session = sa.orm.sessionmaker(bind=engine)()
            db.Base.metadata.create_all(engine)
            fit = db.Fit(id="fit", model=model)
            session.add(fit)
            session.commit()
            session.expire_all()
            session.close()
            session = sa.orm.sessionmaker(bind=engine)()
            fit = session.query(db.Fit).one()
            loaded = fit.model
            # rows are rebuilt in the order the `children` relationship returns them (no order_by):
            # record whether that is the order in which they were written (ascending row id)
            bad = []
            stack = [fit._Fit__model]
            while stack:
                row = stack.pop()
                kids = list(row.children)
                if [k.id for k in kids] != sorted(k.id for k in kids):
                    bad.append(str(row.name))
                stack.extend(kids)
            ROW_ORDER.append(bad)
            session.close()
            return loaded
        finally:
            engine.dispose()
    raise ValueError(form)


def run_case(c):
    model, pool = build(c)
    idmap = {int(p.id): i for i, p in enumerate(pool)}
    out = {"pool_ids": [int(p.id) for p in pool]}
    values = [unhex(v) for v in c["values"]]
    obs0, occ0 = observe(model, None, None)
    # value of each occurrence = value of its pool prior (passed priors keep the id of the prior they replace)
    vals_by_pos = [values[idmap[int(p.id)]] for p in occ0]
    pathvals0 = {}
    for path, prior in model.path_priors_tuples:
        pathvals0[tuple(map(str, path))] = values[idmap[int(prior.id)]]
    obs0, occ0 = observe(model, vals_by_pos, pathvals0)
    out["states"] = [obs0]
    out["steps"] = []
    if c.get("frozen"):
        # what a fit does before it saves its model: the queries above have run, now the model is frozen
        # (caches exist; every later query of the ORIGINAL is answered from them)
        model.freeze()
        _ = model.prior_count, model.paths, model.unique_prior_tuples
    cur = model
    for st in c["steps"]:
        prev = cur
        try:
            cur = trip(prev, st["form"], st.get("variant"))
        except BaseException as e:  # noqa
            import traceback
            out["steps"].append({"exc": type(e).__name__, "msg": str(e)[:200], "tb": traceback.format_exc()[-500:]})
            break
        rows = ROW_ORDER.pop() if (st["form"] == "db" and ROW_ORDER) else []
        o, _ = observe(cur, vals_by_pos, pathvals0)
        step = {"ok": True, "rows_out_of_order": rows, "frozen_before": bool(getattr(prev, "_is_frozen", False)),
                "frozen_after": bool(getattr(cur, "_is_frozen", False))}
        if c.get("frozen"):
            step["thaw"] = thaw_and_modify(prev, st)
        out["steps"].append(step)
        out["states"].append(o)
    return out


def thaw_and_modify(prev, st):
    """A SECOND reload of the same (possibly frozen) model must be usable as a model: it can be unfrozen,
    given new attributes, its tuple members and collection items can be reassigned, and it still answers queries."""
    try:
        m = trip(prev, st["form"], st.get("variant"))
        if st["form"] == "db" and ROW_ORDER:
            ROW_ORDER.pop()
        m.unfreeze()
        n0 = m.prior_count
        done = []

        def walk(obj, depth=0):
            if isinstance(obj, Model):
                for k, v in list(obj.__dict__.items()):
                    if isinstance(v, TuplePrior):
                        for mk, mv in list(v.__dict__.items()):
                            if not mk.startswith("_") and mk != "id" and isinstance(mv, float):
                                setattr(obj, mk, mv + 1.0)           # through Model.__setattr__ into the tuple prior
                                setattr(v, mk, mv)                  # and directly
                                done.append("tuple-member")
                                break
                    elif isinstance(v, (Model, Collection)):
                        walk(v, depth + 1)
                obj.c08_extra = 1.5
                del obj.c08_extra
                done.append("model-attr")
            elif isinstance(obj, Collection):
                for k, v in list(obj.__dict__.items()):
                    if isinstance(v, (Model, Collection)):
                        walk(v, depth + 1)
                obj.c08_extra = af.UniformPrior(0.0, 1.0)
                done.append("coll-attr")
        walk(m)
        grew = m.prior_count - n0
        m.freeze()
        m.unfreeze()
        return {"ok": True, "done": sorted(set(done)), "grew": grew}
    except BaseException as e:  # noqa
        import traceback
        return {"exc": type(e).__name__, "msg": str(e)[:200], "tb": traceback.format_exc()[-400:]}


def observe_array(model, pathvals):
    out = {"count": model.prior_count}
    out["path_ids"] = sorted([list(map(str, path)), int(prior.id)] for path, prior in model.path_priors_tuples)
    out["specs"] = sorted([list(map(str, path)), abstract_prior(prior)["fam"], hexf(prior.lower_limit), hexf(prior.upper_limit)]
                          for path, prior in model.path_priors_tuples)
    out["state"] = abstract_state(model, [])
    def inst():
        args = {tuple(path): pathvals[tuple(map(str, path))] for path in model.unique_prior_paths}
        return abstract_instance(model.instance_from_path_arguments(args))
    out["inst"] = guarded(inst)
    out["medians"] = guarded(lambda: abstract_instance(model.instance_from_prior_medians()))
    return out


def run_array(c):
    """af.Array models: entries are prior.new() copies, optionally a constant entry, an entry with its own
    prior, an entry shared with another component."""
    base = make_prior(c["prior"], [])
    shape = tuple(c["shape"])
    arr = af.Array(shape, base)
    indices = list(arr.indices)
    for k, mod in c.get("entries", []):
        index = indices[k % len(indices)]
        arr[index] = unhex(mod["v"]) if mod["t"] == "const" else make_prior(mod["spec"], [])
    if c.get("share"):
        shared = make_prior(c["prior"], [])
        arr[indices[0]] = shared
        model = af.Collection(arr=arr, g=af.Model(vclasses.G2, a=shared, b=1.0))
    elif c.get("bare"):
        model = arr
    else:
        model = af.Collection(arr=arr)
    pathvals = {}
    for i, (path, prior) in enumerate(sorted(model.path_priors_tuples, key=lambda t: tuple(map(str, t[0])))):
        pathvals.setdefault(int(prior.id), 0.125 * (i + 1))
    byid = dict(pathvals)
    pathvals = {tuple(map(str, path)): byid[int(prior.id)] for path, prior in model.path_priors_tuples}
    out = {"states": [observe_array(model, pathvals)], "steps": []}
    if c.get("frozen"):
        model.freeze()
        _ = model.prior_count, model.paths
    cur = model
    for st in c["steps"]:
        try:
            cur = trip(cur, st["form"], st.get("variant"))
        except BaseException as e:  # noqa
            out["steps"].append({"exc": type(e).__name__, "msg": str(e)[:200]})
            break
        out["steps"].append({"ok": True})
        out["states"].append(observe_array(cur, pathvals))
    return out


def run_removal(c):
    """A positional Collection from which items were removed before the trip; after the trip one item is
    appended to the original and to the reloaded model: both must have the same composition."""
    classes = [vclasses.G2, vclasses.G3, vclasses.T3, vclasses.G2]

    def component(i):
        cls = classes[i % 4]
        m = af.Model(cls)
        return m

    def view(m):
        keys = [k for k in m.__dict__ if not k.startswith("_") and k not in ("id", "item_number")]
        return {"keys": keys, "item_number": m.__dict__.get("item_number"), "count": m.prior_count,
                "paths": sorted(list(map(str, p)) for p in m.paths)}
    model = af.Collection([component(i) for i in range(c["n"])])
    for idx in sorted(c["remove"], reverse=True):
        model.remove(getattr(model, str(idx)))
    out = {"before": view(model), "steps": []}
    if c.get("frozen"):
        _ = model.prior_count
        model.freeze()
    cur = model
    for st in c["steps"]:
        try:
            cur = trip(cur, st["form"], st.get("variant"))
        except BaseException as e:  # noqa
            out["steps"].append({"exc": type(e).__name__, "msg": str(e)[:200]})
            return out
        out["steps"].append({"ok": True, "view": view(cur)})
    try:
        for m in (model, cur):
            m.unfreeze()
            m.append(af.Model(vclasses.N1))
        out["after_append"] = {"original": view(model), "reloaded": view(cur)}
    except BaseException as e:  # noqa
        out["after_append"] = {"exc": type(e).__name__, "msg": str(e)[:200]}
    return out


def probe():
    """Which of the C08 repairs does this tree contain?  Four fixed inputs, one per modelled repair."""
    out = {"dill": dill is not None}
    a = af.UniformPrior(0.0, 1.0)
    m = af.Model(vclasses.G2, a=a, b=a.new())
    try:
        out["fix_db_id"] = db.Object.from_object(m)().prior_count == 2
    except BaseException:  # noqa
        out["fix_db_id"] = False
    out["fix_loggaussian"] = "mean" in af.LogGaussianPrior(mean=0.5, sigma=0.25).dict()
    m = af.Model(vclasses.G3)
    m.add_assertion((m.x < m.y) < m.z)
    try:
        db.Object.from_object(m)
        out["fix_chain"] = True
    except AttributeError:
        out["fix_chain"] = False
    got = af.AbstractPriorModel.from_dict({"type": "dict", "arguments": {"k": 0.0, "j": 1.5}})
    out["fix_falsy"] = "k" in got
    z = af.Model(vclasses.T2, c=1.0)
    z.pos_0, z.pos_1 = 0.5, 0.25
    out["fix_instance"] = z.dict()["type"] == "model" and af.Model(vclasses.G2, a=1.0, b=2.0).dict()["type"] == "instance"
    return out


def run_modified(c):
    """Oracle-only stream: unary ModifiedPrior (-p) as a derived parameter."""
    q = make_prior(c["prior"], [])
    model = af.Model(vclasses.G2, a=q, b=-q)
    out = {"count": [model.prior_count], "paths": [sorted(list(map(str, p)) for p in model.paths)], "steps": [],
           "inst": [guarded(lambda: abstract_instance(model.instance_from_vector([0.25])))]}
    cur = model
    for st in c["steps"]:
        try:
            cur = trip(cur, st["form"], st.get("variant"))
        except BaseException as e:  # noqa
            out["steps"].append({"exc": type(e).__name__, "msg": str(e)[:200]})
            break
        out["steps"].append({"ok": True})
        out["count"].append(cur.prior_count)
        out["paths"].append(sorted(list(map(str, p)) for p in cur.paths))
        m = cur
        out["inst"].append(guarded(lambda: abstract_instance(m.instance_from_vector([0.25]))))
    return out


def main():
    payload = json.load(open(sys.argv[1]))
    out = []
    for c in payload["cases"]:
        try:
            if c.get("kind") == "probe":
                out.append({"ok": probe()})
            elif c.get("kind") == "history":            # write/read histories on one store object (c08_hist.py)
                out.append({"ok": __import__("c08_hist").run_history(c, sys.modules[__name__])})
            elif c.get("kind") == "removal":
                out.append({"ok": run_removal(c)})
            elif c.get("kind") == "modified":
                out.append({"ok": run_modified(c)})
            elif c.get("kind") == "array":
                out.append({"ok": run_array(c)})
            else:
                out.append({"ok": run_case(c)})
        except BaseException as e:  # noqa
            import traceback
            out.append({"exc": exc_name(e), "msg": traceback.format_exc()[-900:]})
    json.dump({"results": out}, open(sys.argv[2], "w"))


main()
