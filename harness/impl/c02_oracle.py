"""C02 oracle tables: values of the external special functions, taken DIRECTLY from
scipy / numpy (never through autofit), at the arguments the Coq model will ask for.

The argument of every call is obtained by redoing the model's binary64 arithmetic in plain
Python floats (an independent shadow of coq/C02/Model.v).  If the shadow and the model ever
disagree on an argument the model's table lookup misses, yields nan and the correspondence
check fails (fail closed) -- the shadow can make the check fire, never make it pass.

Runs under /venv/bin/python.  Must not import autofit.
"""
import math
import random

import numpy as np
from scipy.special import ndtr as _ndtr, ndtri as _ndtri
from scipy.special.cython_special import erfinv as _erfinv

FN = {"erfinv": 1, "ndtr": 2, "ndtri": 3, "log10": 4, "pow10": 5, "exp": 6, "log": 7}
SQRT2 = float(np.sqrt(2))
EPS = 1e-14


def hexf(x):
    x = float(x)
    if math.isnan(x):
        return "nan"
    if math.isinf(x):
        return "inf" if x > 0 else "-inf"
    return x.hex()


def unhex(s):
    if isinstance(s, (int, float)):
        return float(s)
    if s in ("nan", "inf", "-inf"):
        return float(s)
    return float.fromhex(s)


def _lib(fn, x):
    with np.errstate(all="ignore"):
        if fn == "erfinv":
            return float(_erfinv(x))
        if fn == "ndtr":
            return float(_ndtr(x))
        if fn == "ndtri":
            return float(_ndtri(x))
        if fn == "log10":
            return float(np.log10(np.float64(x)))
        if fn == "pow10":
            return float(np.float64(10.0) ** np.float64(x))
        if fn == "exp":
            return float(np.exp(np.float64(x)))
        if fn == "log":
            return float(np.log(np.float64(x)))
    raise KeyError(fn)


class Table:
    def __init__(self):
        self.rows = {}

    def call(self, fn, x):
        x = float(x)
        v = _lib(fn, x)
        self.rows[(FN[fn], hexf(x))] = hexf(v)
        return v

    def dump(self):
        return [[k[0], k[1], v] for k, v in self.rows.items()]


def fdiv(a, b):
    """binary64 division with IEEE results instead of ZeroDivisionError."""
    with np.errstate(all="ignore"):
        return float(np.float64(a) / np.float64(b))


def fmul(a, b):
    with np.errstate(all="ignore"):
        return float(np.float64(a) * np.float64(b))


def fadd(a, b):
    with np.errstate(all="ignore"):
        return float(np.float64(a) + np.float64(b))


def fsub(a, b):
    with np.errstate(all="ignore"):
        return float(np.float64(a) - np.float64(b))


class Shadow:
    """Plain-float replay of Model.v for one prior, recording the oracle table."""

    def __init__(self, spec, table, gate=None):
        """spec: the prior whose MESSAGE is used; gate: the prior whose limits are enforced (default: the same)."""
        self.T = table
        self.fam = spec["family"]
        self.lo = unhex(spec["lo"])
        self.hi = unhex(spec["hi"])
        g = gate or spec
        self.glo = unhex(g["lo"])
        self.ghi = unhex(g["hi"])
        self.mean = unhex(spec.get("mean", 0.0))
        self.sigma = unhex(spec.get("sigma", 1.0))
        if self.fam == "uniform":
            self.bm, self.bs = 0.0, 1.0
            self.shift, self.scale = self.lo, fsub(self.hi, self.lo)
        elif self.fam == "loguniform":
            self.bm, self.bs = 0.0, 1.0
            self.shift = self.T.call("log10", self.lo)
            self.scale = self.T.call("log10", fdiv(self.hi, self.lo))
            self.T.call("log10", self.hi)      # asked for by the repaired LogUniformPrior (ratio overflow guard) only
        else:
            self.bm, self.bs = self.mean, self.sigma

    def base(self, u):
        arg = fsub(1.0, fmul(2.0, fsub(1.0, u)))
        inv = self.T.call("erfinv", arg)
        return fadd(self.bm, fmul(fmul(self.bs, SQRT2), inv))

    def raw(self, u):
        b = self.base(u)
        if self.fam == "uniform":
            return fadd(fmul(self.T.call("ndtr", b), self.scale), self.shift)
        if self.fam == "loguniform":
            x = fadd(fmul(self.T.call("ndtr", b), self.scale), self.shift)
            return self.T.call("pow10", x)
        if self.fam == "gaussian":
            return b
        return self.T.call("exp", b)

    def clamp(self, x):
        if x <= 0 and x >= -EPS:
            x = EPS
        if x >= 1 and x <= 1 + EPS:
            x = 1 - EPS
        return x

    def unit(self, x):
        if self.fam == "uniform":
            t = fdiv(fsub(x, self.shift), self.scale)
            z = self.T.call("ndtri", self.clamp(t))
        elif self.fam == "loguniform":
            y = self.T.call("log10", x)
            t = fdiv(fsub(y, self.shift), self.scale)
            z = self.T.call("ndtri", self.clamp(t))
        elif self.fam == "gaussian":
            z = x
        else:
            z = self.T.call("log", x)
        return self.T.call("ndtr", fdiv(fsub(z, self.bm), self.bs))

    def random_unit(self, l, u, r):
        lul = self.unit(self.glo)
        uul = self.unit(self.ghi)
        a = lul if lul > l else l          # max(l, lul)
        b = uul if uul < u else u          # min(u, uul)
        return fadd(a, fmul(fsub(b, a), r))


def first_random(seed):
    """random.seed(seed); random.random() -- taken from the library directly."""
    return random.Random(seed).random()


def tables_for_prior(spec, observations, results, gate=None):
    """Table covering every observation of one prior case.  `results` are the implementation's
    outputs (needed for round trips: the cdf is tabulated at the value the code returned)."""
    T = Table()
    sh = Shadow(spec, T, gate)
    if sh.fam == "loguniform" and not math.isfinite(fdiv(sh.hi, sh.lo)):
        # tables for both readings of the scale (as coded: log10(hi/lo) = inf; repaired: log10 hi - log10 lo)
        alt = Shadow(spec, T, gate)
        alt.scale = fsub(T.call("log10", sh.hi), sh.shift)
        shadows = [sh, alt]
    else:
        shadows = [sh]
    for sh in shadows:
        _fill(sh, observations, results)
    return T.dump()


def _fill(sh, observations, results):
    for o, r in zip(observations, results):
        t = o["t"]
        if t in ("value", "raw"):
            sh.raw(unhex(o["u"]))
        elif t == "rt":
            sh.raw(unhex(o["u"]))
            if isinstance(r, dict) and "v" in r:
                sh.unit(unhex(r["v"]))
        elif t == "unit":
            sh.unit(unhex(o["x"]))
        elif t == "limits":
            sh.unit(sh.glo)
            sh.unit(sh.ghi)
        elif t == "random":
            rr = first_random(o["seed"])
            sh.raw(sh.random_unit(unhex(o["l"]), unhex(o["u"]), rr))


def tables_for_vector(specs, us):
    T = Table()
    for spec, u in zip(specs, us):
        sh = Shadow(spec, T)
        sh.raw(unhex(u))
        if sh.fam == "loguniform" and not math.isfinite(fdiv(sh.hi, sh.lo)):
            sh.scale = fsub(T.call("log10", sh.hi), sh.shift)
            sh.raw(unhex(u))
    return T.dump()


def versions():
    import scipy
    return {"numpy": np.__version__, "scipy": scipy.__version__}
