"""C18 implementation driver: runs the real EP bookkeeping code on abstract cases.

Kinds:
  raw   arbitrary factor graph + arbitrary mean-field state; a scripted sequence of
        factor_approximation / project_mean_field (directly or through an ApproxUpdater)
  par   the same through ParallelEPOptimiser.run (serial stand-in for the process pool)
  decl  FactorGraphModel / AnalysisFactor / HierarchicalFactor: mean_field_approximation(),
        then EPOptimiser.run / .optimise with scripted factor optimisers, EPHistory, EPResult
All observables are natural parameters as float.hex strings.
"""
import json
import logging
import sys

from vimpl_common import setup, hexf, unhex, exc_name

af, conf = setup()
logging.disable(logging.CRITICAL)

import autofit.graphical as g
from autofit import exc
from autofit.graphical import EPMeanField, MeanField, Factor, FactorGraph
from autofit.graphical.declarative.result import EPResult
from autofit.graphical.expectation_propagation import EPHistory, EPOptimiser, AbstractFactorOptimiser
from autofit.graphical.expectation_propagation.optimiser import (
    SimplerUpdater, FactorUpdater, DynamicUpdater, ParallelEPOptimiser, factor_step)
from autofit.graphical.utils import Status
from autofit.graphical.expectation_propagation import visualise as _visualise

# plotting the evidence / KL history (matplotlib, ~0.7 s per run) is irrelevant to the bookkeeping
_visualise.Visualise.__call__ = lambda self: None
from autofit.mapper.variable import Variable, Plate
import numpy as np
from types import SimpleNamespace
from autofit.messages.normal import NormalMessage


ELEMS = None  # while reading an EPMeanFieldSubset: plate element held at each array position
FLAT_W = 1   # plated cases: variable b, plate element k  <->  flattened id b * FLAT_W + k


def nat(mf, index):
    """MeanField -> sorted [[(flattened) var index, eta1, eta2]], one row per plate element"""
    out = []
    for v, m in mf.items():
        e = m.natural_parameters
        if m.shape:
            for k in range(m.size):
                out.append([index[v] * FLAT_W + (ELEMS[k] if ELEMS else k), hexf(e[0][k]), hexf(e[1][k])])
        else:
            out.append([index[v] * FLAT_W, hexf(e[0]), hexf(e[1])])
    return sorted(out)


def bits(mf, index):
    """exact (mean, sigma) of every message, for the 'nothing else changed' check"""
    out = []
    for v, m in mf.items():
        if m.shape:
            for k in range(m.size):
                out.append([index[v] * FLAT_W + (ELEMS[k] if ELEMS else k), hexf(m.mean[k]), hexf(m.sigma[k])])
        else:
            out.append([index[v] * FLAT_W, hexf(m.mean), hexf(m.sigma)])
    return sorted(out)


def msg(mean, sigma):
    return NormalMessage(unhex(mean), unhex(sigma))


def mk_mf(rows, variables, plated=()):
    """[[flattened id, mean, sigma]] -> MeanField (plate elements gathered into array messages, in row order)"""
    groups = {}
    for fv, mu, sg in rows:
        groups.setdefault(fv // FLAT_W, []).append((unhex(mu), unhex(sg)))
    d = {}
    for b_, vals in groups.items():
        if b_ in plated:
            d[variables[b_]] = NormalMessage(np.array([x for x, _ in vals]), np.array([y for _, y in vals]))
        else:
            d[variables[b_]] = NormalMessage(*vals[0])
    return MeanField(d)


def typed(x, ty):
    """unusual but legal numeric types for a damping factor"""
    if ty == "int" and float(x) == int(x):
        return int(x)
    if ty == "np":
        return np.float64(x)
    if ty == "arr0":
        return np.array(x)
    return x


# ONE updater object per (class, parameters) for the whole driver process: an updater holds no state of the graph it
# was last used on, so re-using it on another graph / another approximation must give a fresh object's answer
_UPD = {}


def shared(key, make):
    if key not in _UPD:
        _UPD[key] = make()
    return _UPD[key]


def make_delta(d, variables):
    if d["t"] == "scalar":
        return typed(unhex(d["d"]), d.get("ty"))
    if d["t"] == "pervar":
        return MeanField({variables[v // FLAT_W]: unhex(x) for v, x in d["ds"] if v % FLAT_W == 0})
    raise ValueError(d["t"])


class BatchFn:
    """factor callable of a plated factor: Factor.subset needs .shape and [index]"""
    __name__ = "batch_fn"

    def __init__(self, n):
        self.shape = (n,)

    def __call__(self, *a, **kw):
        return np.zeros(self.shape)

    def __getitem__(self, index):
        return BatchFn(int(np.size(index)))


def build_raw(c):
    global FLAT_W
    plate = c.get("plate")
    FLAT_W = 8 if plate else 1
    nv = 1 + max(v // FLAT_W for f in c["init"] for v, _, _ in f)
    pl = Plate("p") if plate else None
    plated = set(plate["vars"]) if plate else set()
    variables = [Variable("v%d" % i, pl) if i in plated else Variable("v%d" % i) for i in range(nv)]
    index = {v: i for i, v in enumerate(variables)}
    factors = []
    for k, f in enumerate(c.get("base_factors", c["factors"])):
        def fn(*a, **kw):
            return 0.0
        kw = {"plates": (pl,)} if any(v in plated for v in f) else {}
        if kw:
            fn = BatchFn(plate["n"])
        det = c.get("det")
        if det and det["factor"] == k:
            # one variable of this factor is its deterministic output (in all_variables, not in variables)
            f = [v for v in f if v != det["var"]]
            kw = dict(kw, factor_out=variables[det["var"]])
        factors.append(Factor(fn, *[variables[v] for v in f], name="f%d" % k,
                              arg_names=["a%d" % j for j in range(len(f))], **kw))
    graph = FactorGraph(factors)
    if c.get("fad"):
        # every factor starts from the same message per variable: the real constructor used by declarative graphs
        rows = {}
        for f in c["init"]:
            for row in f:
                rows[row[0]] = row
        dists = dict(mk_mf(list(rows.values()), variables, plated))
        return variables, index, factors, EPMeanField.from_approx_dists(graph, dists), pl, plated
    fmf = {factors[k]: mk_mf(f, variables, plated) for k, f in enumerate(c["init"])}
    return variables, index, factors, EPMeanField(graph, fmf), pl, plated


def state_obs(approx, factors, index):
    fm = approx.factor_mean_field
    return [nat(fm[f], index) for f in factors]


def state_bits(approx, factors, index):
    fm = approx.factor_mean_field
    return [bits(fm[f], index) for f in factors]


def caller_edits(ap):
    """the caller edits every container an EPMeanField hands out (not the messages inside): the object's own
    state must not be reachable through them"""
    ap.factor_mean_field.clear()
    vm = ap.variable_messages
    for l in vm.values():
        l.clear()
    vm.clear()
    ap.variable_message_count.clear()
    g_ = ap.mean_field
    if isinstance(g_, dict):
        dict.clear(g_)


def global_by_variable(ap, index):
    """second route to the global approximation: the product, per variable, of variable_messages"""
    import functools
    import operator
    vm = ap.variable_messages
    return nat(MeanField({v: functools.reduce(operator.mul, ms) for v, ms in vm.items() if ms}), index), \
        sorted([index[v] * FLAT_W, n] for v, n in ap.variable_message_count.items())


def run_raw(c):
    variables, index, factors, approx, pl, plated = build_raw(c)
    out = {"state0": state_obs(approx, factors, index), "global0": nat(approx.mean_field, index), "steps": []}
    base = approx
    # every EPMeanField object produced so far with the messages it had when it was produced (what a
    # history entry / a caller holding an older approximation sees)
    retained = [[approx, state_bits(approx, factors, index)]]
    for s in c["steps"]:
        f = factors[s["f"]]
        if s.get("barrier"):
            base = approx
        src = base if s.get("stale") else approx
        inplace = s["via"].startswith("inplace")
        if inplace:
            # reads on the object that is about to be updated IN PLACE (they must not be remembered)
            approx.mean_field, approx.model_dist, approx.variable_messages, approx.variable_message_count
            for g_ in factors:
                approx.factor_approximation(g_)
        fa = src.factor_approximation(f)
        # snapshot now: an indexed in-place write mutates the message arrays the approximation shares
        pre = {"cavity": nat(fa.cavity_dist, index), "own": nat(fa.factor_dist, index), "model": nat(fa.model_dist, index)}
        new = mk_mf(s["new"], variables, plated)
        before = state_bits(approx, factors, index)
        d = s["delta"]
        status_in = Status()
        if inplace:
            idx = {pl: list(s["index"])} if s.get("index") is not None else None
            fake = SimpleNamespace(factor_mean_field={"subset-factor": new}, _factor_subset_factor={f: "subset-factor"},
                                   plates_index=idx)
            if s["via"] == "inplace":            # stochastic EP write-back without plates
                approx.update_factor_mean_field(f, new)
            elif s["via"] == "inplace_index":
                approx.update_factor_mean_field(f, new, idx)
            elif s["via"] == "inplace_setitem":  # model_approx[batch] = subset_approx
                approx[idx] = fake
            elif s["via"] == "inplace_update":
                assert approx.update(fake) is approx
            else:
                raise ValueError(s["via"])
            approx2, status = approx, Status()
        elif s["via"] == "project":
            approx2, status = approx.project_mean_field(new, fa, delta=make_delta(d, variables), status=status_in)
        elif s["via"] == "fa_project":
            # the same update through FactorApproximation.project_mean_field + EPMeanField.project_factor_approx
            projection, status = fa.project_mean_field(new, delta=make_delta(d, variables), status=status_in)
            approx2, status = approx.project_factor_approx(projection, status)
        elif s["via"] == "project_default":
            approx2, status = approx.project_mean_field(new, fa)
        elif s["via"] == "simple":
            upd = shared(("simple", d["d"], d.get("ty")), lambda: SimplerUpdater(typed(unhex(d["d"]), d.get("ty"))))
            approx2, status = upd.update_model_approx(new, fa, approx, status_in)
        elif s["via"] == "factor":
            upd = FactorUpdater({f: unhex(d["d"])}, default=unhex(s["other_delta"]))
            approx2, status = upd.update_model_approx(new, fa, approx, status_in)
        elif s["via"] == "factor_default":
            other = factors[(s["f"] + 1) % len(factors)]
            upd = FactorUpdater({other: unhex(s["other_delta"])} if other is not f else {}, default=unhex(d["d"]))
            approx2, status = upd.update_model_approx(new, fa, approx, status_in)
        elif s["via"] == "dynamic":
            upd = shared(("dynamic", d["d0"]), lambda: DynamicUpdater(unhex(d["d0"])))
            approx2, status = upd.update_model_approx(new, fa, approx, status_in)
        else:
            raise ValueError(s["via"])
        caller_edits(approx2)
        after_old = before if inplace else state_bits(approx, factors, index)
        after = state_bits(approx2, factors, index)
        post = None
        if inplace:
            post = []
            for g_ in factors:
                pa = approx2.factor_approximation(g_)
                post.append({"cavity": nat(pa.cavity_dist, index), "own": nat(pa.factor_dist, index),
                             "model": nat(pa.model_dist, index)})
        if approx2 is approx:
            for rt in retained:
                if rt[0] is approx2:
                    rt[1] = after
        else:
            retained.append([approx2, after])
        retained_changed = []
        for k, rt in enumerate(retained):
            if rt[0] is not approx2:
                now = state_bits(rt[0], factors, index)
                if now != rt[1]:
                    retained_changed.append(k)
                    rt[1] = now      # report every rewrite once
        out["steps"].append({
            "retained_changed": retained_changed, "n_retained": len(retained),
            "post": post, "global_alias": nat(approx2.model_dist, index),
            "global_vm": global_by_variable(approx2, index)[0], "vm_count": global_by_variable(approx2, index)[1],
            "cavity": pre["cavity"], "own": pre["own"], "model": pre["model"],
            "msg": nat(approx2.factor_mean_field[f], index), "global": nat(approx2.mean_field, index),
            "state": state_obs(approx2, factors, index),
            "success": bool(status.success), "updated": bool(status.updated),
            "others_same": all(after[k] == before[k] for k in range(len(factors)) if k != s["f"]),
            "input_same": after_old == before,
        })
        approx = approx2
    out["final"] = state_obs(approx, factors, index)
    return out


def run_subset(c):
    """EPMeanField.subset -> EPMeanFieldSubset.factor_approximation / project_mean_field -> update / merge,
    all with the real objects"""
    variables, index, factors, approx, pl, plated = build_raw(c)
    idx = {pl: list(c["batch"])}
    out = {"state0": state_obs(approx, factors, index), "bits0": state_bits(approx, factors, index), "steps": []}
    approx.mean_field, approx.model_dist
    for g_ in factors:
        approx.factor_approximation(g_)
    sub = approx.subset(idx) if c.get("via_subset", "subset") == "subset" else approx[idx]
    out["sub_type"] = type(sub).__name__

    batch = list(c["batch"])

    def on_batch(fn, *a):
        global ELEMS
        ELEMS = batch
        try:
            return fn(*a)
        finally:
            ELEMS = None

    def sub_state(sb):
        fm = sb.factor_mean_field
        return on_batch(lambda: [nat(fm[sb.factor_subset_factor[f]], index) for f in factors])

    def sub_bits(sb):
        fm = sb.factor_mean_field
        return on_batch(lambda: [bits(fm[sb.factor_subset_factor[f]], index) for f in factors])

    def snat(mf):
        return on_batch(nat, mf, index)
    out["sub0"] = sub_state(sub)
    out["sub_bits0"] = sub_bits(sub)
    out["subglobal0"] = snat(sub.mean_field)
    out["rescale"] = [sorted([index[v] * FLAT_W, float(x)] for v, x in sub.factor_rescale[sub.factor_subset_factor[f]].items())
                      for f in factors]
    for s in c["steps"]:
        f = factors[s["f"]]
        fa = sub.factor_approximation(f)
        pre = {"cavity": snat(fa.cavity_dist), "own": snat(fa.factor_dist), "model": snat(fa.model_dist)}
        rows = sorted(s["new"], key=lambda row: (row[0] // FLAT_W, batch.index(row[0] % FLAT_W) if row[0] // FLAT_W in plated else 0))
        new = mk_mf(rows, variables, plated)
        before = sub_bits(sub)
        sub2, status = sub.project_mean_field(new, fa, delta=unhex(s["delta"]["d"]), status=Status())
        after = sub_bits(sub2)
        out["steps"].append(dict(pre, msg=snat(sub2.factor_mean_field[sub2.factor_subset_factor[f]]),
                                 **{"global": snat(sub2.mean_field), "state": sub_state(sub2),
                                    "success": bool(status.success), "updated": bool(status.updated),
                                    "others_same": all(after[k] == before[k] for k in range(len(factors)) if k != s["f"]),
                                    "input_same": sub_bits(sub) == before, "sub_type": type(sub2).__name__}))
        sub = sub2
    wb = c["writeback"]
    out["sub_bits_final"] = sub_bits(sub)
    before = state_bits(approx, factors, index)
    if wb == "update":
        final = approx.update(sub)
        out["same_object"] = final is approx
    elif wb == "setitem":
        approx[idx] = sub
        final = approx
        out["same_object"] = True
    elif wb == "merge":
        final = approx.merge(idx, sub)
        out["same_object"] = final is approx
        out["input_same"] = state_bits(approx, factors, index) == before
    else:
        final = approx
    out["final"] = state_obs(final, factors, index)
    out["final_bits"] = state_bits(final, factors, index)
    out["final_global"] = nat(final.mean_field, index)
    out["final_alias"] = nat(final.model_dist, index)
    out["final_post"] = []
    for g_ in factors:
        pa = final.factor_approximation(g_)
        out["final_post"].append({"cavity": nat(pa.cavity_dist, index), "own": nat(pa.factor_dist, index),
                                  "model": nat(pa.model_dist, index)})
    return out


class FakePool:
    """serial stand-in for multiprocessing.Pool: same starmap contract"""
    def starmap(self, fn, args):
        return [fn(*a) for a in args]


class Recorder(AbstractFactorOptimiser):
    """scripted factor optimiser: the k-th call for a factor returns the k-th scripted outcome"""

    def __init__(self, scripts, factors, variables, index, tag="default", share=None):
        super().__init__()
        self.scripts, self.factors, self.variables, self.index = scripts, factors, variables, index
        # sibling recorders (a factor's own optimiser / an entry of factor_optimisers) read the same scripts
        self.calls = share.calls if share else {}
        self.seen = share.seen if share else []
        self.tag = tag

    def optimise(self, factor_approx, status=Status()):
        i = self.factors.index(factor_approx.factor)
        k = self.calls.get(i, 0)
        self.calls[i] = k + 1
        self.seen.append({"f": i, "cavity": nat(factor_approx.cavity_dist, self.index),
                          "own": nat(factor_approx.factor_dist, self.index),
                          "model": nat(factor_approx.model_dist, self.index), "who": self.tag})
        oc = self.scripts[i][k]
        if oc["t"] == "raise":
            raise EXC_KINDS[oc.get("exc", "ValueError")]("scripted failure")
        if oc.get("warn"):
            import warnings
            warnings.warn("scripted warning from the user's optimiser", RuntimeWarning)
        new = MeanField({self.variables[v]: msg(mu, sg) for v, mu, sg in oc["new"]})
        return new, Status(success=oc["success"], result=oc["token"])


EXC_KINDS = {"ValueError": ValueError, "ZeroDivisionError": ZeroDivisionError, "FloatingPointError": FloatingPointError,
             "OverflowError": OverflowError, "RuntimeError": RuntimeError, "NotImplementedError": NotImplementedError,
             "RecursionError": RecursionError, "LinAlgError": np.linalg.LinAlgError, "UnicodeError": UnicodeError}


def access_row(fh):
    pos = {id(a): k for k, (a, _) in enumerate(fh.history)}
    row = {}
    for name in ("latest_successful", "previous_successful", "latest_update", "previous_update"):
        try:
            row[name] = pos[id(getattr(fh, name))]
        except exc.HistoryException:
            row[name] = None
    try:
        row["latest_result"] = [fh.latest_result]
    except exc.HistoryException:
        row["latest_result"] = None
    return row


class LogHistory(EPHistory):
    def __init__(self, *a, **kw):
        super().__init__(*a, **kw)
        self.log = []
        self.mid = []
        self.on_entry = None

    def __call__(self, factor, approx, status=Status()):
        self.log.append((factor, approx, status))
        out = super().__call__(factor, approx, status)
        # read - append - read: the accessors of the SAME FactorHistory object are read after every entry
        self.mid.append(access_row(self[factor]))
        if self.on_entry:
            self.on_entry()
        return out


def make_history(factors, stop, default=False):
    # default=True: the EPHistory that optimise() creates when none is passed (kl_tol = 0.1 terminates the run)
    hist = LogHistory() if default else LogHistory(kl_tol=None, evidence_tol=None)
    if stop is not None:
        sf, sk = stop
        target = factors[sf]

        def cb(factor, approx, status):
            return factor == target and len(hist[factor].history) == sk
        hist._callbacks = (cb,)
    return hist


def make_updater(d, factors):
    if d["t"] == "scalar":
        return shared(("simple", d["d"], d.get("ty")), lambda: SimplerUpdater(typed(unhex(d["d"]), d.get("ty"))))
    if d["t"] == "dynamic":
        return shared(("dynamic", d["d0"]), lambda: DynamicUpdater(unhex(d["d0"])))
    raise ValueError(d["t"])


def log_obs(hist, factors, index):
    out = []
    for factor, approx, status in hist.log:
        i = factors.index(factor)
        out.append({"f": i, "success": bool(status.success), "updated": bool(status.updated),
                    "token": status.result, "msg": nat(approx.factor_mean_field[factor], index),
                    "global": nat(approx.mean_field, index), "global_ms": bits(approx.mean_field, index),
                    "state": state_obs(approx, factors, index), "bits": state_bits(approx, factors, index)})
    return out


def access_obs(hist, factors):
    out = []
    for f in factors:
        fh = hist[f]
        row = access_row(fh)
        row["statuses"] = [[bool(s.success), bool(s.updated), s.result] for _, s in fh.history]
        out.append(row)
    return out


def split_run(opt, approx, max_steps, split, hist, between=None):
    """one optimiser used twice: run(a) then run(b) on what the first call returned, with the same history; `between`
    may change public attributes of the optimiser.  Without a stop this is one run of a + b sweeps."""
    if split is None:
        return opt.run(approx, max_steps=max_steps), None
    mid = opt.run(approx, max_steps=split)
    n_mid = len(hist.log)
    if between:
        between(opt)
    return opt.run(mid, max_steps=max_steps - split), n_mid


def run_par(c):
    variables, index, factors, approx, _pl, _plated = build_raw(c)
    rec = Recorder(c["scripts"], factors, variables, index)
    hist = make_history(factors, c.get("stop"))
    order = [factors[i] for i in c["order"]]
    kw = {"default_optimiser": rec}
    route = c.get("route", "default")
    if route == "by_factor":
        # the second way to say which optimiser fits which factor: an explicit dict, no default
        # (without a default optimiser the code visits the factors in the order of THIS dict and ignores factor_order:
        # outside C18's text, so the dict is given in the visiting order)
        kw = {"factor_optimisers": {factors[i]: Recorder(c["scripts"], factors, variables, index, tag="own%d" % i, share=rec)
                                    for i in c["order"]}}
    elif route == "mixed":
        kw["factor_optimisers"] = {f: Recorder(c["scripts"], factors, variables, index, tag="own%d" % i, share=rec)
                                   for i, f in enumerate(factors) if i in c["own"]}
    if c["parallel"]:
        opt = object.__new__(ParallelEPOptimiser)
        EPOptimiser.__init__(opt, approx.factor_graph, ep_history=hist,
                             factor_order=order, updater=make_updater(c["delta"], factors), **kw)
        opt.pool = FakePool()
    else:
        opt = EPOptimiser(approx.factor_graph, ep_history=hist,
                          factor_order=order, updater=make_updater(c["delta"], factors), **kw)
    out = {"state0": state_obs(approx, factors, index), "global0": nat(approx.mean_field, index),
           "bits0": state_bits(approx, factors, index)}

    def between(o):
        if c.get("delta2"):
            o.updater = make_updater(c["delta2"], factors)
    final, out["n_mid"] = split_run(opt, approx, c["max_steps"], c.get("split"), hist, between)
    out["log"] = log_obs(hist, factors, index)
    out["mid"] = hist.mid
    out["seen"] = rec.seen
    out["final"] = state_obs(final, factors, index)
    out["access"] = access_obs(hist, factors)
    return out


def tokens(fn):
    try:
        x = fn()
        return x if isinstance(x, list) else [x]
    except exc.HistoryException:
        return None


class Analysis(af.Analysis):
    def log_likelihood_function(self, instance):
        return -1.0


def model_for(occ, priors):
    """a prior model whose prior_model.priors is exactly `occ` (with multiplicity, in order)"""
    models = []
    for k in range(0, len(occ), 3):
        chunk = [priors[v] for v in occ[k:k + 3]] + [1.0, 1.0]
        models.append(af.Model(af.Gaussian, centre=chunk[0], normalization=chunk[1], sigma=chunk[2]))
    return models[0] if len(models) == 1 else af.Collection(*models)


def run_decl(c):
    # explicit ids: a replayed case behaves exactly as inside a batch.  `ids` / `create`: the id of a prior need not
    # follow its index, and priors need not be created in index order (ids order prior factors and sorted(priors))
    nv = len(c["priors"])
    ids = c.get("ids") or list(range(nv))
    priors = [None] * nv
    for k in (c.get("create") or range(nv)):
        mu, sg = c["priors"][k]
        priors[k] = af.GaussianPrior(mean=unhex(mu), sigma=unhex(sg), id_=ids[k])
    index = {p: i for i, p in enumerate(priors)}
    declared, hier_groups, expanded = [], [], []
    factors_ref = []      # filled once the graph exists; recorders look factors up at call time
    rec = Recorder(c["run"]["scripts"] if c.get("run") else [], factors_ref, priors, index)
    grow = c.get("grow") if c["entry"] == "fgm" else None
    late_drawn = []
    twins = {}
    for mi, mfac in enumerate(c["mfactors"]):
        own = Recorder(rec.scripts, factors_ref, priors, index, tag="own%d" % mi, share=rec) if mfac.get("own") else None
        if mfac["t"] == "analysis":
            kw = {"name": mfac["name"]} if mfac.get("name") is not None else {}
            if mfac.get("twin_of") is not None:
                # an equal-but-distinct factor: the SAME model object and the SAME analysis object in a second factor
                t_model, t_an = twins[mfac["twin_of"]]
            else:
                t_model, t_an = model_for(mfac["occ"], priors), Analysis()
            twins[mi] = (t_model, t_an)
            fac = g.AnalysisFactor(t_model, t_an, optimiser=own, **kw)
            declared.append(fac)
            expanded.append(fac)
        else:
            kw = {}
            for name, v in zip(("mean", "sigma"), mfac["dist"]):
                kw[name] = priors[v] if isinstance(v, int) else unhex(v)
            if own is not None:
                kw["optimiser"] = own
            h = g.HierarchicalFactor(af.GaussianPrior, **kw)
            n_now = len(mfac["drawn"])
            if grow and str(mi) in grow.get("hier_late", {}):
                n_now = grow["hier_late"][str(mi)]
            for v in mfac["drawn"][:n_now]:
                h.add_drawn_variable(priors[v])
            late_drawn.append((h, mfac["drawn"][n_now:]))
            declared.append(h)
            hier_groups.append(h)
    if c["entry"] == "single":
        top = declared[0]
    elif grow:
        # ONE FactorGraphModel used twice: everything is read on the smaller graph, then factors / drawn variables are
        # added, and the object must answer like a fresh FactorGraphModel of the full composition
        top = g.FactorGraphModel(*declared[:grow["n"]], include_prior_factors=c["include"])
        try:
            top.prior_counts, top.message_dict, top.priors, top.prior_factors, top.model_factors, top.prior_model
            top.graph, top.info
            early = top.mean_field_approximation()
            early.mean_field
            for f_ in early.factor_graph.factors:
                early.factor_approximation(f_)
        except Exception:  # noqa   (a smaller graph may be degenerate; only the grown object is under test)
            pass
        for d_ in declared[grow["n"]:]:
            top.add(d_)
        for h, rest in late_drawn:
            for v in rest:
                h.add_drawn_variable(priors[v])
    else:
        top = g.FactorGraphModel(*declared, include_prior_factors=c["include"])
    out = {"prior_counts": sorted([index[p], n] for p, n in top.prior_counts),
           "model_priors": [[index[p] for p in f.prior_model.priors] for f in top.model_factors]}
    approx = top.mean_field_approximation()
    gfactors = list(approx.factor_graph.factors)
    nm = len(top.model_factors)
    # canonical indexing: model factors in declaration order, then prior factors by descending prior index
    # (the order of prior factors inside the graph follows a set iteration and is reported, not assumed)
    factors = gfactors[:nm] + sorted(gfactors[nm:], key=lambda f: -index[f.prior])
    out["graph_order"] = [factors.index(f) for f in gfactors]
    out["kinds"] = [type(f).__name__ for f in factors]
    out["n_model_factors"] = nm
    out["state0"] = state_obs(approx, factors, index)
    out["cavity0"] = [nat(approx.factor_approximation(f).cavity_dist, index) for f in factors]
    out["model0"] = [nat(approx.factor_approximation(f).model_dist, index) for f in factors]
    out["global0"] = nat(approx.mean_field, index)
    out["prior_nat"] = sorted([index[p], hexf(p.message.natural_parameters[0]), hexf(p.message.natural_parameters[1])]
                              for p in priors)
    r = c.get("run")
    if not r:
        return out
    factors_ref.extend(factors)
    hist = make_history(factors, r.get("stop"), default=r.get("history") == "default")
    # ONE EPResult object made before the fit on the history the fit fills, read after every recorded entry: at the
    # end it must report what a fresh EPResult reports
    res_early = EPResult(ep_history=hist, declarative_factor=top, updated_ep_mean_field=approx)

    def read_groups(res_):
        ge = [tokens(lambda: res_.latest_results)]
        for h in hier_groups:
            ge.append(tokens(lambda: res_.latest_for(h).results))
        for fac in top.model_factors:
            ge.append(tokens(lambda: res_.latest_for(fac)))
        return ge
    hist.on_entry = lambda: read_groups(res_early)
    if r["mode"] == "optimise":
        res = top.optimise(rec, ep_history=hist, max_steps=r["max_steps"])
        final = res.updated_ep_mean_field
    else:
        graph = top.graph
        gf = list(graph.factors)
        kw = {}
        owners = {fac: fac.optimiser for fac in gf[:nm] if getattr(fac, "optimiser", None) is not None}
        if owners:
            kw["factor_optimisers"] = owners
        opt = EPOptimiser(graph, default_optimiser=rec, ep_history=hist,
                          factor_order=[gf[gf.index(factors[i])] for i in r["order"]],
                          updater=make_updater(r["delta"], factors), **kw)

        if r.get("split") is not None:
            final_mid = opt.run(top.mean_field_approximation(), max_steps=r["split"])
            out["n_mid"] = len(hist.log)
            final = opt.run(final_mid, max_steps=r["max_steps"] - r["split"])
        else:
            final = opt.run(top.mean_field_approximation(), max_steps=r["max_steps"])
        res = EPResult(ep_history=hist, declarative_factor=top, updated_ep_mean_field=final)
    out["mid"] = hist.mid
    out["log"] = log_obs(hist, factors, index)
    out["seen"] = rec.seen
    out["final"] = state_obs(final, factors, index)
    out["final_global"] = nat(final.mean_field, index)
    out["access"] = access_obs(hist, factors)
    out["groups"] = read_groups(res)
    out["groups_early_object"] = read_groups(res_early)
    # EPResult.model: the posterior reported for every path of every model factor
    posterior = []
    try:
        model = res.model
        coll = af.Collection({f.name: f.prior_model for f in top.model_factors})
        for path, prior in coll.path_priors_tuples:
            got = model.object_for_path(path)
            posterior.append([index[prior], hexf(got.mean), hexf(got.sigma)])
        out["posterior"] = posterior
        reported = {prior for _, prior in coll.path_priors_tuples}
        out["posterior_missing"] = sorted(index[p_] for p_ in top.priors if p_ not in reported)
        fm = final.mean_field
        out["final_mean_sigma"] = sorted([index[p], hexf(m.mean), hexf(m.sigma)] for p, m in fm.items())
    except Exception as e:  # noqa
        out["posterior_exc"] = "%s: %s" % (type(e).__name__, str(e)[:200])
    return out


def run_case(c):
    global FLAT_W
    FLAT_W = 1
    if c["kind"] == "raw":
        return run_raw(c)
    if c["kind"] == "par":
        return run_par(c)
    if c["kind"] == "subset":
        return run_subset(c)
    if c["kind"] == "decl":
        return run_decl(c)
    raise ValueError(c["kind"])


def main():
    cases = json.load(open(sys.argv[1]))["cases"]
    out = []
    for c in cases:
        try:
            out.append({"ok": run_case(c)})
        except BaseException as e:  # noqa
            import traceback
            out.append({"exc": exc_name(e), "msg": (str(e)[:300] + " | " + traceback.format_exc()[-600:])})
    json.dump({"results": out}, open(sys.argv[2], "w"))


main()
