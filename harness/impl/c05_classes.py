"""Importable helpers of the C05 driver: the likelihood used by every C05 case and the
fake sampler-internal objects handed to the real conversion functions.

The likelihood is a separable quadratic bowl over the *paths* of the composition program:
    L(instance) = - sum_over_terms  c * (value_at(path) - t) ** 2
`terms` = [(path tuple, c, t)] comes from the harness (harness/vcheck/c05.py: `terms_of`), which
evaluates the same formula itself from the sample's own kwargs (independent of autofit).
"""
import time

import numpy as np
import autofit as af


class SpecAnalysis(af.Analysis):
    def __init__(self, terms, reject=None, slow=None, ret="float"):
        # type of the returned log likelihood: Python float | numpy.float64 | 0-d numpy array | 1-element array
        self.ret = ret
        self.terms = [(tuple(p), float(c), float(t)) for p, c, t in terms]
        # optional (path, threshold, seconds): evaluations with value < threshold take longer, so that
        # parallel evaluations complete out of submission order
        self.slow = None if slow is None else (tuple(slow[0]), float(slow[1]), float(slow[2]))
        # optional region in which the fit is impossible: (path, lo, hi) -> FitException
        self.reject = None if reject is None else (tuple(reject[0]), float(reject[1]), float(reject[2]))
        # what happens inside the region: "fitexc" raises FitException, "nan" returns NaN
        self.reject_mode = "fitexc" if reject is None or len(reject) < 4 else reject[3]

    def log_likelihood_function(self, instance):
        if self.reject is not None:
            obj = instance
            for name in self.reject[0]:
                obj = getattr(obj, name)
            if self.reject[1] <= obj < self.reject[2]:
                if self.reject_mode == "nan":
                    return np.array(float("nan")) if self.ret == "np0d" else np.float64("nan") if self.ret == "np64" else float("nan")
                raise af.exc.FitException("rejected region")
        if self.slow is not None:
            obj = instance
            for name in self.slow[0]:
                obj = getattr(obj, name)
            if obj < self.slow[1]:
                time.sleep(self.slow[2])
        total = 0.0
        for path, c, t in self.terms:
            obj = instance
            for name in path:
                obj = getattr(obj, name)
            total += c * (obj - t) ** 2
        if self.ret == "np64":
            return np.float64(-total)
        if self.ret == "np0d":
            return np.array(-total)
        return -total


# ---------------------------------------------------------------------------
# fake internals (conversion level).  Each mimics only the attributes the conversion reads.
# ---------------------------------------------------------------------------

class NS:
    def __init__(self, **kw):
        self.__dict__.update(kw)


class FakeZeusSampler:
    """zeus.EnsembleSampler as documented: get_chain(flat, thin, discard) / get_log_prob(flat, thin, discard)
    take chain[discard::thin]; flattening is walker-major inside a step (C order)."""

    def __init__(self, chain, logp, ncall_total=0):
        self.chain = np.asarray(chain, dtype=float)
        self.logp = np.asarray(logp, dtype=float)
        self.ncall_total = ncall_total

    def get_chain(self, flat=False, thin=1, discard=0):
        c = self.chain[discard::thin]
        return c.reshape((-1, self.chain.shape[2])) if flat else c

    def get_log_prob(self, flat=False, thin=1, discard=0):
        c = self.logp[discard::thin]
        return c.reshape((-1,)) if flat else c


class FakeNautilus:
    def __init__(self, points, log_w, log_l):
        self._p = (np.asarray(points, dtype=float).reshape((len(points), -1)), np.asarray(log_w, dtype=float),
                   np.asarray(log_l, dtype=float))
        self.n_like = len(points)
        self.n_live = 1

    def posterior(self):
        return self._p

    def evidence(self):
        return 0.0


class FakePaths:
    """Only what Drawer.samples_from needs."""

    def __init__(self, obj):
        self.obj = obj

    def load_search_internal(self):
        return self.obj


class ScriptedFitness:
    """Stand-in for a Fitness object handed to AbstractInitializer.samples_from_model: what an
    evaluation does is a deterministic function of the parameter vector.  `bands` partitions [0, 1)
    (the fractional part of 7.3 * |first parameter|) into [lo, hi, kind] with kind in
    value | fitexc | nan | low | neginf."""

    def __init__(self, bands, delay=0.0):
        self.bands = [(float(a), float(b), k) for a, b, k in bands]
        self.delay = float(delay)

    def kind_of(self, parameters):
        frac = (abs(float(parameters[0])) * 7.3) % 1.0
        for lo, hi, kind in self.bands:
            if lo <= frac < hi:
                return kind
        return "value"

    @staticmethod
    def value_of(parameters):
        total = 0.0                      # explicit loop: sum() is compensated from Python 3.12 on
        for i, v in enumerate(parameters):
            total = total + (i + 1.0) * (float(v) * float(v))
        return -total

    VALID = {"zero": 0.0, "negzero": -0.0, "int": -3.0}      # legal figures of merit that are falsy / not floats

    def outcome(self, parameters):
        """What figure_of_metric returns: the value, or None."""
        k = self.kind_of(parameters)
        if k in self.VALID:
            return self.VALID[k]
        return self.value_of(parameters) if k in ("value", "np0d") else None

    def __call__(self, parameters):
        kind = self.kind_of(parameters)
        if kind == "value" and self.delay and (abs(float(parameters[0])) * 3.1) % 1.0 < 0.5:
            time.sleep(self.delay)              # some successful evaluations finish late
        if kind == "fitexc":
            raise af.exc.FitException("scripted")
        if kind == "nan":
            return float("nan")
        if kind == "low":
            return -1.0e99
        if kind == "neginf":
            return float("-inf")
        if kind == "zero":
            return 0.0
        if kind == "negzero":
            return -0.0
        if kind == "int":
            return -3
        if kind == "np0d":
            return np.array(self.value_of(parameters))
        return self.value_of(parameters)
