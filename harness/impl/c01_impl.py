"""C01 implementation driver: build models from composition programs, observe the mapper API."""
import json
import sys
import logging

from vimpl_common import setup, hexf, unhex, exc_name

af, conf = setup()
logging.disable(logging.CRITICAL)
import vbuild


def bind_defaults(e, obj, pool):
    """Put the live config-default priors (created by the library for omitted arguments) into the pool slots the
    generator reserved for them ({"t": "prior", "ref": k, "default": True})."""
    from autofit.mapper.prior.abstract import Prior
    import vclasses
    t = e["t"]
    if obj is None:
        return
    if t == "prior":
        if e.get("default") and isinstance(obj, Prior):
            pool[e["ref"]] = obj
    elif t == "model":
        for arg, kind, extra in vclasses.SIGNATURES[e["cls"]]:
            sub = e["kw"][arg]
            live = getattr(obj, "__dict__", {}).get(arg)
            if kind == "tuple":
                for j, m in enumerate(sub["members"]):
                    if m.get("default") and live is not None:
                        q = getattr(live, "__dict__", {}).get("%s_%d" % (arg, j))
                        if isinstance(q, Prior):
                            pool[m["ref"]] = q
            else:
                bind_defaults(sub, live, pool)
    elif t == "coll":
        for k, sub in e["items"]:
            if sub["t"] not in ("copy", "alias"):
                bind_defaults(sub, getattr(obj, "__dict__", {}).get(str(k)), pool)


def run_case(c):
    model, pool = vbuild.build(af, c["program"])
    bind_defaults(c["program"]["root"], model, pool)
    out = observe(model, pool, c["vec"], c["unit"], c.get("pseed", 0))
    if "edit" in c:
        # history: freeze, query, unfreeze, re-parameterise, freeze again, query again
        e = c["edit"]
        model.freeze()
        _ = model.prior_count, model.paths, model.unique_prior_paths
        try:
            model.instance_from_vector([unhex(x) for x in c["vec"]])
        except BaseException:  # noqa
            pass
        model.unfreeze()
        parent = model
        for k in e["path"]:
            parent = getattr(parent, k)
        setattr(parent, e["arg"], vbuild.build_expr(af, e["new"], pool))
        model.freeze()
        out["phase2"] = observe(model, pool, c["vec2"], c["unit2"], c.get("pseed", 0) + 1)
        model.unfreeze()
        out["phase3"] = observe(model, pool, c["vec2"], c["unit2"], c.get("pseed", 0) + 2)
    return out


def any_path_arguments(model, vec, seed):
    """A dictionary path -> value that uses, for every parameter, a randomly chosen one of its advertised paths, in a
    random parameter order, and sometimes first another path of the same parameter with a different value (the later
    entry must win)."""
    import random
    rng = random.Random(seed)
    pp = list(model.path_priors_tuples)
    groups = []
    for i, prior in enumerate(model.priors_ordered_by_id):
        paths = [p for p, q in pp if q is prior]
        chosen = rng.choice(paths)
        others = [p for p in paths if p != chosen]
        g = []
        if others and rng.random() < 0.5:
            g.append((rng.choice(others), vec[i] + 1.0))
        g.append((chosen, vec[i]))
        groups.append(g)
    rng.shuffle(groups)
    entries = []
    for g in groups:
        if len(g) == 2:
            entries.insert(rng.randint(0, len(entries)), g[0])
        entries.append(g[-1])
    return entries


def structure_checks(model):
    """Harness-side assertions about facts the abstraction relies on."""
    from autofit.mapper.prior.abstract import Prior
    from autofit.mapper.prior.tuple_prior import TuplePrior
    from autofit.mapper.prior.arithmetic.compound import CompoundPrior, ModifiedPrior
    import re
    bad = []
    seen = set()

    def go(obj):
        if id(obj) in seen or not hasattr(obj, "__dict__"):
            return
        seen.add(id(obj))
        if isinstance(obj, CompoundPrior):
            keys = [k for k in obj.__dict__ if not k.startswith("_") and k != "id"]
            if set(keys) != {obj._left_name, obj._right_name}:
                bad.append("compound keys %s != {%s, %s}" % (keys, obj._left_name, obj._right_name))
            elif obj.__dict__[obj._right_name] is not obj._right or (
                    obj._left_name != obj._right_name and obj.__dict__[obj._left_name] is not obj._left):
                bad.append("compound operands are not the attributes named %s / %s" % (obj._left_name, obj._right_name))
            elif obj._left_name == obj._right_name and obj._left is not obj._right:
                bad.append("compound with one attribute name for two different operands")
        if isinstance(obj, ModifiedPrior):
            keys = [k for k in obj.__dict__ if not k.startswith("_") and k != "id"]
            if keys != [obj._prior_name]:
                bad.append("modified-prior keys %s != [%s]" % (keys, obj._prior_name))
            elif obj.__dict__[obj._prior_name] is not obj.prior:
                bad.append("modified-prior operand is not the attribute named %s" % obj._prior_name)
        if isinstance(obj, TuplePrior):
            names = [k for k in obj.__dict__ if k != "id" and not k.startswith("_")]
            if all(re.fullmatch(r".*_\d+", n) for n in names) and len({n.rsplit("_", 1)[0] for n in names}) <= 1:
                got = [t[0] for t in obj.tuples]
                expect = [n for n in sorted(names, key=lambda n: int(n.rsplit("_", 1)[1])) if n in got]
                if got != expect:
                    bad.append("TuplePrior.tuples order %s, by position %s" % (got, expect))
        for k, v in list(obj.__dict__.items()):
            if not k.startswith("_") and k not in ("cls",):
                go(v)
    go(model)
    return bad


def observe(model, pool, vec_hex, unit_hex, pseed=0):
    idmap = {p.id: i for i, p in enumerate(pool)}
    out = {"tree": vbuild.abstract_model(af, model, idmap)}
    out["id_order_ok"] = all(pool[i].id < pool[i + 1].id for i in range(len(pool) - 1))
    out["paths"] = [list(map(str, p)) for p in model.paths]
    out["upaths"] = [list(map(str, p)) for p in model.unique_prior_paths]
    out["count"] = model.prior_count
    out["ids"] = [idmap.get(p.id, -1) for p in model.priors_ordered_by_id]
    vec = [unhex(x) for x in vec_hex]
    unit = [unhex(x) for x in unit_hex]

    def guarded(f):
        try:
            return {"ok": f()}
        except BaseException as e:  # noqa
            return {"exc": exc_name(e), "msg": str(e)[:200]}

    out["inst"] = guarded(lambda: vbuild.abstract_instance(af, model.instance_from_vector(vec)))
    out["inst_paths"] = guarded(lambda: vbuild.abstract_instance(
        af, model.instance_from_path_arguments({tuple(p): v for p, v in zip(model.unique_prior_paths, vec)})))
    try:
        entries = any_path_arguments(model, vec, pseed)
        out["pv"] = [[list(map(str, p)), hexf(v)] for p, v in entries]
        out["inst_paths_any"] = guarded(lambda: vbuild.abstract_instance(
            af, model.instance_from_path_arguments({tuple(p): v for p, v in entries})))
    except BaseException as e:  # noqa
        out["pv"] = []
        out["inst_paths_any"] = {"exc": exc_name(e), "msg": str(e)[:200]}
    out["structure"] = structure_checks(model)
    out["vec_from_unit"] = guarded(lambda: [hexf(x) for x in model.vector_from_unit_vector(unit)])
    out["inst_unit"] = guarded(lambda: vbuild.abstract_instance(af, model.instance_from_unit_vector(unit)))
    if "ok" in out["vec_from_unit"]:
        v2 = [unhex(x) for x in out["vec_from_unit"]["ok"]]
        out["inst_vec_of_unit"] = guarded(lambda: vbuild.abstract_instance(af, model.instance_from_vector(v2)))
    # every advertised path resolves to the prior it is advertised for
    res = []
    for path, prior in model.path_priors_tuples:
        try:
            res.append(model.object_for_path(path) is prior)
        except BaseException:  # noqa
            res.append(False)
    out["paths_resolve"] = all(res)
    out["resolve"] = resolutions(model, idmap)
    if "ok" in out["inst"]:
        live = guarded(lambda: model.instance_from_vector(vec))
        if "ok" in live:
            out["acc"] = [[list(map(str, p)), access(live["ok"], p, True), access(live["ok"], p, False)]
                          for p in model.unique_prior_paths]
    return out


def resolutions(model, idmap):
    """For every advertised (path, prior): the pool index of what object_for_path finds at the path given as the
    advertised tuple, at the same path with every component turned into a str (a path read back from text), and by
    walking the model with collection[name] / getattr;
    -1: not a prior of the pool, -2: raised."""
    from autofit.mapper.prior.abstract import Prior
    out = []
    for path, prior in model.path_priors_tuples:
        row = [list(map(str, path)), idmap.get(prior.id, -1)]
        for pa in (tuple(path), tuple(map(str, path))):
            try:
                obj = model.object_for_path(pa)
                row.append(idmap.get(obj.id, -1) if isinstance(obj, Prior) else -1)
            except BaseException:  # noqa
                row.append(-2)
        # ... and walking the model itself by item access: collection[name] on collections, getattr elsewhere
        try:
            obj = model
            for name in path:
                obj = obj[str(name)] if isinstance(obj, af.Collection) else getattr(obj, str(name))
            row.append(idmap.get(obj.id, -1) if isinstance(obj, Prior) else -1)
        except BaseException:  # noqa
            row.append(-2)
        out.append(row)
    return out


def access(instance, path, by_item):
    """The float a user finds at an advertised path of a built instance through the public accessors: collections by
    instance[name] (by_item) or getattr, objects by getattr, tuple values by the index in the member name. None when
    the path is not addressable that way."""
    from autofit.mapper.model import ModelInstance
    cur = instance
    try:
        for name in path:
            if isinstance(cur, ModelInstance):
                cur = cur[name] if by_item else getattr(cur, name)
            elif isinstance(cur, tuple):
                suffix = str(name).rsplit("_", 1)[-1]
                cur = cur[int(suffix)]
            elif isinstance(cur, (float, int)) or type(cur).__name__ == "ndarray":
                return None
            else:
                cur = getattr(cur, name)
    except BaseException:  # noqa
        return None
    if isinstance(cur, bool) or not isinstance(cur, (float, int)):
        return None
    return hexf(float(cur))


def main():
    cases = json.load(open(sys.argv[1]))["cases"]
    out = []
    for c in cases:
        try:
            out.append({"ok": run_case(c)})
        except BaseException as e:  # noqa
            import traceback
            out.append({"exc": exc_name(e), "msg": traceback.format_exc()[-600:]})
    json.dump({"results": out}, open(sys.argv[2], "w"))


main()
