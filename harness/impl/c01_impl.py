"""C01 implementation driver: build models from composition programs, observe the mapper API."""
import json
import sys
import logging

from vimpl_common import setup, hexf, unhex, exc_name

af, conf = setup()
logging.disable(logging.CRITICAL)
import vbuild


def run_case(c):
    model, pool = vbuild.build(af, c["program"])
    out = observe(model, pool, c["vec"], c["unit"])
    if "edit" in c:
        # history: freeze, query, unfreeze, re-parameterise, freeze again, query again
        e = c["edit"]
        model.freeze()
        _ = model.prior_count, model.paths, model.unique_prior_paths
        try:
            model.instance_from_vector([unhex(x) for x in c["vec"]])
        except BaseException:  # noqa
            pass
        model.unfreeze()
        parent = model
        for k in e["path"]:
            parent = getattr(parent, k)
        setattr(parent, e["arg"], vbuild.build_expr(af, e["new"], pool))
        model.freeze()
        out["phase2"] = observe(model, pool, c["vec2"], c["unit2"])
        model.unfreeze()
        out["phase3"] = observe(model, pool, c["vec2"], c["unit2"])
    return out


def observe(model, pool, vec_hex, unit_hex):
    idmap = {p.id: i for i, p in enumerate(pool)}
    out = {"tree": vbuild.abstract_model(af, model, idmap)}
    out["id_order_ok"] = all(pool[i].id < pool[i + 1].id for i in range(len(pool) - 1))
    out["paths"] = [list(map(str, p)) for p in model.paths]
    out["upaths"] = [list(map(str, p)) for p in model.unique_prior_paths]
    out["count"] = model.prior_count
    out["ids"] = [idmap.get(p.id, -1) for p in model.priors_ordered_by_id]
    vec = [unhex(x) for x in vec_hex]
    unit = [unhex(x) for x in unit_hex]

    def guarded(f):
        try:
            return {"ok": f()}
        except BaseException as e:  # noqa
            return {"exc": exc_name(e), "msg": str(e)[:200]}

    out["inst"] = guarded(lambda: vbuild.abstract_instance(af, model.instance_from_vector(vec)))
    out["inst_paths"] = guarded(lambda: vbuild.abstract_instance(
        af, model.instance_from_path_arguments({tuple(p): v for p, v in zip(model.unique_prior_paths, vec)})))
    out["vec_from_unit"] = guarded(lambda: [hexf(x) for x in model.vector_from_unit_vector(unit)])
    out["inst_unit"] = guarded(lambda: vbuild.abstract_instance(af, model.instance_from_unit_vector(unit)))
    if "ok" in out["vec_from_unit"]:
        v2 = [unhex(x) for x in out["vec_from_unit"]["ok"]]
        out["inst_vec_of_unit"] = guarded(lambda: vbuild.abstract_instance(af, model.instance_from_vector(v2)))
    # every advertised path resolves to the prior it is advertised for
    res = []
    for path, prior in model.path_priors_tuples:
        try:
            res.append(model.object_for_path(path) is prior)
        except BaseException:  # noqa
            res.append(False)
    out["paths_resolve"] = all(res)
    return out


def main():
    cases = json.load(open(sys.argv[1]))["cases"]
    out = []
    for c in cases:
        try:
            out.append({"ok": run_case(c)})
        except BaseException as e:  # noqa
            import traceback
            out.append({"exc": exc_name(e), "msg": traceback.format_exc()[-600:]})
    json.dump({"results": out}, open(sys.argv[2], "w"))


main()
